(* sloop: Model/SolverLoop.v srun on the scripted operator invocations of a case
   (same lines as harness/sloop.go prints). *)
open Model
open Conv

let run_sloop (id, lines) =
  let start = ref Z0 in
  let execs = ref [] in
  List.iter (fun fs ->
    match fs with
    | ["start"; s] -> start := z_of_string s
    | "exec" :: ci :: w :: resets ->
        (* "b<score>": the operator resets to the solver's best solution, whose score the generator has worked out *)
        let zr x = if String.length x > 0 && x.[0] = 'b' then z_of_string (String.sub x 1 (String.length x - 1)) else z_of_string x in
        execs := { ex_resets = List.map zr resets; ex_work = z_of_string w; ex_can_improve = (ci = "1") } :: !execs
    | _ -> ()) lines;
  let st = srun !start (List.rev !execs) in
  Printf.printf "%s sent %s\n" id (String.concat " " (List.map string_of_z (List.rev st.s_sent)));
  Printf.printf "%s best %s\n" id (string_of_z st.s_best);
  Printf.printf "%s work %s\n" id (string_of_z st.s_work)

let () = Cmds.table := ("sloop", fun path -> List.iter run_sloop (read_cases path)) :: !Cmds.table

(* ploop: Model/SolverLoop.v pstep on the canonical sequential schedule: run r is spawned, grabs its allotment
   (AGrab: the three-way budget branch), performs the iterations it was granted, finishes; until the budget is
   used up (ctx cancelled by the Iterated handler); then the dispatcher exits and the channel is closed. *)
let run_ploop (id, lines) =
  let iterations = ref 1 and runs = ref 1 and det = ref false in
  let allot = ref [||] in
  List.iter (fun fs ->
    match fs with
    | ["popts"; n; r; d] -> iterations := int_of_string n; runs := int_of_string r; det := (d = "1")
    | "allot" :: l -> allot := Array.of_list (List.map int_of_string l)
    | _ -> ()) lines;
  let zi k = z_of_string (string_of_int k) in
  let st = ref (pinit (zi !iterations) (nat_of_int !runs) !det Z0 []) in
  let step a = st := prun !st [a] in
  let r = ref 0 in
  while not !st.p_cancelled && !r < !iterations + 3 do
    let a = !allot.(!r mod Array.length !allot) in
    step ASpawn;
    step (AGrab (nat_of_int !r, zi a));
    for _ = 1 to a do step (AIterate (nat_of_int !r)) done;
    step (AFinish (nat_of_int !r));
    step ACycleEnd;
    incr r
  done;
  for k = 0 to !r do step (AFinish (nat_of_int k)) done;
  step ADispatcherExit;
  step AClose;
  let grants = List.filter_map (fun w -> match w with
      | WDone (g, _) when g <> Z0 -> Some (int_of_string (string_of_z g))
      | WRun (g, _, _) -> Some (int_of_string (string_of_z g))
      | _ -> None) !st.p_workers in
  Printf.printf "%s grants %s\n" id (String.concat " " (List.map string_of_int (List.sort compare grants)));
  Printf.printf "%s total %s\n" id (string_of_z !st.p_total);
  Printf.printf "%s reported %s\n" id (string_of_z !st.p_total);
  Printf.printf "%s solutions %d\n" id (List.length !st.p_agg.a_out);
  if not !st.p_closed then Printf.printf "%s model-not-closed\n" id

let () = Cmds.table := ("ploop", fun path -> List.iter run_ploop (read_cases path)) :: !Cmds.table

(* aloop: aggregator model.  K start solutions, K runs; run r (1-based) starts from start solution K-r (the stack of start
   solutions is popped from the end); its solver sends its start solution first and then every improvement (srun); the
   aggregator (ainit / arecv) filters what it receives. *)
let run_aloop (id, lines) =
  let starts = ref [] and runs = ref [] in
  List.iter (fun fs ->
    match fs with
    | "astarts" :: l -> starts := List.map z_of_string l
    | "arun" :: l -> runs := !runs @ [List.map z_of_string l]
    | _ -> ()) lines;
  match !starts with
  | [] -> Printf.printf "%s delivered\n" id
  | s0 :: rest ->
      let k = List.length !starts in
      let received = List.concat (List.mapi (fun r ws ->
          let start = List.nth !starts (k - 1 - r) in
          let st = srun start (List.map (fun w -> { ex_resets = []; ex_work = w; ex_can_improve = true }) ws) in
          List.rev st.s_sent) !runs) in
      let a = arun s0 rest received in
      Printf.printf "%s delivered %s\n" id (String.concat " " (List.map string_of_z (List.rev a.a_out)))

let () = Cmds.table := ("aloop", fun path -> List.iter run_aloop (read_cases path)) :: !Cmds.table
