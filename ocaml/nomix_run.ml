(* nomix: Model/NoMix.v nm_history on a scripted case; same lines as harness/nomix.go. *)
open Model
open Conv

let show_name k = if k = 0 then "-" else "n" ^ string_of_int k

let run_nomix (id, lines) =
  let n = ref 0 in
  let deltas = ref [] and units = ref [] and ops = ref [] in
  List.iter (fun fs ->
    match fs with
    | ["nstops"; x] -> n := int_of_string x
    | ["delta"; s; k; q] -> deltas := !deltas @ [(int_of_string s, int_of_string k, int_of_string q)]
    | "unit" :: ss -> units := !units @ [List.map int_of_string ss]
    | "op" :: rest -> ops := !ops @ [rest]
    | _ -> ()) lines;
  let items = Array.make !n NoItem in
  let bad = ref false in
  List.iter (fun (s, k, q) ->
    if s < 0 || s >= !n then bad := true
    else items.(s) <- item_of_delta (nat_of_int k) (z_of_string (string_of_int q))) !deltas;
  let seen = Array.make !n false in
  List.iter (fun u -> List.iter (fun s ->
    if s < 0 || s >= !n || seen.(s) then bad := true else seen.(s) <- true) u) !units;
  Array.iter (fun b -> if not b then bad := true) seen;
  if !bad then Printf.printf "%s badcase\n" id
  else begin
    let inp = { nmi_items = Array.to_list items;
                nmi_units = List.map (List.map nat_of_int) !units } in
    if not (nm_validate inp) then Printf.printf "%s build rejected\n" id
    else begin
      Printf.printf "%s build ok\n" id;
      let nunits = List.length !units in
      (* an op the harness answers "bad" without consulting the library *)
      let mops = List.map (fun op ->
        match op with
        | "plan" :: u :: gs ->
            let u = int_of_string u in
            if u < 0 then NUnplan (nat_of_int nunits)
            else if List.exists (fun g -> int_of_string g < 0) gs then NPlan (nat_of_int u, [nat_of_int 1; nat_of_int 0])
            else NPlan (nat_of_int u, List.map (fun g -> nat_of_int (int_of_string g)) gs)
        | ["unplan"; u] ->
            let u = int_of_string u in
            if u < 0 then NUnplan (nat_of_int nunits) else NUnplan (nat_of_int u)
        | _ -> NUnplan (nat_of_int nunits)) !ops in
      let word r = match r with NMDone -> "done" | NMNotDone -> "notdone" | NMError -> "error" in
      List.iteri (fun step (o, route) ->
        (match o with
         | OBad -> Printf.printf "%s %d out bad\n" id step
         | OSkip -> Printf.printf "%s %d out skip\n" id step
         | OPlan (ex, r) -> Printf.printf "%s %d out plan %b %s\n" id step ex (word r)
         | OUnplan r -> Printf.printf "%s %d out unplan %s\n" id step (word r));
        let cs = nm_contents inp route in
        let buf = Buffer.create 64 in
        List.iter2 (fun s (k, q) ->
          Buffer.add_string buf (Printf.sprintf " %d:%s:%s" (int_of_nat s) (show_name (int_of_nat k)) (string_of_z q)))
          route cs;
        Printf.printf "%s %d route%s\n" id step (Buffer.contents buf))
        (nm_history inp [] mops);
      Printf.printf "%s end\n" id
    end
  end

let () = Cmds.table := ("nomix", fun path -> List.iter run_nomix (read_cases path)) :: !Cmds.table
