(* Model runner: same sub-commands and output lines as harness/nrharness,
   produced by the functions extracted from the Coq model. *)
open Model
open Conv

let run_timedep (id, lines) =
  let vals = ref [||] in
  let t = ref td_empty in
  let nset = ref 0 and nval = ref 0 in
  let valf k = let i = int_of_nat k in if i < Array.length !vals then !vals.(i) else { qnum = Z0; qden = XH } in
  List.iter (fun fs ->
    match fs with
    | "vals" :: vs -> vals := Array.of_list (List.map q_of_string vs)
    | ["frame"; s; e; k] ->
        let (t', r) = set_expression !t (z_of_string s) (z_of_string e) (nat_of_int (int_of_string k)) false in
        t := t';
        (match r with
         | SetOk -> Printf.printf "%s set %d ok\n" id !nset
         | SetErr c -> Printf.printf "%s set %d err %d\n" id !nset (int_of_nat c));
        incr nset
    | ["dep"; d] ->
        let v = q_of_string d in
        (match value_at_value !t valf v with
         | Val q -> Printf.printf "%s val %d %s\n" id !nval (string_of_q q)
         | Panic -> Printf.printf "%s val %d panic\n" id !nval);
        Printf.printf "%s expr %d %d\n" id !nval (int_of_nat (expression_at_value !t v));
        incr nval
    | _ -> ()) lines

let () =
  let cmd = Sys.argv.(1) and path = Sys.argv.(2) in
  match cmd with
  | "timedep" -> List.iter run_timedep (read_cases path)
  | _ ->
      (try (List.assoc cmd !Cmds.table) path
       with Not_found -> prerr_endline ("unknown command " ^ cmd); exit 2)
