(* Runner for the engine model: parses the model lines of a case and prints
   the same snapshot lines as harness/engine.go. *)
open Model
open Conv

let zs = string_of_z
let n2i = int_of_nat
let i2n = nat_of_int

(* token cursor *)
let take_n (toks : string list ref) (n : int) : string list =
  let rec go k acc = if k = 0 then List.rev acc else
    match !toks with
    | [] -> failwith "short line"
    | t :: r -> toks := r; go (k-1) (t :: acc) in
  go n []
let take1 toks = List.hd (take_n toks 1)
let expect toks w = let t = take1 toks in if t <> w then failwith ("expected " ^ w ^ " got " ^ t)
let take_list toks f = let k = int_of_string (take1 toks) in List.map f (take_n toks k)
let take_opt toks f = let t = take1 toks in if t = "-" then None else Some (f t)

let parse_stop fs =
  let t = ref fs in
  expect t "q"; let q = take_list t z_of_string in
  expect t "d"; let d = z_of_string (take1 t) in
  expect t "w"; let k = int_of_string (take1 t) in
  let ws = List.init k (fun _ -> let a = z_of_string (take1 t) in let b = z_of_string (take1 t) in (a, b)) in
  expect t "mw"; let mw = take_opt t z_of_string in
  expect t "p"; let p = z_of_string (take1 t) in
  expect t "at"; let at = take_list t (fun x -> i2n (int_of_string x)) in
  { is_quantity = q; is_duration = d; is_windows = ws; is_max_wait = mw; is_penalty = p; is_attrs = at;
    is_target = None; is_early_pen = Z0; is_late_pen = Z0 }

let parse_vehicle fs =
  let t = ref fs in
  expect t "cap";
  let cap = (match !t with "-" :: r -> t := r; None | _ -> Some (take_list t z_of_string)) in
  expect t "sl"; let sl = take_list t z_of_string in
  expect t "st"; let st = z_of_string (take1 t) in
  expect t "et"; let et = take_opt t z_of_string in
  expect t "md"; let md = take_opt t z_of_string in
  expect t "ms"; let ms = take_opt t z_of_string in
  expect t "mx"; let mx = take_opt t z_of_string in
  expect t "mw"; let mw = take_opt t z_of_string in
  expect t "at"; let at = take_list t (fun x -> i2n (int_of_string x)) in
  expect t "ac"; let ac = z_of_string (take1 t) in
  expect t "hs"; let hs = take1 t = "1" in
  expect t "he"; let he = take1 t = "1" in
  { iv_capacity = cap; iv_start_level = sl; iv_start_time = st; iv_end_time = et; iv_max_duration = md;
    iv_max_stops = ms; iv_max_distance = mx; iv_max_wait = mw; iv_attrs = at; iv_activation = ac;
    iv_has_start = hs; iv_has_end = he; iv_min_stops = Z0; iv_min_stops_pen = Z0; iv_mult_num = Zpos XH; iv_mult_den = Zpos XH }

let parse_unit fs =
  let t = ref fs in
  let stops = take_list t (fun x -> i2n (int_of_string x)) in
  expect t "arcs";
  let k = int_of_string (take1 t) in
  let arcs = List.init k (fun _ ->
    let a = i2n (int_of_string (take1 t)) in let b = i2n (int_of_string (take1 t)) in
    let d = take1 t = "1" in ((a, b), d)) in
  { iu_stops = stops; iu_arcs = arcs }

let parse_opts fs =
  match List.map (fun x -> x) fs with
  | [a;b;c;d;e;f;g;h;i;j;k;fa;ft;fv;fu] ->
      let bo x = x = "1" in
      { o_dis_capacity = bo a; o_dis_distance = bo b; o_dis_max_duration = bo c; o_dis_end_time = bo d;
        o_dis_windows = bo e; o_dis_max_stops = bo f; o_dis_max_wait_stop = bo g; o_dis_max_wait_vehicle = bo h;
        o_dis_attributes = bo i; o_dis_start_time = bo j; o_dis_durations = bo k;
        o_f_activation = z_of_string fa; o_f_travel = z_of_string ft; o_f_vehicles_duration = z_of_string fv;
        o_f_unplanned = z_of_string fu; o_dis_dgroups = false;
        o_f_early = Z0; o_f_late = Z0; o_f_min_stops = Z0; o_f_stop_balance = Z0; o_dis_multipliers = false; o_cap_obj = [] }
  | _ -> failwith "bad opt line"

let the_gi : ginput option ref = ref None
let cur_prefix : string ref = ref ""

let rec unit_key (inp : input) (u : int) : int =
  if u >= List.length inp.in_units then
    (match !the_gi with
     | Some g -> 1000 + List.fold_left (fun m mu -> min m (unit_key inp (n2i mu))) max_int (members_of g (i2n u))
     | None -> max_int)
  else
  let un = get_unit inp (i2n u) in
  List.fold_left (fun m s -> min m (n2i s)) max_int un.iu_stops

let unit_of_stop (inp : input) (s : int) : int =
  let rec go i = function
    | [] -> -1
    | u :: r -> if List.exists (fun x -> n2i x = s) u.iu_stops then i else go (i+1) r in
  go 0 inp.in_units

let keys inp (l : nat list) =
  let ks = List.sort compare (List.map (fun u -> unit_key inp (n2i u)) l) in
  String.concat " " (List.map string_of_int ks)

let res_names_ref : string list ref = ref []
let res_name r = (try List.nth !res_names_ref r with _ -> string_of_int r)
let term_names (inp : input) : string list =
  let o = inp.in_opts in
  let pos z = (match z with Zpos _ -> true | _ -> false) in
  (if pos o.o_f_activation && List.exists (fun v -> v.iv_activation <> Z0) inp.in_vehicles then ["vehicle_activation_penalty"] else []) @
  (if pos o.o_f_travel then ["travel_duration"] else []) @
  (if pos o.o_f_vehicles_duration then ["vehicles_duration"] else []) @
  (if pos o.o_f_unplanned then ["unplanned_penalty"] else []) @
  (if pos o.o_f_early && has_early inp then ["early_arrival_penalty"] else []) @
  (if pos o.o_f_late && has_late inp then ["late_arrival_penalty"] else []) @
  (if pos o.o_f_min_stops && has_min_stops inp then ["min_stops"] else []) @
  (if pos o.o_f_stop_balance then ["stop_balance"] else []) @
  List.concat_map (fun (r, (f, _)) -> if o.o_dis_capacity && pos f then ["capacity_" ^ res_name (n2i r)] else []) o.o_cap_obj

let snapshot id step (inp : input) (s : state) =
  let p = Printf.sprintf "%s %d" id step in
  List.iteri (fun vi r ->
    Printf.printf "%s route %d : %s\n" p vi
      (String.concat " " (List.map (fun c -> string_of_int (n2i c.c_stop)) r));
    (* slack (derived observable, cached by isFeasible): waiting time from this stop to the end of the route;
       the first stop of a vehicle is never assigned *)
    let waits = List.map (fun c -> Model.Z.sub c.c_start c.c_arrival) r in
    let rec suffix = function [] -> [] | w :: rest -> (match suffix rest with [] -> [w] | (x :: _) as l -> Model.Z.add w x :: l) in
    let slacks = Array.of_list (suffix waits) in
    let cells = Array.of_list r in
    List.iteri (fun i c ->
      (* per-stop values of the registered expressions (derived: step between consecutive cumulative values) *)
      let dv = if not (has_distance_limit inp) then "0"
               else if i = 0 then zs c.c_cumdist else zs (Model.Z.sub c.c_cumdist cells.(i-1).c_cumdist) in
      let lv = List.mapi (fun k l ->
                 if not (has_capacity inp) then "0"
                 else if i = 0 then zs l else zs (Model.Z.sub l (List.nth cells.(i-1).c_levels k))) c.c_levels in
      Printf.printf "%s cell %d %d %d tr %s ct %s a %s s %s e %s L %s D %s W %s P %d K %s V %s\n" p vi i (n2i c.c_stop)
        (zs c.c_travel) (zs c.c_cumtravel) (zs c.c_arrival) (zs c.c_start) (zs c.c_end)
        (let l = String.concat "," (List.map (fun l -> if has_capacity inp then zs l else "0") c.c_levels) in if l = "" then "-" else l) (if has_distance_limit inp then zs c.c_cumdist else "0") (if has_max_wait_vehicle inp then zs c.c_wait_acc else "0") (n2i c.c_pos)
        (if i = 0 then "-" else zs slacks.(i)) (String.concat "," (dv :: lv))) r)
    s.st_routes;
  Printf.printf "%s planned %s\n" p (keys inp s.st_planned);
  Printf.printf "%s unplanned %s\n" p (keys inp s.st_unplanned);
  Printf.printf "%s fixed %s\n" p (keys inp s.st_fixed);
  let terms = List.sort compare (List.map2 (fun n v -> n ^ "=" ^ zs v) (term_names inp) s.st_scores) in
  Printf.printf "%s score %s | %s\n" p (zs s.st_total) (String.concat " " terms)

let result_string = function
  | Done -> "done" | Rejected _ -> "notdone" | NotExecutable -> "notdone" | UndoFailed -> "error"

(* gaps for one stops unit on vehicle v from raw numbers rs; None when a gap splits a direct pair *)
let unit_places (inp : input) (s : state) (orders : (int * int list) list) (u : int) (v : int) (ro : int) (rs : int list)
  : (int list * int array) option =
  let key = unit_key inp u in
  let ords = List.filter_map (fun (k, o) -> if k = key then Some o else None) orders in
  if ords = [] then (prerr_endline (Printf.sprintf "no orders for key %d (unit %d)" key u); None) else
  let order = List.nth ords (ro mod List.length ords) in
  let l = List.length (List.nth s.st_routes v) in
  let gaps = List.mapi (fun i _ -> 1 + (List.nth rs i) mod (l - 1)) order in
  let gaps = Array.of_list (List.sort compare gaps) in
  let ord = Array.of_list order in
  let arcs = (get_unit inp (i2n u)).iu_arcs in
  let is_direct a b = List.exists (fun ((x, y), d) -> d && n2i x = a && n2i y = b) arcs in
  for i = 0 to Array.length ord - 2 do
    if is_direct ord.(i) ord.(i+1) then gaps.(i+1) <- gaps.(i)
  done;
  let route = Array.of_list (List.map (fun c -> n2i c.c_stop) (List.nth s.st_routes v)) in
  let splits g =
    let a = route.(g-1) and b = route.(g) in
    let ua = unit_of_stop inp a in
    ua >= 0 && List.exists (fun ((x, y), d) -> d && n2i x = a && n2i y = b) (get_unit inp (i2n ua)).iu_arcs in
  if Array.exists splits gaps then None else Some (order, gaps)

(* relative plan op: RU RV RO R1..Rk; returns the chosen top-level id with what to execute *)
type resolved = RNone | RUnit of int * string list | RGroup of int * int * (int * int list * int array) list

let resolve_plan (inp : input) (g : ginput) (s : state) (orders : (int * int list) list) (fs : string list) : resolved =
  let ios = int_of_string in
  let tops = List.sort (fun a b -> compare (fst a) (fst b)) (List.map (fun u -> (unit_key inp (n2i u), n2i u)) s.st_unplanned) in
  if tops = [] then RNone else
  match fs with
  | ru :: rv :: ro :: rs ->
      let (tkey, id) = List.nth tops (ios ru mod List.length tops) in
      Printf.printf "%s target %d\n" !cur_prefix tkey;
      if Sys.getenv_opt "VERIF_TRACE" <> None then prerr_endline (Printf.sprintf "resolve: id %d group %b members %d" id (is_group_id g (i2n id)) (List.length (members_of g (i2n id))));
      let v = ios rv mod List.length s.st_routes in
      let rs = List.map ios rs in
      if is_group_id g (i2n id) && List.exists (fun mu -> unit_planned inp s mu) (members_of g (i2n id)) then RNone
      else if is_group_id g (i2n id) then begin
        let off = ref 0 in
        let ok = ref true in
        let subs = List.map (fun mu ->
          let mu = n2i mu in
          let nst = List.length (get_unit inp (i2n mu)).iu_stops in
          let r = (match unit_places inp s orders mu v (ios ro) (List.filteri (fun i _ -> i >= !off) rs) with
                   | Some (order, gaps) -> (mu, order, gaps)
                   | None -> ok := false; (mu, [], [||])) in
          off := !off + nst; r) (members_of g (i2n id)) in
        if not !ok then RNone else RGroup (id, v, subs)
      end else
        (match unit_places inp s orders id v (ios ro) rs with
         | None -> RNone
         | Some (order, gaps) ->
             RUnit (v, List.concat (List.mapi (fun i st -> [string_of_int st; string_of_int gaps.(i)]) order)))
  | _ -> RNone

let run_engine (id, lines) =
  let orders = ref [] in
  let users = ref [] in
  let groups = ref [] in            (* lists of unit keys *)
  let initials = ref [] in          (* (vehicle, [(stop, fixed)]) *)
  let gi = ref None in
  let stops = ref [] and vehs = ref [] and units = ref [] and drows = ref [] and xrows = ref [] in
  let nres = ref 0 and opts = ref None in
  let dgroups = ref [] and dgopt = ref false in
  let xstops = ref [] and xvehs = ref [] and xopt = ref None in
  let xmults = ref [] and xmopt = ref false in
  let capobj = ref [] in
  let usol = ref [] in
  let inp = ref None and sols = ref [||] and cur = ref 0 and step = ref 0 in
  let get_inp () = match !inp with Some i -> i | None -> failwith "no build" in
  try
  List.iter (fun fs ->
    match fs with
    | "group" :: _ :: ks -> groups := !groups @ [List.map int_of_string ks]
    | "initial" :: v :: _ :: r ->
        let rec pairs = function a :: b :: t -> (i2n (int_of_string a), b = "1") :: pairs t | _ -> [] in
        initials := !initials @ [(int_of_string v, pairs r)]
    | "nres" :: [k] -> nres := int_of_string k
    | "xopt" :: [a; b; c; d] -> xopt := Some (z_of_string a, z_of_string b, z_of_string c, z_of_string d)
    | "xstop" :: [i; t; e; l] -> xstops := (int_of_string i, (z_of_string t, z_of_string e, z_of_string l)) :: !xstops
    | "xveh" :: [v; m; q] -> xvehs := (int_of_string v, (z_of_string m, z_of_string q)) :: !xvehs
    | "usol" :: kind :: k :: _ ->
        usol := !usol @ [(if kind = "balance" then SBalance (z_of_string k) else SMaxPlanned (z_of_string k))]
    | "xmopt" :: [x] -> xmopt := (x = "1")
    | "capobj" :: [r; f; off] -> capobj := !capobj @ [(i2n (int_of_string r), (z_of_string f, z_of_string off))]
    | "xmult" :: [v; a; b] -> xmults := (int_of_string v, (z_of_string a, z_of_string b)) :: !xmults
    | "dgopt" :: [x] -> dgopt := (x = "1")
    | "dgroup" :: d :: _ :: ss -> dgroups := !dgroups @ [(List.map (fun x -> i2n (int_of_string x)) ss, z_of_string d)]
    | "user" :: f :: mx :: vl :: tp :: _ ->
        let field =
          (match f with
           | "pos" -> UPos | "arrival" -> UArrival | "start" -> UStart | "end" -> UEnd
           | "cumtravel" -> UCumTravel | "wait" -> UWait
           | _ -> ULevel (i2n (int_of_string (String.sub f 5 (String.length f - 5))))) in
        users := !users @ [{ ua_field = field; ua_max = z_of_string mx; ua_vehicle_level = (vl = "1"); ua_temporal = (tp = "1") }]
    | "opt" :: r -> opts := Some (parse_opts r)
    | "stop" :: r -> stops := parse_stop r :: !stops
    | "veh" :: r -> vehs := parse_vehicle r :: !vehs
    | "unit" :: r -> units := parse_unit r :: !units
    | "uorder" :: key :: _ :: r -> orders := !orders @ [(int_of_string key, List.map int_of_string r)]
    | "drow" :: r -> drows := List.map z_of_string r :: !drows
    | "xrow" :: r -> xrows := List.map z_of_string r :: !xrows
    | "build" :: names ->
        res_names_ref := names;
        let stops_x = List.mapi (fun k st -> match List.assoc_opt k !xstops with
                                    | Some (t, e, l) -> { st with is_target = Some t; is_early_pen = e; is_late_pen = l }
                                    | None -> st) (List.rev !stops) in
        let vehs_x = List.mapi (fun k ve -> match List.assoc_opt k !xvehs with
                                   | Some (m, q) -> { ve with iv_min_stops = m; iv_min_stops_pen = q }
                                   | None -> ve) (List.rev !vehs) in
        let vehs_x = List.mapi (fun k ve -> match List.assoc_opt k !xmults with
                                   | Some (a, b) -> { ve with iv_mult_num = a; iv_mult_den = b }
                                   | None -> ve) vehs_x in
        let i = { in_user = !users; in_stops = stops_x; in_vehicles = vehs_x; in_units = List.rev !units;
                  in_duration = List.rev !drows; in_distance = List.rev !xrows; in_nres = i2n !nres;
                  in_opts = (match !opts with
                             | Some o ->
                                 let o = { o with o_dis_dgroups = !dgopt; o_dis_multipliers = !xmopt; o_cap_obj = !capobj } in
                                 (match !xopt with
                                  | Some (a, b, c, d) -> { o with o_f_early = a; o_f_late = b; o_f_min_stops = c; o_f_stop_balance = d }
                                  | None -> o)
                             | None -> failwith "no opt");
                  in_dgroups = !dgroups } in
        inp := Some i;
        let g = { gi_inp = i;
                  gi_groups = List.map (fun ks -> List.map (fun k -> i2n (unit_of_stop i k)) ks) !groups;
                  gi_initial = List.mapi (fun v _ -> (try List.assoc v !initials with Not_found -> [])) i.in_vehicles } in
        gi := Some g; the_gi := Some g;
        (match (match g_new_solution g with Some s0 when sol_ok !usol s0 -> Some s0 | _ -> None) with
         | None -> Printf.printf "%s build solution-error\n" id; raise Exit
         | Some s ->
        sols := [| s |];
        Printf.printf "%s build ok\n" id;
        snapshot id !step i s; incr step)
    | "op" :: kind :: r ->
        let i = get_inp () in
        let s = !sols.(!cur) in
        let g = (match !gi with Some g -> g | None -> failwith "no build") in
        cur_prefix := Printf.sprintf "%s %d" id !step;
        (* solution-level user rules (Model/SolUser.v): a guard around the engine's operations *)
        let guard res = sol_guard !usol (i2n (List.length i.in_user)) s res in
        let noop = ref false in
        let handled = ref false in
        let report res = Printf.printf "%s %d result %s\n" id !step (result_string res) in
        let (kind, r) =
          (match kind with
           | "planr" | "plancr" ->
               (match resolve_plan i g s !orders r with
                | RNone -> noop := true; (kind, r)
                | RUnit (v, args) -> ((if kind = "planr" then "plan" else "planchecked"), string_of_int v :: args)
                | RGroup (gid, v, subs) ->
                    let route = Array.of_list (List.map (fun c -> n2i c.c_stop) (List.nth s.st_routes v)) in
                    let sbs = List.map (fun (mu, order, gaps) ->
                      { sb_unit = i2n mu; sb_vehicle = i2n v;
                        sb_places = List.mapi (fun k st -> (i2n st, i2n route.(gaps.(k)))) order }) subs in
                    let (s', res) = g_exec_units g s (i2n gid) sbs in
                    if Sys.getenv_opt "VERIF_TRACE" <> None then prerr_endline ("group exec -> " ^ result_string res);
                    !sols.(!cur) <- s'; report res; handled := true; (kind, r))
           | "unplanr" ->
               let tops = List.sort (fun a b -> compare (fst a) (fst b)) (List.map (fun u -> (unit_key i (n2i u), n2i u)) s.st_planned) in
               if tops = [] then (noop := true; (kind, r))
               else begin
                 let (key, tid) = List.nth tops (int_of_string (List.hd r) mod List.length tops) in
                 Printf.printf "%s target %d\n" !cur_prefix key;
                 if is_group_id g (i2n tid) then begin
                   let (s', res) = g_unplan_group g s (i2n tid) in
                   !sols.(!cur) <- s'; report res; handled := true; (kind, r)
                 end else ("unplan", [string_of_int (List.hd (List.map n2i (get_unit i (i2n tid)).iu_stops))])
               end
           | "munplanr" ->
               let nu = List.length i.in_units in
               let ms = List.filter (fun u -> (match member_group g (i2n u) with Some _ -> true | None -> false) && unit_planned i s (i2n u))
                          (List.init nu (fun u -> u)) in
               let keys = List.sort compare (List.map (fun u -> unit_key i u) ms) in
               if keys = [] then (noop := true; (kind, r))
               else ("unplan", [string_of_int (List.nth keys (int_of_string (List.hd r) mod List.length keys))])
           | "vunplanr" ->
               let v = int_of_string (List.hd r) mod List.length s.st_routes in
               let (s', res) = guard (g_unplan_vehicle g s (i2n v)) in
               !sols.(!cur) <- s'; report res; handled := true; (kind, r)
           | _ -> (kind, r)) in
        if !handled then () else
        if !noop then Printf.printf "%s %d result noop\n" id !step else
        (match kind with
         | "plan" | "planchecked" ->
             (match r with
              | v :: rest ->
                  let rec pairs = function
                    | a :: b :: t -> (i2n (int_of_string a), i2n (int_of_string b)) :: pairs t
                    | _ -> [] in
                  let places = pairs rest in
                  let u = unit_of_stop i (int_of_string (List.hd rest)) in
                  let mv = { mv_unit = i2n u; mv_vehicle = i2n (int_of_string v); mv_places = places } in
                  if unit_planned i s (i2n u) then Printf.printf "%s %d result moveerror\n" id !step else
                  let (s', res) = guard (
                    if kind = "plan" then g_exec_move g s mv
                    else begin
                      Printf.printf "%s %d move executable %b\n" id !step (g_move_executable g s mv);
                      (* every built-in estimate on its own: the violated ones with their SkipVehicle hint, sorted by name *)
                      let nm = function
                        | CNAttributes -> "attributes" | CNCapacity r -> "capacity_" ^ string_of_int (n2i r)
                        | CNDistance -> "distance" | CNEnd -> "end" | CNLatestStart -> "latest_start"
                        | CNMaxStops -> "max_stops" | CNWaitStop -> "wait_stop" | CNWaitVehicle -> "wait_vehicle" in
                      let items = List.filter_map (fun ((c, v), h) ->
                        if v then Some (nm c ^ (if h then ":skip" else ":noskip")) else None) (estimates_with_hints i s mv) in
                      Printf.printf "%s %d est%s\n" id !step
                        (String.concat "" (List.map (fun x -> " " ^ x) (List.sort compare items)));
                      g_exec_checked g s mv
                    end) in
                  !sols.(!cur) <- s';
                  Printf.printf "%s %d result %s\n" id !step (result_string res)
              | _ -> failwith "bad plan op")
         | "unplan" ->
             let u = unit_of_stop i (int_of_string (List.hd r)) in
             let (s', res) = guard (g_unplan_unit g s (i2n u)) in
             !sols.(!cur) <- s';
             Printf.printf "%s %d result %s\n" id !step (result_string res)
         | "copy" ->
             sols := Array.append !sols [| s |];
             Printf.printf "%s %d result done\n" id !step
         | "switch" ->
             let k = int_of_string (List.hd r) in
             if k < Array.length !sols then cur := k;
             Printf.printf "%s %d result done\n" id !step
         | "q_seqs" ->
             let u = unit_of_stop i (int_of_string (List.hd r)) in
             let un = get_unit i (i2n u) in
             let ords = all_orders un.iu_stops un.iu_arcs in
             let strs = List.sort compare (List.map (fun o -> String.concat "-" (List.map (fun x -> string_of_int (n2i x)) o)) ords) in
             Printf.printf "%s %d Q spec : %s\n" id !step (String.concat " " strs);
             Printf.printf "%s %d result done\n" id !step
         | "q_gens" ->
             (match r with
              | v :: order ->
                  let v = int_of_string v in
                  let order = List.map int_of_string order in
                  let u = unit_of_stop i (List.hd order) in
                  let outs =
                    if unit_planned i s (i2n u) || v >= List.length s.st_routes then [] else begin
                      let route = List.map (fun c -> n2i c.c_stop) (List.nth s.st_routes v) in
                      let rarr = Array.of_list route in
                      let is_direct a b =
                        let ua = unit_of_stop i a in
                        ua >= 0 && List.exists (fun ((x, y), d) -> d && n2i x = a && n2i y = b) (get_unit i (i2n ua)).iu_arcs in
                      let split g = let g = n2i g in g >= 1 && g < Array.length rarr && is_direct rarr.(g-1) rarr.(g) in
                      let oarr = Array.of_list order in
                      let pair k = let k = n2i k in k + 1 < Array.length oarr && is_direct oarr.(k) oarr.(k+1) in
                      let res = generate_all split pair (i2n (List.length order)) (i2n (List.length route - 1)) in
                      List.sort compare (List.map (fun l -> String.concat "," (List.map (fun x -> string_of_int (n2i x)) l)) res)
                    end in
                  Printf.printf "%s %d gens %s\n" id !step (String.concat " " outs);
                  Printf.printf "%s %d result done\n" id !step
              | _ -> failwith "bad q_gens")
         | "q_best" | "q_check" -> Printf.printf "%s %d result done\n" id !step
         | "q_format" ->
             let o = g_format_solution g s in
             let p = Printf.sprintf "%s %d fmt" id !step in
             List.iteri (fun vi v ->
               Printf.printf "%s veh %d dur %s travel %s dist %s stopsdur %s wait %s\n" p vi
                 (zs v.vo_duration) (zs v.vo_travel) (zs v.vo_distance) (zs v.vo_stops_duration) (zs v.vo_waiting);
               List.iter (fun st ->
                 let (a, b, e) = (match st.so_times with Some ((a, b), e) -> (zs a, zs b, zs e) | None -> ("-", "-", "-")) in
                 Printf.printf "%s stop %d %d tr %s ct %s dur %s wait %s dist %s cumdist %s a %s s %s e %s\n" p vi (n2i st.so_stop)
                   (zs st.so_travel) (zs st.so_cumtravel) (zs st.so_duration) (zs st.so_waiting) (zs st.so_distance)
                   (zs st.so_cumdistance) a b e) v.vo_route) o.out_vehicles;
             Printf.printf "%s unplanned %s\n" p
               (String.concat " " (List.map string_of_int (List.sort compare (List.map n2i o.out_unplanned))));
             let terms = List.sort compare (List.map2 (fun n v -> n ^ "=" ^ zs v) (term_names i) o.out_terms) in
             Printf.printf "%s objective %s | %s\n" p (zs o.out_total) (String.concat " " terms);
             Printf.printf "%s %d result done\n" id !step
         | "snapall" ->
             Printf.printf "%s %d result done\n" id !step;
             Array.iteri (fun j sj -> snapshot (Printf.sprintf "%s S%d" id j) !step i sj) !sols
         | _ -> Printf.printf "%s %d result unsupported\n" id !step);
        snapshot id !step i !sols.(!cur); incr step
    | _ -> ()) lines
  with Failure m -> Printf.printf "%s MODEL-FAILURE %s\n" id m
     | Exit -> ()

let () = Cmds.table := ("engine", fun path -> List.iter run_engine (read_cases path)) :: !Cmds.table
