(* punits: Model/PlanUnitsBuild.v all_sequences on the precedence relations of a case ("seq p s d" lines,
   in the order factory/precedence.go collects them); same lines as harness/punits.go. *)
open Model
open Conv

let run_punits (id, lines) =
  let qs = ref [] in
  List.iter (fun fs ->
    match fs with
    | ["seq"; p; s; d] -> qs := !qs @ [((nat_of_int (int_of_string p), nat_of_int (int_of_string s)), d = "1")]
    | _ -> ()) lines;
  match all_sequences !qs with
  | None -> Printf.printf "%s panic\n" id
  | Some us ->
      List.iter (fun u ->
        let stops = List.sort compare (List.map int_of_nat u.ui_stops) in
        Printf.printf "%s unit %s arcs %d\n" id (String.concat " " (List.map string_of_int stops)) (List.length u.ui_seqs)) us;
      Printf.printf "%s end\n" id

let () = Cmds.table := ("punits", fun path -> List.iter run_punits (read_cases path)) :: !Cmds.table
