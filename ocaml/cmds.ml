let table : (string * (string -> unit)) list ref = ref []
