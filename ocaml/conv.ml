(* Conversions between OCaml strings/ints and the extracted Coq numbers.
   Decimal strings of arbitrary size: positives are rendered by repeated
   doubling of a little-endian decimal digit list. *)
open Model

let rec digits_double_add (ds : int list) (carry : int) : int list =
  match ds with
  | [] -> if carry = 0 then [] else [carry]
  | d :: r -> let v = 2 * d + carry in (v mod 10) :: digits_double_add r (v / 10)

let rec digits_of_pos (p : positive) : int list =
  match p with
  | XH -> [1]
  | XO q -> digits_double_add (digits_of_pos q) 0
  | XI q -> digits_double_add (digits_of_pos q) 1

let string_of_pos p =
  let ds = List.rev (digits_of_pos p) in
  String.concat "" (List.map string_of_int ds)

let string_of_z = function
  | Z0 -> "0"
  | Zpos p -> string_of_pos p
  | Zneg p -> "-" ^ string_of_pos p

let z_ten = Zpos (XO (XI (XO XH)))
let z_of_digit d =
  let rec pos n = if n = 1 then XH else if n mod 2 = 0 then XO (pos (n/2)) else XI (pos (n/2)) in
  if d = 0 then Z0 else Zpos (pos d)

let z_of_string (s : string) : z =
  let neg = String.length s > 0 && s.[0] = '-' in
  let start = if neg || (String.length s > 0 && s.[0] = '+') then 1 else 0 in
  let acc = ref Z0 in
  for i = start to String.length s - 1 do
    let c = s.[i] in
    if c < '0' || c > '9' then failwith ("bad integer " ^ s);
    acc := Z.add (Z.mul !acc z_ten) (z_of_digit (Char.code c - 48))
  done;
  if neg then Z.opp !acc else !acc

let rec nat_of_int n = if n <= 0 then O else S (nat_of_int (n - 1))
let rec int_of_nat = function O -> 0 | S n -> 1 + int_of_nat n

let pos_of_z = function Zpos p -> p | _ -> failwith "non-positive denominator"

let q_of_string (s : string) : q =
  match String.index_opt s '/' with
  | None -> { qnum = z_of_string s; qden = XH }
  | Some i ->
      let n = z_of_string (String.sub s 0 i) in
      let d = z_of_string (String.sub s (i+1) (String.length s - i - 1)) in
      { qnum = n; qden = pos_of_z d }

let string_of_q (x : q) =
  let x = qred x in
  string_of_z x.qnum ^ "/" ^ string_of_pos x.qden

let split_ws s = List.filter (fun x -> x <> "") (String.split_on_char ' ' (String.trim s))

(* case file reader: blocks "case <id>" ... "end" *)
let read_cases (path : string) : (string * string list list) list =
  let ic = open_in path in
  let blocks = ref [] and cur = ref None in
  (try
     while true do
       let line = input_line ic in
       match split_ws line with
       | [] -> ()
       | w :: _ when String.length w > 0 && w.[0] = '#' -> ()
       | "case" :: id :: _ -> cur := Some (id, [])
       | "end" :: _ ->
           (match !cur with
            | Some (id, ls) -> blocks := (id, List.rev ls) :: !blocks; cur := None
            | None -> ())
       | fs ->
           (match !cur with
            | Some (id, ls) -> cur := Some (id, fs :: ls)
            | None -> ())
     done
   with End_of_file -> close_in ic);
  List.rev !blocks
