// translator: re-extracts, from /repo's current source, the structural
// fingerprints that the Coq development ties its concurrency / aliasing
// theorems to, and emits them as Gallina terms (coq/Gen/Skeleton_*.v):
//
//   - the synchronisation skeleton of a function (goroutines, channel
//     operations, mutexes, WaitGroup, atomics, reads/writes of variables shared
//     between goroutines),
//   - the field-by-field table of solutionImpl.Copy.
//
// stdlib go/ast only.  Names are kept, line numbers are dropped, statements
// without synchronisation content are dropped.
package main

import (
	"fmt"
	"go/ast"
	"go/parser"
	"go/token"
	"os"
	"path/filepath"
	"sort"
	"strings"
)

type ctx struct {
	shared  map[string]bool   // variables shared between goroutines
	kind    map[string]string // chan | mutex | wg | atomic | func | plain
	inlines map[string]*ast.FuncLit
	goIDs   map[*ast.GoStmt]int
	local   map[int]map[string]bool // names defined inside goroutine body g (shadow outer ones)
	cur     []int                   // stack of goroutine ids during emission
}

func (c *ctx) isSharedPlain(name string) bool {
	if !c.shared[name] || c.kind[name] != "plain" {
		return false
	}
	g := c.cur[len(c.cur)-1]
	return !c.local[g][name]
}

func q(s string) string { return "\"" + s + "\"" }

func list(items []string) string { return "[" + strings.Join(items, "; ") + "]" }

func exprName(e ast.Expr) string {
	switch t := e.(type) {
	case *ast.Ident:
		return t.Name
	case *ast.SelectorExpr:
		return exprName(t.X) + "." + t.Sel.Name
	case *ast.CallExpr:
		return exprName(t.Fun) + "()"
	case *ast.StarExpr:
		return exprName(t.X)
	case *ast.UnaryExpr:
		return exprName(t.X)
	case *ast.IndexExpr:
		return exprName(t.X)
	case *ast.ParenExpr:
		return exprName(t.X)
	}
	return "?"
}

// reads of shared plain variables inside an expression (in source order)
func (c *ctx) reads(e ast.Node, skip map[*ast.Ident]bool) []string {
	var out []string
	if e == nil {
		return out
	}
	ast.Inspect(e, func(n ast.Node) bool {
		switch t := n.(type) {
		case *ast.FuncLit:
			return false
		case *ast.SelectorExpr:
			// x.f : only x can be a local
			out = append(out, c.reads(t.X, skip)...)
			return false
		case *ast.Ident:
			if skip[t] {
				return true
			}
			if c.isSharedPlain(t.Name) {
				out = append(out, "SRead "+q(t.Name))
			}
		}
		return true
	})
	return out
}

func (c *ctx) callStmt(call *ast.CallExpr) []string {
	var out []string
	for _, a := range call.Args {
		out = append(out, c.expr(a)...)
	}
	switch f := call.Fun.(type) {
	case *ast.Ident:
		if f.Name == "close" && len(call.Args) == 1 {
			return []string{"SClose " + q(exprName(call.Args[0]))}
		}
		if lit, ok := c.inlines[f.Name]; ok {
			return append(out, c.block(lit.Body.List)...)
		}
		if f.Name == "cancel" {
			return append(out, "SCall "+q("cancel"))
		}
		if f.Name == "panic" {
			return append(out, "SCall "+q("panic"))
		}
	case *ast.SelectorExpr:
		recv := exprName(f.X)
		k := c.kind[recv]
		switch {
		case k == "mutex" && f.Sel.Name == "Lock":
			return append(out, "SLock "+q(recv))
		case k == "mutex" && f.Sel.Name == "Unlock":
			return append(out, "SUnlock "+q(recv))
		case k == "wg" && f.Sel.Name == "Add":
			return append(out, "SWgAdd "+q(recv))
		case k == "wg" && f.Sel.Name == "Done":
			return append(out, "SWgDone "+q(recv))
		case k == "wg" && f.Sel.Name == "Wait":
			return append(out, "SWgWait "+q(recv))
		case k == "atomic":
			return append(out, "SAtomic "+q(recv)+" "+q(f.Sel.Name))
		case f.Sel.Name == "Done" && (recv == "ctx"):
			return append(out, "SCall "+q("ctx.Done"))
		}
		// a mutex that is a FIELD of an object (s.randomMutex.Lock()): recognised by its name
		if inner, ok := f.X.(*ast.SelectorExpr); ok && strings.HasSuffix(strings.ToLower(inner.Sel.Name), "mutex") {
			switch f.Sel.Name {
			case "Lock", "RLock":
				return append(out, "SLock "+q(inner.Sel.Name))
			case "Unlock", "RUnlock":
				return append(out, "SUnlock "+q(inner.Sel.Name))
			}
		}
		out = append(out, c.expr(f.X)...)
		if f.Sel.Name == "Copy" || f.Sel.Name == "Solve" || f.Sel.Name == "Random" || f.Sel.Name == "Perm" ||
			f.Sel.Name == "Intn" || f.Sel.Name == "Int63" || f.Sel.Name == "Float64" ||
			f.Sel.Name == "WithDeadline" || f.Sel.Name == "WithTimeout" || f.Sel.Name == "WithCancel" {
			out = append(out, "SCall "+q(f.Sel.Name))
		}
	}
	return out
}

// expression with possible channel receives / calls inside
func (c *ctx) expr(e ast.Expr) []string {
	var out []string
	if e == nil {
		return out
	}
	switch t := e.(type) {
	case *ast.UnaryExpr:
		if t.Op == token.ARROW {
			if call, ok := t.X.(*ast.CallExpr); ok && exprName(call.Fun) == "ctx.Done" {
				return []string{"SRecv " + q("ctx.Done")}
			}
			return []string{"SRecv " + q(exprName(t.X))}
		}
		return c.expr(t.X)
	case *ast.CallExpr:
		return c.callStmt(t)
	case *ast.BinaryExpr:
		return append(c.expr(t.X), c.expr(t.Y)...)
	case *ast.ParenExpr:
		return c.expr(t.X)
	case *ast.FuncLit:
		return nil // closures passed as callbacks are summarised by their sync content
	case *ast.CompositeLit:
		for _, el := range t.Elts {
			if kv, ok := el.(*ast.KeyValueExpr); ok {
				out = append(out, c.expr(kv.Value)...)
			} else {
				out = append(out, c.expr(el)...)
			}
		}
		return out
	case *ast.IndexExpr:
		return append(c.expr(t.X), c.expr(t.Index)...)
	case *ast.SliceExpr:
		return c.expr(t.X)
	case *ast.SelectorExpr:
		return c.expr(t.X)
	case *ast.Ident:
		if c.isSharedPlain(t.Name) {
			return []string{"SRead " + q(t.Name)}
		}
	}
	return out
}

func (c *ctx) callbackBody(call *ast.CallExpr) []string {
	// X.Register(func(...) { ... }) : the callback runs on the goroutine that triggers the event
	var out []string
	for _, a := range call.Args {
		if lit, ok := a.(*ast.FuncLit); ok {
			body := c.block(lit.Body.List)
			if len(body) > 0 {
				out = append(out, "SCallback "+list(body))
			}
		}
	}
	return out
}

func (c *ctx) stmt(s ast.Stmt) []string {
	switch t := s.(type) {
	case *ast.GoStmt:
		if lit, ok := t.Call.Fun.(*ast.FuncLit); ok {
			c.cur = append(c.cur, c.goIDs[t])
			body := c.block(lit.Body.List)
			c.cur = c.cur[:len(c.cur)-1]
			return []string{"SGo " + list(body)}
		}
		return []string{"SGo " + list(c.callStmt(t.Call))}
	case *ast.DeferStmt:
		if lit, ok := t.Call.Fun.(*ast.FuncLit); ok {
			return []string{"SDefer " + list(c.block(lit.Body.List))}
		}
		return []string{"SDefer " + list(c.callStmt(t.Call))}
	case *ast.ExprStmt:
		if call, ok := t.X.(*ast.CallExpr); ok {
			if sel, ok := call.Fun.(*ast.SelectorExpr); ok && sel.Sel.Name == "Register" {
				return c.callbackBody(call)
			}
		}
		return c.expr(t.X)
	case *ast.SendStmt:
		return append(c.expr(t.Value), "SSend "+q(exprName(t.Chan)))
	case *ast.AssignStmt:
		var out []string
		for _, r := range t.Rhs {
			out = append(out, c.expr(r)...)
		}
		for _, l := range t.Lhs {
			switch lt := l.(type) {
			case *ast.Ident:
				if c.isSharedPlain(lt.Name) && t.Tok != token.DEFINE {
					out = append(out, "SWrite "+q(lt.Name))
				}
			case *ast.SelectorExpr:
				out = append(out, c.expr(lt.X)...)
			case *ast.IndexExpr:
				// x[i] = ... where i is local to this goroutine (a parameter or local): every
				// instance owns its own element; not a write to the shared variable as a whole
				if ix, ok := lt.Index.(*ast.Ident); ok && len(c.cur) > 1 && c.local[c.cur[len(c.cur)-1]][ix.Name] {
					break
				}
				if id, ok := lt.X.(*ast.Ident); ok && c.isSharedPlain(id.Name) {
					out = append(out, "SWrite "+q(id.Name))
				}
			}
		}
		return out
	case *ast.IncDecStmt:
		if id, ok := t.X.(*ast.Ident); ok && c.isSharedPlain(id.Name) {
			return []string{"SRead " + q(id.Name), "SWrite " + q(id.Name)}
		}
	case *ast.DeclStmt:
		return nil
	case *ast.ReturnStmt:
		var out []string
		for _, r := range t.Results {
			out = append(out, c.expr(r)...)
		}
		return append(out, "SReturn")
	case *ast.BranchStmt:
		if t.Tok == token.BREAK {
			if t.Label != nil {
				return []string{"SBreak " + q(t.Label.Name)}
			}
			return []string{"SBreak " + q("")}
		}
		if t.Tok == token.CONTINUE {
			return []string{"SContinue"}
		}
	case *ast.LabeledStmt:
		return c.stmt(t.Stmt)
	case *ast.BlockStmt:
		return c.block(t.List)
	case *ast.IfStmt:
		var out []string
		if t.Init != nil {
			out = append(out, c.stmt(t.Init)...)
		}
		out = append(out, c.expr(t.Cond)...)
		body := c.block(t.Body.List)
		var els []string
		if t.Else != nil {
			els = c.stmt(t.Else)
		}
		if len(body) > 0 || len(els) > 0 {
			out = append(out, "SIf "+list(body)+" "+list(els))
		}
		return out
	case *ast.ForStmt:
		var out []string
		if t.Init != nil {
			out = append(out, c.stmt(t.Init)...)
		}
		body := c.expr(t.Cond)
		body = append(body, c.block(t.Body.List)...)
		if t.Post != nil {
			body = append(body, c.stmt(t.Post)...)
		}
		if len(body) > 0 {
			out = append(out, "SFor "+list(body))
		}
		return out
	case *ast.RangeStmt:
		name := exprName(t.X)
		body := c.block(t.Body.List)
		if c.kind[name] == "chan" || strings.Contains(strings.ToLower(name), "channel") {
			return []string{"SRange " + q(name) + " " + list(body)}
		}
		pre := c.expr(t.X)
		if len(body) > 0 {
			return append(pre, "SFor "+list(body))
		}
		return pre
	case *ast.SelectStmt:
		var cases []string
		for _, cc := range t.Body.List {
			cl := cc.(*ast.CommClause)
			label := "default"
			var head []string
			if cl.Comm != nil {
				head = c.stmt(cl.Comm)
				label = "comm"
			}
			body := append(head, c.block(cl.Body)...)
			cases = append(cases, "("+q(label)+", "+list(body)+")")
		}
		return []string{"SSelect " + list(cases)}
	case *ast.SwitchStmt:
		var out []string
		for _, cc := range t.Body.List {
			out = append(out, c.block(cc.(*ast.CaseClause).Body)...)
		}
		if len(out) > 0 {
			return []string{"SIf " + list(out) + " []"}
		}
	}
	return nil
}

func (c *ctx) block(stmts []ast.Stmt) []string {
	var out []string
	for _, s := range stmts {
		for _, x := range c.stmt(s) {
			// parenthesise constructor applications
			out = append(out, x)
		}
	}
	for i := range out {
		if !strings.HasPrefix(out[i], "(") {
			out[i] = "(" + out[i] + ")"
		}
	}
	return out
}

// classify local variables of fn and find those shared between goroutines
func analyse(fn *ast.FuncDecl) *ctx {
	c := &ctx{shared: map[string]bool{}, kind: map[string]string{}, inlines: map[string]*ast.FuncLit{},
		goIDs: map[*ast.GoStmt]int{}, local: map[int]map[string]bool{0: {}}, cur: []int{0}}
	declared := map[string]bool{}
	classify := func(name string, rhs ast.Expr, typ ast.Expr) {
		declared[name] = true
		k := "plain"
		src := ""
		if rhs != nil {
			src = exprName(rhs)
			if call, ok := rhs.(*ast.CallExpr); ok {
				if id, ok := call.Fun.(*ast.Ident); ok && id.Name == "make" && len(call.Args) > 0 {
					if _, ok := call.Args[0].(*ast.ChanType); ok {
						k = "chan"
					}
				}
			}
			if cl, ok := rhs.(*ast.CompositeLit); ok {
				src = exprName(cl.Type)
			}
			if _, ok := rhs.(*ast.FuncLit); ok {
				k = "func"
			}
		}
		if typ != nil {
			src = exprName(typ)
		}
		switch {
		case strings.Contains(src, "sync.Mutex"), strings.Contains(src, "sync.RWMutex"):
			k = "mutex"
		case strings.Contains(src, "sync.WaitGroup"):
			k = "wg"
		case strings.Contains(src, "atomic."):
			k = "atomic"
		}
		if _, ok := c.kind[name]; !ok {
			c.kind[name] = k
		}
	}
	ast.Inspect(fn.Body, func(n ast.Node) bool {
		switch t := n.(type) {
		case *ast.AssignStmt:
			if t.Tok == token.DEFINE {
				for i, l := range t.Lhs {
					if id, ok := l.(*ast.Ident); ok && id.Name != "_" {
						var rhs ast.Expr
						if len(t.Rhs) == len(t.Lhs) {
							rhs = t.Rhs[i]
						} else if len(t.Rhs) == 1 && i == 1 && strings.Contains(exprName(t.Rhs[0]), "WithDeadline") {
							c.kind[id.Name] = "func"
							declared[id.Name] = true
							continue
						}
						classify(id.Name, rhs, nil)
						if lit, ok := rhs.(*ast.FuncLit); ok {
							c.inlines[id.Name] = lit
						}
					}
				}
			}
		case *ast.DeclStmt:
			if gd, ok := t.Decl.(*ast.GenDecl); ok {
				for _, sp := range gd.Specs {
					if vs, ok := sp.(*ast.ValueSpec); ok {
						for i, id := range vs.Names {
							var rhs ast.Expr
							if i < len(vs.Values) {
								rhs = vs.Values[i]
							}
							classify(id.Name, rhs, vs.Type)
						}
					}
				}
			}
		}
		return true
	})
	// usage per goroutine: 0 = function body itself, k>0 = k-th go statement (nested ones get their own);
	// names defined (:=, var, range) inside a goroutine body are local to it and shadow outer names
	usedIn := map[string]map[int]bool{}
	goID := 0
	defsIn := func(body ast.Node) map[string]bool {
		defs := map[string]bool{}
		ast.Inspect(body, func(m ast.Node) bool {
			switch t := m.(type) {
			case *ast.GoStmt:
				if _, ok := t.Call.Fun.(*ast.FuncLit); ok {
					return false
				}
			case *ast.AssignStmt:
				if t.Tok == token.DEFINE {
					for _, l := range t.Lhs {
						if id, ok := l.(*ast.Ident); ok {
							defs[id.Name] = true
						}
					}
				}
			case *ast.RangeStmt:
				if t.Tok == token.DEFINE {
					for _, e := range []ast.Expr{t.Key, t.Value} {
						if id, ok := e.(*ast.Ident); ok {
							defs[id.Name] = true
						}
					}
				}
			case *ast.ValueSpec:
				for _, id := range t.Names {
					defs[id.Name] = true
				}
			case *ast.FuncLit:
				for _, f := range t.Type.Params.List {
					for _, id := range f.Names {
						defs[id.Name] = true
					}
				}
			}
			return true
		})
		return defs
	}
	// a name defined in a goroutine body and used by a go literal nested in that body (without being redefined there) is not
	// private to the goroutine: it is shared with the goroutines it starts
	escapes := map[*ast.FuncLit]map[string]bool{}
	var findEscapes func(lit *ast.FuncLit)
	findEscapes = func(lit *ast.FuncLit) {
		defs := defsIn(lit.Body)
		esc := map[string]bool{}
		ast.Inspect(lit.Body, func(m ast.Node) bool {
			if gs, ok := m.(*ast.GoStmt); ok {
				if inner, ok := gs.Call.Fun.(*ast.FuncLit); ok {
					innerDefs := defsIn(inner.Body)
					for _, f := range inner.Type.Params.List {
						for _, pn := range f.Names {
							innerDefs[pn.Name] = true
						}
					}
					ast.Inspect(inner.Body, func(x ast.Node) bool {
						if id, ok := x.(*ast.Ident); ok && defs[id.Name] && !innerDefs[id.Name] {
							esc[id.Name] = true
						}
						return true
					})
					findEscapes(inner)
					return false
				}
			}
			return true
		})
		escapes[lit] = esc
	}
	litOf := map[int]*ast.FuncLit{}
	var walk func(n ast.Node, g int)
	walk = func(n ast.Node, g int) {
		ast.Inspect(n, func(m ast.Node) bool {
			switch t := m.(type) {
			case *ast.GoStmt:
				goID++
				id := goID
				c.goIDs[t] = id
				if lit, ok := t.Call.Fun.(*ast.FuncLit); ok {
					if _, done := escapes[lit]; !done {
						findEscapes(lit)
					}
					litOf[id] = lit
					c.local[id] = defsIn(lit.Body)
					for name := range escapes[lit] {
						delete(c.local[id], name)
					}
					for _, f := range lit.Type.Params.List {
						for _, pn := range f.Names {
							c.local[id][pn.Name] = true
						}
					}
					walk(lit.Body, id)
					for _, a := range t.Call.Args {
						walk(a, g)
					}
					return false
				}
			case *ast.Ident:
				if declared[t.Name] && !(g > 0 && c.local[g][t.Name]) {
					if usedIn[t.Name] == nil {
						usedIn[t.Name] = map[int]bool{}
					}
					usedIn[t.Name][g] = true
				}
			}
			return true
		})
	}
	walk(fn.Body, 0)
	for name, gs := range usedIn {
		inGo := 0
		for g := range gs {
			if g > 0 {
				inGo++
			}
		}
		// shared: used inside a goroutine and (outside of it or in another goroutine);
		// a variable used in a single go body that is started in a loop is shared between its instances
		if inGo >= 1 && (len(gs) >= 2 || c.kind[name] != "plain") {
			c.shared[name] = true
		}
	}
	return c
}

func findFunc(file *ast.File, recv, name string) *ast.FuncDecl {
	for _, d := range file.Decls {
		fd, ok := d.(*ast.FuncDecl)
		if !ok || fd.Name.Name != name {
			continue
		}
		if recv == "" && fd.Recv == nil {
			return fd
		}
		if fd.Recv != nil && len(fd.Recv.List) == 1 && strings.Contains(exprName(fd.Recv.List[0].Type), recv) {
			return fd
		}
	}
	return nil
}

func emitSkeleton(w *strings.Builder, ident string, fset *token.FileSet, path, recv, name string) error {
	file, err := parser.ParseFile(fset, path, nil, 0)
	if err != nil {
		return err
	}
	fn := findFunc(file, recv, name)
	if fn == nil {
		return fmt.Errorf("function %s.%s not found in %s", recv, name, path)
	}
	c := analyse(fn)
	var shared []string
	for v := range c.shared {
		shared = append(shared, "("+q(v)+", "+q(c.kind[v])+")")
	}
	sort.Strings(shared)
	fmt.Fprintf(w, "Definition %s_shared : list (string * string) :=\n  %s.\n\n", ident, list(shared))
	fmt.Fprintf(w, "Definition %s_body : list sk :=\n  %s.\n\n", ident, list(c.block(fn.Body.List)))
	return nil
}

// ---- Copy table --------------------------------------------------------

func typeClass(e ast.Expr) string {
	switch t := e.(type) {
	case *ast.ArrayType:
		return "slice"
	case *ast.MapType:
		return "map"
	case *ast.StarExpr:
		return "pointer"
	case *ast.Ident:
		switch t.Name {
		case "int", "float64", "bool", "string", "int64":
			return "value"
		}
		return "named:" + t.Name
	case *ast.SelectorExpr:
		return "named:" + exprName(t)
	}
	return "other"
}

// sourceField names the field of the original the copied data comes from
// (last argument: s.slack, s.values[k], ...).
func sourceField(args []ast.Expr) string {
	if len(args) == 0 {
		return "?"
	}
	e := args[len(args)-1]
	for {
		switch t := e.(type) {
		case *ast.IndexExpr:
			e = t.X
			continue
		case *ast.SelectorExpr:
			return t.Sel.Name
		case *ast.Ident:
			return "local:" + t.Name
		}
		return "?"
	}
}

func rhsShape(e ast.Expr) string {
	switch t := e.(type) {
	case *ast.CallExpr:
		fn := exprName(t.Fun)
		switch {
		case fn == "make":
			return "make"
		case strings.HasSuffix(fn, "CopySliceFrom"):
			return "copyslice:" + sourceField(t.Args)
		case strings.HasSuffix(fn, "slices.Clone"):
			return "clone:" + sourceField(t.Args)
		case strings.HasPrefix(fn, "new"):
			// arguments that hand a field of the original itself to the
			// constructor (s.random, ...): the new object then shares it
			sh := "new:" + fn
			for _, a := range t.Args {
				if sel, ok := a.(*ast.SelectorExpr); ok {
					if id, ok := sel.X.(*ast.Ident); ok && id.Name == "s" {
						sh += "(alias:" + exprName(sel) + ")"
					}
				}
			}
			return sh
		}
		return "call:" + fn
	case *ast.Ident:
		return "local:" + t.Name
	case *ast.SelectorExpr:
		return "alias:" + exprName(t)
	}
	return "other"
}

func emitCopyTable(w *strings.Builder, fset *token.FileSet, path string) error {
	file, err := parser.ParseFile(fset, path, nil, 0)
	if err != nil {
		return err
	}
	// struct fields
	fields := map[string]string{}
	var order []string
	for _, d := range file.Decls {
		gd, ok := d.(*ast.GenDecl)
		if !ok {
			continue
		}
		for _, sp := range gd.Specs {
			ts, ok := sp.(*ast.TypeSpec)
			if !ok || ts.Name.Name != "solutionImpl" {
				continue
			}
			st := ts.Type.(*ast.StructType)
			for _, f := range st.Fields.List {
				for _, n := range f.Names {
					fields[n.Name] = typeClass(f.Type)
					order = append(order, n.Name)
				}
			}
		}
	}
	fn := findFunc(file, "solutionImpl", "Copy")
	if fn == nil {
		return fmt.Errorf("solutionImpl.Copy not found")
	}
	// how locals are produced
	locals := map[string]string{}
	treat := map[string]string{}
	ast.Inspect(fn.Body, func(n ast.Node) bool {
		switch t := n.(type) {
		case *ast.AssignStmt:
			for i, l := range t.Lhs {
				var rhs ast.Expr
				if len(t.Rhs) == len(t.Lhs) {
					rhs = t.Rhs[i]
				} else if len(t.Rhs) == 1 {
					rhs = t.Rhs[0]
				}
				if id, ok := l.(*ast.Ident); ok && t.Tok == token.DEFINE && rhs != nil {
					if _, seen := locals[id.Name]; !seen {
						locals[id.Name] = rhsShape(rhs)
					}
				}
				// solution.field = ... / solution.field[k] = ...
				target := l
				indexed := false
				if ix, ok := l.(*ast.IndexExpr); ok {
					target = ix.X
					indexed = true
				}
				if sel, ok := target.(*ast.SelectorExpr); ok {
					if id, ok := sel.X.(*ast.Ident); ok && id.Name == "solution" && rhs != nil {
						sh := rhsShape(rhs)
						if indexed {
							sh = "elem:" + sh
						}
						if prev, ok := treat[sel.Sel.Name]; ok {
							treat[sel.Sel.Name] = prev + "+" + sh
						} else {
							treat[sel.Sel.Name] = sh
						}
					}
				}
			}
		case *ast.CompositeLit:
			if exprName(t.Type) == "solutionImpl" {
				for _, el := range t.Elts {
					kv := el.(*ast.KeyValueExpr)
					name := exprName(kv.Key)
					sh := rhsShape(kv.Value)
					if strings.HasPrefix(sh, "local:") {
						if p, ok := locals[strings.TrimPrefix(sh, "local:")]; ok {
							sh = p
						}
					}
					treat[name] = sh
				}
			}
		case *ast.ExprStmt:
			// solution.coll.add(copy...(x, solution))
			if call, ok := t.X.(*ast.CallExpr); ok {
				if sel, ok := call.Fun.(*ast.SelectorExpr); ok {
					if inner, ok := sel.X.(*ast.SelectorExpr); ok {
						if id, ok := inner.X.(*ast.Ident); ok && id.Name == "solution" {
							sh := "method:" + sel.Sel.Name
							if len(call.Args) > 0 {
								sh += "(" + rhsShape(call.Args[0]) + ")"
							}
							if prev, ok := treat[inner.Sel.Name]; ok {
								treat[inner.Sel.Name] = prev + "+" + sh
							} else {
								treat[inner.Sel.Name] = sh
							}
						}
					}
				}
			}
		}
		return true
	})
	var rows []string
	for _, f := range order {
		tr, ok := treat[f]
		if !ok {
			tr = "untouched"
		}
		rows = append(rows, "("+q(f)+", "+q(fields[f])+", "+q(tr)+")")
	}
	fmt.Fprintf(w, "Definition copy_table : list (string * string * string) :=\n  %s.\n\n", list(rows))
	return nil
}

func main() {
	if len(os.Args) < 3 {
		fmt.Fprintln(os.Stderr, "usage: translator <repo> <outdir>")
		os.Exit(2)
	}
	repo, outdir := os.Args[1], os.Args[2]
	fset := token.NewFileSet()
	type job struct{ file, ident, path, recv, name string }
	header := "(* GENERATED by /verif/translator from /repo's working tree. Do not edit. *)\nFrom Coq Require Import List String.\nFrom NR Require Import Model.Skeleton.\nImport ListNotations.\nOpen Scope string_scope.\n\n"
	jobs := []job{
		{"Skeleton_parallel.v", "parallel_solve", "solve_solver_parallel.go", "parallelSolverImpl", "Solve"},
		{"Skeleton_solver.v", "solver_solve", "solve_solver.go", "solveImpl", "Solve"},
		{"Skeleton_seqgen.v", "seqgen_channel", "solution_sequence_generator.go", "", "SequenceGeneratorChannel"},
		{"Skeleton_seqgen.v", "seqgen_rec", "solution_sequence_generator.go", "", "sequenceGenerator"},
		{"Skeleton_seqgen.v", "best_move_multi", "solution_vehicle.go", "SolutionVehicle", "bestMovePlanMultipleStops"},
		{"Skeleton_wrapper.v", "solver_parallel_wrapper", "solver_parallel.go", "parallelSolverWrapperImpl", "Solve"},
		{"Skeleton_copysync.v", "solution_copy", "solution.go", "solutionImpl", "Copy"},
	}
	files := map[string]*strings.Builder{}
	var names []string
	status := 0
	for _, j := range jobs {
		w, ok := files[j.file]
		if !ok {
			w = &strings.Builder{}
			w.WriteString(header)
			files[j.file] = w
			names = append(names, j.file)
		}
		if err := emitSkeleton(w, j.ident, fset, filepath.Join(repo, j.path), j.recv, j.name); err != nil {
			fmt.Fprintln(os.Stderr, "translator:", err)
			fmt.Fprintf(w, "(* MISSING %s : %v *)\n", j.ident, err)
			status = 1
		}
	}
	w := &strings.Builder{}
	w.WriteString(header)
	if err := emitCopyTable(w, fset, filepath.Join(repo, "solution.go")); err != nil {
		fmt.Fprintln(os.Stderr, "translator:", err)
		status = 1
	}
	files["Skeleton_copy.v"] = w
	names = append(names, "Skeleton_copy.v")
	wp := &strings.Builder{}
	wp.WriteString("(* GENERATED by /verif/translator from /repo's working tree. Do not edit. *)\nFrom Coq Require Import List String.\nFrom NR Require Import Model.Pool.\nImport ListNotations.\nOpen Scope string_scope.\n\n")
	if err := emitPools(wp, fset, repo); err != nil {
		fmt.Fprintln(os.Stderr, "translator:", err)
		status = 1
	}
	files["Skeleton_pool.v"] = wp
	names = append(names, "Skeleton_pool.v")
	wf := &strings.Builder{}
	wf.WriteString("(* GENERATED by /verif/translator from /repo's working tree. Do not edit. *)\nFrom Coq Require Import List String.\nImport ListNotations.\nOpen Scope string_scope.\n\n")
	if err := emitFactories(wf, fset, repo); err != nil {
		fmt.Fprintln(os.Stderr, "translator:", err)
		status = 1
	}
	files["Skeleton_factories.v"] = wf
	names = append(names, "Skeleton_factories.v")
	wm := &strings.Builder{}
	wm.WriteString("(* GENERATED by /verif/translator from /repo's working tree. Do not edit. *)\nFrom Coq Require Import List String.\nImport ListNotations.\nOpen Scope string_scope.\n\n")
	if err := emitModelWrites(wm, fset, repo); err != nil {
		fmt.Fprintln(os.Stderr, "translator:", err)
		status = 1
	}
	files["Skeleton_modelwrites.v"] = wm
	names = append(names, "Skeleton_modelwrites.v")
	wl := &strings.Builder{}
	wl.WriteString("(* GENERATED by /verif/translator from /repo's working tree. Do not edit. *)\nFrom Coq Require Import List String.\nImport ListNotations.\nOpen Scope string_scope.\n\n")
	if err := emitFieldLocks(wl, fset, repo); err != nil {
		fmt.Fprintln(os.Stderr, "translator:", err)
		status = 1
	}
	files["Skeleton_fieldlocks.v"] = wl
	names = append(names, "Skeleton_fieldlocks.v")
	for _, n := range names {
		if err := os.WriteFile(filepath.Join(outdir, n), []byte(files[n].String()), 0o644); err != nil {
			fmt.Fprintln(os.Stderr, err)
			status = 1
		}
	}
	os.Exit(status)
}
