// Field locksets (coq/Gen/Skeleton_fieldlocks.v).  For every struct type of the
// root package and of observers/ that owns at least one sync.Mutex / RWMutex
// field, every access of a non-mutex field of the receiver in a method of the
// type is listed with the receiver mutexes held at that point: (type, method,
// field, write?, locks).  "Held" is lexical: x.m.Lock() / RLock() earlier in
// the method body and no x.m.Unlock() / RUnlock() statement in between (a
// deferred unlock does not release).  A write is an assignment to x.f, x.f[k],
// x.f.g, x.f++, or delete(x.f, k).  Constructors are not methods and are not
// listed.  Model/Discipline.v field_conflicts evaluates the classical lockset
// condition on the list.
package main

import (
	"fmt"
	"go/ast"
	"go/parser"
	"go/token"
	"os"
	"path/filepath"
	"sort"
	"strings"
)

func isMutexType(e ast.Expr) bool {
	if s, ok := e.(*ast.SelectorExpr); ok {
		if id, ok := s.X.(*ast.Ident); ok && id.Name == "sync" && (s.Sel.Name == "Mutex" || s.Sel.Name == "RWMutex") {
			return true
		}
	}
	return false
}

func emitFieldLocks(w *strings.Builder, fset *token.FileSet, repo string) error {
	byDir := map[string][]string{}
	for _, dir := range []string{"", "observers"} {
		var rows []string
		entries, err := os.ReadDir(filepath.Join(repo, dir))
		if err != nil {
			return err
		}
		var files []*ast.File
		for _, e := range entries {
			n := e.Name()
			if e.IsDir() || !strings.HasSuffix(n, ".go") || strings.HasSuffix(n, "_test.go") || strings.HasPrefix(n, "verif_") {
				continue
			}
			f, err := parser.ParseFile(fset, filepath.Join(repo, dir, n), nil, 0)
			if err != nil {
				return err
			}
			if f.Name.Name == "main" {
				continue
			}
			files = append(files, f)
		}
		// struct types with mutex fields
		mutexes := map[string]map[string]bool{}
		for _, f := range files {
			for _, d := range f.Decls {
				gd, ok := d.(*ast.GenDecl)
				if !ok {
					continue
				}
				for _, sp := range gd.Specs {
					ts, ok := sp.(*ast.TypeSpec)
					if !ok {
						continue
					}
					st, ok := ts.Type.(*ast.StructType)
					if !ok {
						continue
					}
					for _, fl := range st.Fields.List {
						if isMutexType(fl.Type) {
							for _, nm := range fl.Names {
								if mutexes[ts.Name.Name] == nil {
									mutexes[ts.Name.Name] = map[string]bool{}
								}
								mutexes[ts.Name.Name][nm.Name] = true
							}
						}
					}
				}
			}
		}
		for _, f := range files {
			for _, d := range f.Decls {
				fn, ok := d.(*ast.FuncDecl)
				if !ok || fn.Body == nil {
					continue
				}
				recv, typ := recvTypeName(fn)
				mx := mutexes[typ]
				if recv == "" || mx == nil {
					continue
				}
				// lock events in source order
				type ev struct {
					pos  token.Pos
					name string
					lock bool
				}
				var evs []ev
				deferred := map[ast.Node]bool{}
				ast.Inspect(fn.Body, func(x ast.Node) bool {
					if ds, ok := x.(*ast.DeferStmt); ok {
						deferred[ds.Call] = true
					}
					return true
				})
				ast.Inspect(fn.Body, func(x ast.Node) bool {
					c, ok := x.(*ast.CallExpr)
					if !ok || deferred[c] {
						return true
					}
					s, ok := c.Fun.(*ast.SelectorExpr)
					if !ok {
						return true
					}
					inner, ok := s.X.(*ast.SelectorExpr)
					if !ok {
						return true
					}
					id, ok := inner.X.(*ast.Ident)
					if !ok || id.Name != recv || !mx[inner.Sel.Name] {
						return true
					}
					switch s.Sel.Name {
					case "Lock", "RLock":
						evs = append(evs, ev{c.Pos(), inner.Sel.Name, true})
					case "Unlock", "RUnlock":
						evs = append(evs, ev{c.Pos(), inner.Sel.Name, false})
					}
					return true
				})
				sort.Slice(evs, func(i, j int) bool { return evs[i].pos < evs[j].pos })
				held := func(p token.Pos) string {
					h := map[string]bool{}
					for _, e := range evs {
						if e.pos >= p {
							break
						}
						h[e.name] = e.lock
					}
					var l []string
					for k, v := range h {
						if v {
							l = append(l, q(k))
						}
					}
					sort.Strings(l)
					return "[" + strings.Join(l, "; ") + "]"
				}
				// written expressions
				writes := map[ast.Expr]bool{}
				ast.Inspect(fn.Body, func(x ast.Node) bool {
					switch t := x.(type) {
					case *ast.AssignStmt:
						if t.Tok != token.DEFINE {
							for _, l := range t.Lhs {
								writes[l] = true
							}
						}
					case *ast.IncDecStmt:
						writes[t.X] = true
					case *ast.CallExpr:
						if id, ok := t.Fun.(*ast.Ident); ok && id.Name == "delete" && len(t.Args) > 0 {
							writes[t.Args[0]] = true
						}
					}
					return true
				})
				writtenField := map[token.Pos]bool{}
				for e := range writes {
					if id, field := rootIdent(e); id != nil && id.Name == recv && field != "" {
						// the selector recv.field inside e
						ast.Inspect(e, func(x ast.Node) bool {
							if s, ok := x.(*ast.SelectorExpr); ok {
								if i2, ok := s.X.(*ast.Ident); ok && i2.Name == recv {
									writtenField[s.Pos()] = true
								}
							}
							return true
						})
					}
				}
				// method calls recv.m(...) are not field accesses; recv.f.g names the field path f.g
				callFun := map[ast.Expr]bool{}
				outer := map[token.Pos]string{}
				ast.Inspect(fn.Body, func(x ast.Node) bool {
					switch t := x.(type) {
					case *ast.CallExpr:
						callFun[t.Fun] = true
					case *ast.SelectorExpr:
						if in, ok := t.X.(*ast.SelectorExpr); ok && !callFun[t] {
							if i2, ok := in.X.(*ast.Ident); ok && i2.Name == recv {
								outer[in.Pos()] = t.Sel.Name
							}
						}
					}
					return true
				})
				seen := map[string]bool{}
				ast.Inspect(fn.Body, func(x ast.Node) bool {
					s, ok := x.(*ast.SelectorExpr)
					if !ok || callFun[s] {
						return true
					}
					id, ok := s.X.(*ast.Ident)
					if !ok || id.Name != recv || mx[s.Sel.Name] {
						return true
					}
					wr := "false"
					if writtenField[s.Pos()] {
						wr = "true"
					}
					name := s.Sel.Name
					if g, ok := outer[s.Pos()]; ok {
						name += "." + g
					}
					row := fmt.Sprintf("(%s, %s, %s, %s, %s)", q(typ), q(fn.Name.Name), q(name), wr, held(s.Pos()))
					if !seen[row] {
						seen[row] = true
						rows = append(rows, row)
					}
					return true
				})
			}
		}
		byDir[dir] = rows
	}
	for _, part := range []struct{ dir, name, what string }{
		{"", "field_accesses_root", "root package: solutions are confined to one goroutine, the model is built before it is shared - listed for the fields that some method guards"},
		{"observers", "field_accesses_observers", "observers/: objects registered on the model and called by every run"}} {
		rows := byDir[part.dir]
		sort.Strings(rows)
		fmt.Fprintf(w, "(* receiver type, method, field, write?, receiver mutexes held (lexically) - types that own a mutex; %s *)\nDefinition %s : list (string * string * string * bool * list string) :=\n  %s.\n\n", part.what, part.name, list(rows))
	}
	return nil
}
