// Writes to shared model-level objects from their read API
// (coq/Gen/Skeleton_modelwrites.v).  The model, its expressions, constraints
// and objectives are shared by every goroutine of the parallel solver once the
// model is locked.  For every method of the root package whose receiver is not
// a solution- or solver-level type and whose name is not a setter / builder /
// lock-time name, the translator lists the assignments to fields of the
// receiver (x.f = .., x.f[i] = .., x.f++, x.f op= ..) with the way they are
// guarded: "once" (inside a function literal passed to a .Do call), "lock"
// (the method calls .Lock() on something before the assignment), "none".
package main

import (
	"fmt"
	"go/ast"
	"go/parser"
	"go/token"
	"os"
	"path/filepath"
	"sort"
	"strings"
)

func recvTypeName(fn *ast.FuncDecl) (string, string) {
	if fn.Recv == nil || len(fn.Recv.List) == 0 {
		return "", ""
	}
	f := fn.Recv.List[0]
	name := ""
	if len(f.Names) > 0 {
		name = f.Names[0].Name
	}
	t := f.Type
	if s, ok := t.(*ast.StarExpr); ok {
		t = s.X
	}
	if ix, ok := t.(*ast.IndexExpr); ok {
		t = ix.X
	}
	if id, ok := t.(*ast.Ident); ok {
		return name, id.Name
	}
	return name, ""
}

func solutionLevel(typ string) bool {
	l := strings.ToLower(typ)
	for _, p := range []string{"solution", "solve", "parallelsolve", "sequence", "stopposition", "preallocated", "performanceobserver", "intermediate"} {
		if strings.HasPrefix(l, p) {
			return true
		}
	}
	return false
}

func builderName(m string) bool {
	for _, p := range []string{"Set", "set", "Add", "add", "New", "new", "Lock", "lock", "Disallow", "Remove", "remove", "Register", "register", "init", "Init"} {
		if strings.HasPrefix(m, p) {
			return true
		}
	}
	return false
}

// root identifier of a selector / index chain
func rootIdent(e ast.Expr) (*ast.Ident, string) {
	field := ""
	for {
		switch t := e.(type) {
		case *ast.SelectorExpr:
			field = t.Sel.Name
			e = t.X
		case *ast.IndexExpr:
			e = t.X
		case *ast.StarExpr:
			e = t.X
		case *ast.ParenExpr:
			e = t.X
		case *ast.Ident:
			return t, field
		default:
			return nil, ""
		}
	}
}

func emitModelWrites(w *strings.Builder, fset *token.FileSet, repo string) error {
	entries, err := os.ReadDir(repo)
	if err != nil {
		return err
	}
	var rows []string
	for _, e := range entries {
		n := e.Name()
		if e.IsDir() || !strings.HasSuffix(n, ".go") || strings.HasSuffix(n, "_test.go") || strings.HasPrefix(n, "verif_") {
			continue
		}
		file, err := parser.ParseFile(fset, filepath.Join(repo, n), nil, 0)
		if err != nil {
			return err
		}
		if file.Name.Name != "nextroute" {
			continue
		}
		for _, d := range file.Decls {
			fn, ok := d.(*ast.FuncDecl)
			if !ok || fn.Body == nil {
				continue
			}
			recv, typ := recvTypeName(fn)
			if recv == "" || typ == "" || solutionLevel(typ) || builderName(fn.Name.Name) {
				continue
			}
			// positions of function literals passed to a .Do( call, and of the first .Lock() call
			var onceLits [][2]token.Pos
			lockAt := token.NoPos
			ast.Inspect(fn.Body, func(x ast.Node) bool {
				if c, ok := x.(*ast.CallExpr); ok {
					if s, ok := c.Fun.(*ast.SelectorExpr); ok {
						if s.Sel.Name == "Do" {
							for _, a := range c.Args {
								if fl, ok := a.(*ast.FuncLit); ok {
									onceLits = append(onceLits, [2]token.Pos{fl.Pos(), fl.End()})
								}
							}
						}
						if (s.Sel.Name == "Lock" || s.Sel.Name == "RLock") && len(c.Args) == 0 && (lockAt == token.NoPos || c.Pos() < lockAt) {
							lockAt = c.Pos()
						}
					}
				}
				return true
			})
			guard := func(p token.Pos) string {
				for _, r := range onceLits {
					if p >= r[0] && p < r[1] {
						return "once"
					}
				}
				if lockAt != token.NoPos && p > lockAt {
					return "lock"
				}
				return "none"
			}
			seen := map[string]bool{}
			note := func(lhs ast.Expr, p token.Pos) {
				id, field := rootIdent(lhs)
				if id == nil || id.Name != recv || field == "" {
					return
				}
				row := fmt.Sprintf("(%s, %s, %s, %s)", q(typ), q(fn.Name.Name), q(field), q(guard(p)))
				if !seen[row] {
					seen[row] = true
					rows = append(rows, row)
				}
			}
			ast.Inspect(fn.Body, func(x ast.Node) bool {
				switch t := x.(type) {
				case *ast.AssignStmt:
					if t.Tok != token.DEFINE {
						for _, l := range t.Lhs {
							note(l, t.Pos())
						}
					}
				case *ast.IncDecStmt:
					note(t.X, t.Pos())
				}
				return true
			})
		}
	}
	// second sweep: every read of such a field (guard "once" excluded) in any method of the type
	written := map[string]bool{}
	for _, r := range rows {
		var typ, meth, field, g string
		parts := strings.Split(strings.Trim(r, "()"), ", ")
		if len(parts) == 4 {
			typ, meth, field, g = strings.Trim(parts[0], "\""), strings.Trim(parts[1], "\""), strings.Trim(parts[2], "\""), strings.Trim(parts[3], "\"")
			_ = meth
			if g != "once" {
				written[typ+"."+field] = true
			}
		}
	}
	var reads []string
	for _, e := range entries {
		n := e.Name()
		if e.IsDir() || !strings.HasSuffix(n, ".go") || strings.HasSuffix(n, "_test.go") || strings.HasPrefix(n, "verif_") {
			continue
		}
		file, err := parser.ParseFile(fset, filepath.Join(repo, n), nil, 0)
		if err != nil || file.Name.Name != "nextroute" {
			continue
		}
		for _, d := range file.Decls {
			fn, ok := d.(*ast.FuncDecl)
			if !ok || fn.Body == nil {
				continue
			}
			recv, typ := recvTypeName(fn)
			if recv == "" || typ == "" {
				continue
			}
			lockAt := token.NoPos
			ast.Inspect(fn.Body, func(x ast.Node) bool {
				if c, ok := x.(*ast.CallExpr); ok {
					if sel, ok := c.Fun.(*ast.SelectorExpr); ok && (sel.Sel.Name == "Lock" || sel.Sel.Name == "RLock") && len(c.Args) == 0 {
						if lockAt == token.NoPos || c.Pos() < lockAt {
							lockAt = c.Pos()
						}
					}
				}
				return true
			})
			// left-hand sides of assignments are writes, not reads
			lhs := map[ast.Expr]bool{}
			ast.Inspect(fn.Body, func(x ast.Node) bool {
				if a, ok := x.(*ast.AssignStmt); ok {
					for _, l := range a.Lhs {
						lhs[l] = true
					}
				}
				return true
			})
			seen := map[string]bool{}
			ast.Inspect(fn.Body, func(x ast.Node) bool {
				sel, ok := x.(*ast.SelectorExpr)
				if !ok || lhs[sel] {
					return true
				}
				id, ok := sel.X.(*ast.Ident)
				if !ok || id.Name != recv || !written[typ+"."+sel.Sel.Name] {
					return true
				}
				g := "none"
				if lockAt != token.NoPos && sel.Pos() > lockAt {
					g = "lock"
				}
				row := fmt.Sprintf("(%s, %s, %s, %s)", q(typ), q(fn.Name.Name), q(sel.Sel.Name), q(g))
				if !seen[row] {
					seen[row] = true
					reads = append(reads, row)
				}
				return true
			})
		}
	}
	// third sweep: who draws from the MODEL's random source (shared by every solution of the model)
	var randomUses []string
	for _, e := range entries {
		n := e.Name()
		if e.IsDir() || !strings.HasSuffix(n, ".go") || strings.HasSuffix(n, "_test.go") || strings.HasPrefix(n, "verif_") {
			continue
		}
		file, err := parser.ParseFile(fset, filepath.Join(repo, n), nil, 0)
		if err != nil || file.Name.Name != "nextroute" {
			continue
		}
		for _, d := range file.Decls {
			fn, ok := d.(*ast.FuncDecl)
			if !ok || fn.Body == nil {
				continue
			}
			_, typ := recvTypeName(fn)
			seen := false
			ast.Inspect(fn.Body, func(x ast.Node) bool {
				c, ok := x.(*ast.CallExpr)
				if !ok || seen {
					return true
				}
				sel, ok := c.Fun.(*ast.SelectorExpr)
				if !ok || sel.Sel.Name != "Random" || len(c.Args) != 0 {
					return true
				}
				recvText := strings.ToLower(exprName(sel.X))
				if strings.HasSuffix(recvText, "model") || strings.HasSuffix(recvText, "model()") || recvText == "m" {
					randomUses = append(randomUses, fmt.Sprintf("(%s, %s)", q(typ), q(fn.Name.Name)))
					seen = true
				}
				return true
			})
		}
	}
	sort.Strings(randomUses)
	defer func() {
		fmt.Fprintf(w, "(* receiver type, function: call sites of Random() on the MODEL - one source shared by all solutions of the model *)\nDefinition model_random_uses : list (string * string) :=\n  %s.\n\n", list(randomUses))
	}()
	sort.Strings(reads)
	defer func() {
		fmt.Fprintf(w, "(* receiver type, method, field read, guard - every read of a field that a method outside the builder families writes *)\nDefinition model_field_reads : list (string * string * string * string) :=\n  %s.\n\n", list(reads))
	}()
	sort.Strings(rows)
	fmt.Fprintf(w, "(* receiver type, method, field written, guard (once / lock / none) - methods of model-level types outside the\n   setter / builder / lock-time name families *)\nDefinition model_read_writes : list (string * string * string * string) :=\n  %s.\n\n", list(rows))
	return nil
}
