// Factory closures (coq/Gen/Skeleton_factories.v): the parallel solver calls its
// solver factory and its options factory once per run, concurrently.  Whatever
// the returned closure captures from the enclosing function is shared between
// all runs.  For every listed factory function the translator emits the names
// of the enclosing function's local variables (and parameters) that the
// returned function literal uses, and which of them it assigns.
package main

import (
	"fmt"
	"go/ast"
	"go/parser"
	"go/token"
	"path/filepath"
	"sort"
	"strings"
)

func emitFactories(w *strings.Builder, fset *token.FileSet, repo string) error {
	jobs := []struct{ file, name string }{
		{"solver.go", "DefaultSolverFactory"},
		{"solver_parallel.go", "DefaultSolveOptionsFactory"},
	}
	var rows []string
	for _, j := range jobs {
		file, err := parser.ParseFile(fset, filepath.Join(repo, j.file), nil, 0)
		if err != nil {
			return err
		}
		fn := findFunc(file, "", j.name)
		if fn == nil {
			return fmt.Errorf("%s not found in %s", j.name, j.file)
		}
		// the function literals returned by the factory function
		var lits []*ast.FuncLit
		ast.Inspect(fn.Body, func(n ast.Node) bool {
			if r, ok := n.(*ast.ReturnStmt); ok {
				for _, e := range r.Results {
					if fl, ok := e.(*ast.FuncLit); ok {
						lits = append(lits, fl)
					}
				}
			}
			return true
		})
		used, assigned := map[string]bool{}, map[string]bool{}
		for _, fl := range lits {
			outer := func(id *ast.Ident) bool {
				if id.Obj == nil || id.Obj.Kind != ast.Var {
					return false
				}
				p := id.Obj.Pos()
				return p >= fn.Pos() && p < fn.End() && !(p >= fl.Pos() && p < fl.End())
			}
			ast.Inspect(fl.Body, func(n ast.Node) bool {
				switch t := n.(type) {
				case *ast.Ident:
					if outer(t) {
						used[t.Name] = true
					}
				case *ast.AssignStmt:
					for _, l := range t.Lhs {
						if id, ok := l.(*ast.Ident); ok && outer(id) {
							assigned[id.Name] = true
						}
					}
				case *ast.IncDecStmt:
					if id, ok := t.X.(*ast.Ident); ok && outer(id) {
						assigned[id.Name] = true
					}
				}
				return true
			})
		}
		keys := func(m map[string]bool) []string {
			var l []string
			for k := range m {
				l = append(l, q(k))
			}
			sort.Strings(l)
			return l
		}
		rows = append(rows, fmt.Sprintf("(%s, %d, %s, %s)", q(j.name), len(lits), list(keys(used)), list(keys(assigned))))
	}
	fmt.Fprintf(w, "(* factory function, returned function literals, captured variables used, captured variables assigned *)\nDefinition factory_captures : list (string * nat * list string * list string) :=\n  %s.\n\n", list(rows))
	return nil
}
