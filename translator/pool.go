// Pool borrow programs (coq/Gen/Skeleton_pool.v): every function of the root
// package that borrows a buffer from a sync.Pool is turned into a program over
// the events Get / Put / Use of that buffer (Model/Pool.v pstm), path structure
// kept (if, loops, return, break, continue, defer).
//
// What is recognised:
//   - pools: package-level `var X = sync.Pool{...}`;
//   - release helpers: functions / methods whose body does X.Put(p) with p a
//     parameter or the receiver (returnToMoveContainerPool, release);
//   - acquire helpers: functions that return a value obtained from X.Get()
//     (newSolutionStopGenerator);
//   - borrowers: functions with `v := X.Get()...` or `v := acquireHelper(...)`;
//   - aliases of the borrowed variable: a := *v, a := v, a := v[i:j],
//     a = append(a, ...) (the slice shares the pooled backing array).
//
// Events of one simple statement are ordered: uses, then Get, then Put.  A
// mention of the buffer inside a function literal that is not deferred counts
// as a use where the literal appears.  Deferred calls run at every return and
// at the end of the body.  Unsupported in a borrower (reported as an error, the
// obligation then fails): goto, labelled break/continue, break inside
// switch/select.
package main

import (
	"fmt"
	"go/ast"
	"go/parser"
	"go/token"
	"os"
	"path/filepath"
	"sort"
	"strings"
)

type poolInfo struct {
	pools    map[string]bool
	relFunc  map[string]int  // plain function name -> index of the released parameter
	relMeth  map[string]bool // method name -> releases its receiver
	acquirer map[string]bool // function name -> returns a borrowed buffer
}

type poolTr struct {
	info     *poolInfo
	alias    map[string]bool
	deferred []string
	errs     []string
	inSwitch int
}

func isPoolCall(info *poolInfo, e ast.Expr, method string) (string, *ast.CallExpr, bool) {
	// strips type assertions / parens
	for {
		switch t := e.(type) {
		case *ast.TypeAssertExpr:
			e = t.X
			continue
		case *ast.ParenExpr:
			e = t.X
			continue
		}
		break
	}
	call, ok := e.(*ast.CallExpr)
	if !ok {
		return "", nil, false
	}
	sel, ok := call.Fun.(*ast.SelectorExpr)
	if !ok || sel.Sel.Name != method {
		return "", nil, false
	}
	id, ok := sel.X.(*ast.Ident)
	if !ok || !info.pools[id.Name] {
		return "", nil, false
	}
	return id.Name, call, true
}

func isAcquireCall(info *poolInfo, e ast.Expr) bool {
	if _, _, ok := isPoolCall(info, e, "Get"); ok {
		return true
	}
	if call, ok := e.(*ast.CallExpr); ok {
		if id, ok := call.Fun.(*ast.Ident); ok && info.acquirer[id.Name] {
			return true
		}
	}
	return false
}

// mentions: does the node mention an alias (outside of the given skipped sub-nodes)?
func (p *poolTr) mentions(n ast.Node, skip map[ast.Node]bool) bool {
	found := false
	ast.Inspect(n, func(x ast.Node) bool {
		if x == nil || found {
			return false
		}
		if skip[x] {
			return false
		}
		if id, ok := x.(*ast.Ident); ok && p.alias[id.Name] {
			found = true
		}
		return true
	})
	return found
}

// releaseCalls: the calls inside n that put an alias back
func (p *poolTr) releaseCalls(n ast.Node) []ast.Node {
	var out []ast.Node
	ast.Inspect(n, func(x ast.Node) bool {
		call, ok := x.(*ast.CallExpr)
		if !ok {
			return true
		}
		if _, c, ok := isPoolCall(p.info, call, "Put"); ok && len(c.Args) == 1 {
			if id, ok := c.Args[0].(*ast.Ident); ok && p.alias[id.Name] {
				out = append(out, call)
				return false
			}
		}
		if id, ok := call.Fun.(*ast.Ident); ok {
			if k, ok := p.info.relFunc[id.Name]; ok && k < len(call.Args) {
				if a, ok := call.Args[k].(*ast.Ident); ok && p.alias[a.Name] {
					out = append(out, call)
					return false
				}
			}
		}
		if sel, ok := call.Fun.(*ast.SelectorExpr); ok && p.info.relMeth[sel.Sel.Name] {
			if a, ok := sel.X.(*ast.Ident); ok && p.alias[a.Name] {
				out = append(out, call)
				return false
			}
		}
		return true
	})
	return out
}

// simple: events of a statement / expression without control flow
func (p *poolTr) simple(n ast.Node, target string) []string {
	if n == nil {
		return nil
	}
	var ev []string
	skip := map[ast.Node]bool{}
	rel := p.releaseCalls(n)
	for _, r := range rel {
		skip[r] = true
	}
	get := false
	if as, ok := n.(*ast.AssignStmt); ok && len(as.Lhs) >= 1 && len(as.Rhs) == 1 {
		if id, ok := as.Lhs[0].(*ast.Ident); ok && id.Name == target && isAcquireCall(p.info, as.Rhs[0]) {
			get = true
			skip[as.Lhs[0]] = true
		}
	}
	if p.mentions(n, skip) {
		ev = append(ev, "PE PUse")
	}
	if get {
		ev = append(ev, "PE PGet")
	}
	for range rel {
		ev = append(ev, "PE PPut")
	}
	return ev
}

func plist(items []string) string { return "[" + strings.Join(items, "; ") + "]" }

func (p *poolTr) stmts(l []ast.Stmt, target string) []string {
	var out []string
	for _, s := range l {
		out = append(out, p.stmt(s, target)...)
	}
	return out
}

func (p *poolTr) stmt(s ast.Stmt, target string) []string {
	switch t := s.(type) {
	case nil:
		return nil
	case *ast.BlockStmt:
		return p.stmts(t.List, target)
	case *ast.IfStmt:
		out := p.simple(t.Init, target)
		out = append(out, p.simple(t.Cond, target)...)
		var els []string
		if t.Else != nil {
			els = p.stmt(t.Else, target)
		}
		return append(out, "PIf "+plist(p.stmts(t.Body.List, target))+" "+plist(els))
	case *ast.ForStmt:
		out := p.simple(t.Init, target)
		cond := p.simple(t.Cond, target)
		out = append(out, cond...)
		body := p.stmts(t.Body.List, target)
		body = append(body, p.simple(t.Post, target)...)
		body = append(body, cond...)
		return append(out, "PLoop "+plist(body))
	case *ast.RangeStmt:
		head := p.simple(t.X, target)
		body := append(append([]string{}, head...), p.stmts(t.Body.List, target)...)
		return append(head, "PLoop "+plist(body))
	case *ast.ReturnStmt:
		var out []string
		for _, r := range t.Results {
			out = append(out, p.simple(r, target)...)
		}
		out = append(out, p.deferred...)
		return append(out, "PReturn")
	case *ast.BranchStmt:
		if t.Label != nil || t.Tok == token.GOTO || t.Tok == token.FALLTHROUGH {
			p.errs = append(p.errs, "unsupported branch "+t.Tok.String()+" with label/goto")
			return nil
		}
		if t.Tok == token.BREAK {
			if p.inSwitch > 0 {
				p.errs = append(p.errs, "unsupported: break inside switch/select")
				return nil
			}
			return []string{"PBreak"}
		}
		return []string{"PContinue"}
	case *ast.DeferStmt:
		// the deferred call's events, run at every exit
		var ev []string
		if fl, ok := t.Call.Fun.(*ast.FuncLit); ok {
			for _, st := range fl.Body.List {
				ev = append(ev, p.simple(st, target)...)
			}
		} else {
			ev = p.simple(t.Call, target)
		}
		p.deferred = append(ev, p.deferred...)
		return nil
	case *ast.SwitchStmt, *ast.TypeSwitchStmt, *ast.SelectStmt:
		var out []string
		var clauses []ast.Stmt
		switch sw := t.(type) {
		case *ast.SwitchStmt:
			out = append(out, p.simple(sw.Init, target)...)
			out = append(out, p.simple(sw.Tag, target)...)
			clauses = sw.Body.List
		case *ast.TypeSwitchStmt:
			out = append(out, p.simple(sw.Init, target)...)
			out = append(out, p.simple(sw.Assign, target)...)
			clauses = sw.Body.List
		case *ast.SelectStmt:
			clauses = sw.Body.List
		}
		p.inSwitch++
		nested := "[]"
		for i := len(clauses) - 1; i >= 0; i-- {
			var body []string
			switch cc := clauses[i].(type) {
			case *ast.CaseClause:
				for _, e := range cc.List {
					body = append(body, p.simple(e, target)...)
				}
				body = append(body, p.stmts(cc.Body, target)...)
			case *ast.CommClause:
				body = append(body, p.simple(cc.Comm, target)...)
				body = append(body, p.stmts(cc.Body, target)...)
			}
			nested = "[PIf " + plist(body) + " " + nested + "]"
		}
		p.inSwitch--
		if len(clauses) > 0 {
			out = append(out, strings.TrimSuffix(strings.TrimPrefix(nested, "["), "]"))
		}
		return out
	case *ast.LabeledStmt:
		return p.stmt(t.Stmt, target)
	case *ast.GoStmt:
		return p.simple(t.Call, target)
	default:
		return p.simple(s, target)
	}
}

// aliasesOf: the borrowed variable and the names that share its memory
func aliasesOf(body *ast.BlockStmt, target string) map[string]bool {
	al := map[string]bool{target: true}
	derived := func(e ast.Expr) bool {
		for {
			switch t := e.(type) {
			case *ast.StarExpr:
				e = t.X
				continue
			case *ast.ParenExpr:
				e = t.X
				continue
			case *ast.SliceExpr:
				e = t.X
				continue
			case *ast.UnaryExpr:
				e = t.X
				continue
			case *ast.CallExpr:
				if id, ok := t.Fun.(*ast.Ident); ok && id.Name == "append" && len(t.Args) > 0 {
					e = t.Args[0]
					continue
				}
				return false
			case *ast.Ident:
				return al[t.Name]
			}
			return false
		}
	}
	for changed := true; changed; {
		changed = false
		ast.Inspect(body, func(n ast.Node) bool {
			as, ok := n.(*ast.AssignStmt)
			if !ok || len(as.Lhs) != len(as.Rhs) {
				return true
			}
			for i, l := range as.Lhs {
				if id, ok := l.(*ast.Ident); ok && !al[id.Name] && id.Name != "_" && derived(as.Rhs[i]) {
					al[id.Name] = true
					changed = true
				}
			}
			return true
		})
	}
	return al
}

func emitPools(w *strings.Builder, fset *token.FileSet, repo string) error {
	entries, err := os.ReadDir(repo)
	if err != nil {
		return err
	}
	var files []*ast.File
	for _, e := range entries {
		n := e.Name()
		if e.IsDir() || !strings.HasSuffix(n, ".go") || strings.HasSuffix(n, "_test.go") || n == "verif_export.go" {
			continue
		}
		f, err := parser.ParseFile(fset, filepath.Join(repo, n), nil, 0)
		if err != nil {
			return err
		}
		files = append(files, f)
	}
	info := &poolInfo{pools: map[string]bool{}, relFunc: map[string]int{}, relMeth: map[string]bool{}, acquirer: map[string]bool{}}
	for _, f := range files {
		for _, d := range f.Decls {
			gd, ok := d.(*ast.GenDecl)
			if !ok || gd.Tok != token.VAR {
				continue
			}
			for _, sp := range gd.Specs {
				vs := sp.(*ast.ValueSpec)
				for i, v := range vs.Values {
					if cl, ok := v.(*ast.CompositeLit); ok && exprName(cl.Type) == "sync.Pool" && i < len(vs.Names) {
						info.pools[vs.Names[i].Name] = true
					}
				}
				if vs.Type != nil && exprName(vs.Type) == "sync.Pool" {
					for _, n := range vs.Names {
						info.pools[n.Name] = true
					}
				}
			}
		}
	}
	var funcs []*ast.FuncDecl
	for _, f := range files {
		for _, d := range f.Decls {
			if fd, ok := d.(*ast.FuncDecl); ok && fd.Body != nil {
				funcs = append(funcs, fd)
			}
		}
	}
	// helpers
	for _, fd := range funcs {
		params := map[string]int{}
		k := 0
		for _, fl := range fd.Type.Params.List {
			for _, n := range fl.Names {
				params[n.Name] = k
				k++
			}
			if len(fl.Names) == 0 {
				k++
			}
		}
		recv := ""
		if fd.Recv != nil && len(fd.Recv.List) == 1 && len(fd.Recv.List[0].Names) == 1 {
			recv = fd.Recv.List[0].Names[0].Name
		}
		got := map[string]bool{}
		ast.Inspect(fd.Body, func(n ast.Node) bool {
			switch t := n.(type) {
			case *ast.CallExpr:
				if _, c, ok := isPoolCall(info, t, "Put"); ok && len(c.Args) == 1 {
					if id, ok := c.Args[0].(*ast.Ident); ok {
						if i, ok := params[id.Name]; ok && fd.Recv == nil {
							info.relFunc[fd.Name.Name] = i
						} else if recv != "" && id.Name == recv {
							info.relMeth[fd.Name.Name] = true
						}
					}
				}
			case *ast.AssignStmt:
				if len(t.Rhs) == 1 && len(t.Lhs) >= 1 {
					if _, _, ok := isPoolCall(info, t.Rhs[0], "Get"); ok {
						if id, ok := t.Lhs[0].(*ast.Ident); ok {
							got[id.Name] = true
						}
					}
				}
			case *ast.ReturnStmt:
				for _, r := range t.Results {
					if id, ok := r.(*ast.Ident); ok && got[id.Name] {
						info.acquirer[fd.Name.Name] = true
					}
				}
			}
			return true
		})
	}
	// borrowers
	type prog struct{ name, body string }
	var borrowers, acquirers []prog
	var errs []string
	for _, fd := range funcs {
		targets := map[string]bool{}
		var order []string
		ast.Inspect(fd.Body, func(n ast.Node) bool {
			if as, ok := n.(*ast.AssignStmt); ok && len(as.Rhs) == 1 && len(as.Lhs) >= 1 && isAcquireCall(info, as.Rhs[0]) {
				if id, ok := as.Lhs[0].(*ast.Ident); ok && !targets[id.Name] {
					targets[id.Name] = true
					order = append(order, id.Name)
				}
			}
			return true
		})
		for _, tg := range order {
			p := &poolTr{info: info, alias: aliasesOf(fd.Body, tg)}
			body := p.stmts(fd.Body.List, tg)
			body = append(body, p.deferred...)
			name := fd.Name.Name + "/" + tg
			if fd.Recv != nil && len(fd.Recv.List) == 1 {
				name = exprName(fd.Recv.List[0].Type) + "." + name
			}
			for _, e := range p.errs {
				errs = append(errs, name+": "+e)
			}
			if info.acquirer[fd.Name.Name] {
				acquirers = append(acquirers, prog{name, plist(body)})
			} else {
				borrowers = append(borrowers, prog{name, plist(body)})
			}
		}
	}
	sort.Slice(borrowers, func(i, j int) bool { return borrowers[i].name < borrowers[j].name })
	sort.Slice(acquirers, func(i, j int) bool { return acquirers[i].name < acquirers[j].name })
	keys := func(m map[string]bool) []string {
		var l []string
		for k := range m {
			l = append(l, q(k))
		}
		sort.Strings(l)
		return l
	}
	var rel []string
	for k := range info.relFunc {
		rel = append(rel, q(k))
	}
	for k := range info.relMeth {
		rel = append(rel, q("."+k))
	}
	sort.Strings(rel)
	fmt.Fprintf(w, "Definition pool_vars : list string :=\n  %s.\n\n", list(keys(info.pools)))
	fmt.Fprintf(w, "Definition pool_release_helpers : list string :=\n  %s.\n\n", list(rel))
	fmt.Fprintf(w, "Definition pool_acquire_helpers : list string :=\n  %s.\n\n", list(keys(info.acquirer)))
	emit := func(ident string, ps []prog) {
		var names, rows []string
		for _, p := range ps {
			names = append(names, q(p.name))
			rows = append(rows, "("+q(p.name)+", "+p.body+")")
		}
		fmt.Fprintf(w, "Definition %s_names : list string :=\n  %s.\n\n", ident, list(names))
		fmt.Fprintf(w, "Definition %s : list (string * list pstm) :=\n  %s.\n\n", ident, list(rows))
	}
	emit("pool_borrowers", borrowers)
	emit("pool_acquirers", acquirers)
	var qe []string
	for _, e := range errs {
		qe = append(qe, q(e))
	}
	fmt.Fprintf(w, "Definition pool_unsupported : list string :=\n  %s.\n\n", list(qe))
	return nil
}
