module verif/harness

go 1.21

require (
	github.com/nextmv-io/nextroute v0.0.0
	github.com/nextmv-io/sdk v1.8.0
)

require (
	github.com/danielgtaylor/huma v1.14.1 // indirect
	github.com/google/uuid v1.3.0 // indirect
	github.com/gorilla/schema v1.4.1 // indirect
	github.com/iancoleman/strcase v0.2.0 // indirect
	github.com/itzg/go-flagsfiller v1.9.1 // indirect
	github.com/xeipuuv/gojsonpointer v0.0.0-20190905194746-02993c407bfb // indirect
	github.com/xeipuuv/gojsonreference v0.0.0-20180127040603-bd5ef7bd5415 // indirect
	github.com/xeipuuv/gojsonschema v1.2.0 // indirect
	golang.org/x/exp v0.0.0-20240205201215-2c58cdc269a3 // indirect
	gonum.org/v1/gonum v0.14.0 // indirect
)

replace github.com/nextmv-io/nextroute => /repo
