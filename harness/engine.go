package main

import (
	"context"
	"encoding/json"
	"fmt"
	"math"
	"math/big"
	"math/rand"
	"os"
	"runtime/debug"
	"sort"
	"strconv"
	"strings"
	"time"

	"github.com/nextmv-io/nextroute"
	"github.com/nextmv-io/nextroute/check"
	"github.com/nextmv-io/nextroute/factory"
	"github.com/nextmv-io/nextroute/schema"
)

// num prints a float64 as an integer when it is one, else as an exact rational.
func num(f float64) string {
	if f == math.Trunc(f) && math.Abs(f) < 1e18 {
		return strconv.FormatInt(int64(f), 10)
	}
	r := new(big.Rat)
	if r.SetFloat64(f) == nil {
		return fmt.Sprintf("nonfinite(%v)", f)
	}
	return r.Num().String() + "/" + r.Denom().String()
}

func dashIfEmpty(s string) string {
	if s == "" {
		return "-"
	}
	return s
}

var userDefs [][]string

type engineCtx struct {
	id        string
	model     nextroute.Model
	nInput    int // number of input stops
	resExprs  []nextroute.ModelExpression
	distExpr  nextroute.ModelExpression
	waitVeh   nextroute.ModelConstraint
	solutions []nextroute.Solution
	cur       int
	orders    map[int][][]int
	direct    map[[2]int]bool
}

// planGroup plans a top-level units unit (stop group): every member on vehicle v at
// places drawn from the R numbers, member moves built on the current state without
// estimates, combined into a units move (verif hook) and executed.
func (c *engineCtx) planGroup(id string, step int, sol nextroute.Solution, group nextroute.SolutionPlanUnitsUnit, fs []string) {
	atoi := func(s string) int { i, _ := strconv.Atoi(s); return i }
	fmt.Fprintf(out, "%s %d target %d\n", id, step, unitKey(group.ModelPlanUnit()))
	vehicles := sol.Vehicles()
	v := atoi(fs[1]) % len(vehicles)
	route := vehicles[v].SolutionStops()
	L := len(route)
	var moves nextroute.SolutionMoves
	off := 3
	for _, mu := range group.SolutionPlanUnits() {
		if mu.IsPlanned() {
			// a half planned group (a member still on a route): no units move can be built
			fmt.Fprintf(out, "%s %d result noop\n", id, step)
			return
		}
	}
	for _, mu := range group.SolutionPlanUnits() {
		member, ok := mu.(nextroute.SolutionPlanStopsUnit)
		if !ok {
			fmt.Fprintf(out, "%s %d result noop\n", id, step)
			return
		}
		orders := c.orders[unitKey(member.ModelPlanUnit())]
		if len(orders) == 0 {
			fmt.Fprintf(out, "%s %d result noop\n", id, step)
			return
		}
		order := orders[atoi(fs[2])%len(orders)]
		gaps := make([]int, len(order))
		for i := range order {
			gaps[i] = 1 + atoi(fs[off+i])%(L-1)
		}
		off += len(order)
		sort.Ints(gaps)
		for i := 0; i+1 < len(order); i++ {
			if c.direct[[2]int{order[i], order[i+1]}] {
				gaps[i+1] = gaps[i]
			}
		}
		for _, g := range gaps {
			if c.direct[[2]int{route[g-1].ModelStop().Index(), route[g].ModelStop().Index()}] {
				fmt.Fprintf(out, "%s %d result noop\n", id, step)
				return
			}
		}
		args := make([]string, 0, 2*len(order))
		for i, s := range order {
			args = append(args, strconv.Itoa(s), strconv.Itoa(gaps[i]))
		}
		unit, sp, err := c.buildPositions(sol, v, args)
		if err != nil {
			fmt.Fprintf(out, "%s %d result badop\n", id, step)
			return
		}
		mv, err := nextroute.VerifNewMoveStopsUnchecked(unit, sp)
		if err != nil {
			fmt.Fprintf(out, "%s %d result moveerror\n", id, step)
			return
		}
		moves = append(moves, mv)
	}
	ok, err := nextroute.VerifNewMoveUnits(group, moves).Execute(context.Background())
	switch {
	case err != nil:
		fmt.Fprintf(out, "%s %d result error\n", id, step)
	case ok:
		fmt.Fprintf(out, "%s %d result done\n", id, step)
	default:
		fmt.Fprintf(out, "%s %d result notdone\n", id, step)
	}
}

// top-level unit with the given key in a collection
func findTop(coll nextroute.ImmutableSolutionPlanUnitCollection, key int) nextroute.SolutionPlanUnit {
	for _, u := range coll.SolutionPlanUnits() {
		if unitKey(u.ModelPlanUnit()) == key {
			return u
		}
	}
	return nil
}

// resolve a relative plan op: RU RV RO R1..Rk -> vehicle, "s g s g ..." args
func (c *engineCtx) resolvePlan(sol nextroute.Solution, fs []string) (int, []string, bool) {
	atoi := func(s string) int { i, _ := strconv.Atoi(s); return i }
	var keys []int
	for _, u := range sol.UnPlannedPlanUnits().SolutionPlanUnits() {
		keys = append(keys, unitKey(u.ModelPlanUnit()))
	}
	sort.Ints(keys)
	if len(keys) == 0 {
		return 0, nil, false
	}
	key := keys[atoi(fs[0])%len(keys)]
	orders := c.orders[key]
	if len(orders) == 0 {
		return 0, nil, false
	}
	order := orders[atoi(fs[2])%len(orders)]
	vehicles := sol.Vehicles()
	v := atoi(fs[1]) % len(vehicles)
	L := len(vehicles[v].SolutionStops())
	gaps := make([]int, len(order))
	for i := range order {
		gaps[i] = 1 + atoi(fs[3+i])%(L-1)
	}
	sort.Ints(gaps)
	for i := 0; i+1 < len(order); i++ {
		if c.direct[[2]int{order[i], order[i+1]}] {
			gaps[i+1] = gaps[i]
		}
	}
	// a gap between two stops that must stay direct neighbours is not a legal place
	// (NewMoveStops does not check other units' direct pairs): such an op is a no-op
	route := vehicles[v].SolutionStops()
	for _, g := range gaps {
		if c.direct[[2]int{route[g-1].ModelStop().Index(), route[g].ModelStop().Index()}] {
			return 0, nil, false
		}
	}
	args := make([]string, 0, 2*len(order))
	for i, s := range order {
		args = append(args, strconv.Itoa(s), strconv.Itoa(gaps[i]))
	}
	return v, args, true
}

func unitKey(u nextroute.ModelPlanUnit) int {
	switch t := u.(type) {
	case nextroute.ModelPlanStopsUnit:
		m := math.MaxInt
		for _, s := range t.Stops() {
			if s.Index() < m {
				m = s.Index()
			}
		}
		return m
	case nextroute.ModelPlanUnitsUnit:
		// units of units: 1000 + smallest stop (a member listed on its own keeps its own key)
		m := math.MaxInt
		for _, c := range t.PlanUnits() {
			if k := unitKey(c) % 1000; k < m {
				m = k
			}
		}
		return 1000 + m
	}
	return -1
}

func collKeys(c nextroute.ImmutableSolutionPlanUnitCollection) string {
	var ks []int
	for _, u := range c.SolutionPlanUnits() {
		ks = append(ks, unitKey(u.ModelPlanUnit()))
	}
	sort.Ints(ks)
	ss := make([]string, len(ks))
	for i, k := range ks {
		ss[i] = strconv.Itoa(k)
	}
	return strings.Join(ss, " ")
}

func (c *engineCtx) snapshot(step int, sol nextroute.Solution) {
	p := fmt.Sprintf("%s %d", c.id, step)
	for vi, v := range sol.Vehicles() {
		stops := v.SolutionStops()
		ids := make([]string, len(stops))
		for i, s := range stops {
			ids[i] = strconv.Itoa(s.ModelStop().Index())
		}
		fmt.Fprintf(out, "%s route %d : %s\n", p, vi, strings.Join(ids, " "))
		for i, s := range stops {
			lv := make([]string, len(c.resExprs))
			for r, e := range c.resExprs {
				if e == nil {
					lv[r] = "0"
				} else {
					lv[r] = num(s.CumulativeValue(e))
				}
			}
			d := "0"
			if c.distExpr != nil {
				d = num(s.CumulativeValue(c.distExpr))
			}
			w := "0"
			if c.waitVeh != nil {
				if a, ok := nextroute.VerifAccumulatedWait(s, c.waitVeh); ok {
					w = num(a)
				}
			}
			// the per-stop (not cumulative) values of the registered expressions, SolutionStop.Value
			vv := make([]string, 0, 1+len(c.resExprs))
			if c.distExpr != nil {
				vv = append(vv, num(s.Value(c.distExpr)))
			} else {
				vv = append(vv, "0")
			}
			for _, e := range c.resExprs {
				if e == nil {
					vv = append(vv, "0")
				} else {
					vv = append(vv, num(s.Value(e)))
				}
			}
			fmt.Fprintf(out, "%s cell %d %d %s tr %s ct %s a %s s %s e %s L %s D %s W %s P %d K %s V %s\n", p, vi, i, ids[i],
				num(s.TravelDurationValue()), num(s.CumulativeTravelDurationValue()),
				num(s.ArrivalValue()), num(s.StartValue()), num(s.EndValue()),
				dashIfEmpty(strings.Join(lv, ",")), d, w, s.Position(), slackOf(s, i), strings.Join(vv, ","))
		}
	}
	fmt.Fprintf(out, "%s planned %s\n", p, collKeys(sol.PlannedPlanUnits()))
	fmt.Fprintf(out, "%s unplanned %s\n", p, collKeys(sol.UnPlannedPlanUnits()))
	fmt.Fprintf(out, "%s fixed %s\n", p, collKeys(sol.FixedPlanUnits()))
	var terms []string
	for _, t := range c.model.Objective().Terms() {
		terms = append(terms, fmt.Sprintf("%v=%s", t.Objective(), num(sol.ObjectiveValue(t.Objective()))))
	}
	sort.Strings(terms)
	fmt.Fprintf(out, "%s score %s | %s\n", p, num(sol.Score()), strings.Join(terms, " "))
}

// estimates asks every built-in constraint of the model for its estimate of the
// move on its own (the solution only sees the first violated one) and lists
// the violated ones with their SkipVehicle hint, sorted by name.  The vehicle
// end time and the maximum duration are one estimate in the model ("end").
func (c *engineCtx) estimates(mv nextroute.SolutionMoveStops) string {
	viol := map[string]bool{}
	skip := map[string]bool{}
	for _, k := range c.model.Constraints() {
		name := ""
		switch kk := k.(type) {
		case nextroute.AttributesConstraint:
			name = "attributes"
		case nextroute.MaximumStopsConstraint:
			name = "max_stops"
		case nextroute.MaximumWaitStopConstraint:
			name = "wait_stop"
		case nextroute.MaximumWaitVehicleConstraint:
			name = "wait_vehicle"
		case nextroute.MaximumDurationConstraint:
			name = "end"
		case nextroute.Maximum:
			id := kk.(nextroute.Identifier).ID()
			if id == "distance_limit" {
				name = "distance"
			}
			for r, e := range c.resExprs {
				if e != nil && e == kk.Expression() {
					name = "capacity_" + strconv.Itoa(r)
				}
			}
		default:
			switch fmt.Sprintf("%v", k) {
			case "late_end_penalty":
				name = "end"
			case "late_start_penalty":
				name = "latest_start"
			}
		}
		if name == "" {
			continue
		}
		v, h := k.EstimateIsViolated(mv)
		if v {
			viol[name] = true
			if h != nil && h.SkipVehicle() {
				skip[name] = true
			}
		}
	}
	names := make([]string, 0, len(viol))
	for n := range viol {
		names = append(names, n)
	}
	sort.Strings(names)
	var sb strings.Builder
	for _, n := range names {
		if skip[n] {
			sb.WriteString(" " + n + ":skip")
		} else {
			sb.WriteString(" " + n + ":noskip")
		}
	}
	return sb.String()
}

func (c *engineCtx) buildPositions(sol nextroute.Solution, vehicle int, args []string) (nextroute.SolutionPlanStopsUnit, nextroute.StopPositions, error) {
	// args: s1 g1 s2 g2 ...
	n := len(args) / 2
	stops := make([]nextroute.SolutionStop, n)
	gaps := make([]int, n)
	for i := 0; i < n; i++ {
		si, _ := strconv.Atoi(args[2*i])
		g, _ := strconv.Atoi(args[2*i+1])
		ms, err := c.model.Stop(si)
		if err != nil {
			return nil, nil, err
		}
		stops[i] = sol.SolutionStop(ms)
		gaps[i] = g
	}
	v := sol.Vehicles()[vehicle]
	route := v.SolutionStops()
	ms, _ := c.model.Stop(func() int { i, _ := strconv.Atoi(args[0]); return i }())
	unit := sol.SolutionPlanStopsUnit(ms.PlanStopsUnit())
	sp := make(nextroute.StopPositions, n)
	for i := 0; i < n; i++ {
		if gaps[i] < 1 || gaps[i] >= len(route) {
			return nil, nil, fmt.Errorf("gap out of range")
		}
		prev := route[gaps[i]-1]
		if i > 0 && gaps[i-1] == gaps[i] {
			prev = stops[i-1]
		}
		next := route[gaps[i]]
		if i+1 < n && gaps[i+1] == gaps[i] {
			next = stops[i+1]
		}
		sp[i] = nextroute.VerifStopPosition(prev, stops[i], next)
	}
	return unit, sp, nil
}

// queryBest compares Solution.BestMove with a brute-force enumeration through the
// public constructor NewMoveStops: every vehicle, every order listed for the unit
// (uorder lines: all orders the precedence allows), every non-decreasing gap tuple
// that keeps direct pairs (of this and of other units) adjacent.
func (c *engineCtx) queryBest(id string, step int, sol nextroute.Solution, unit nextroute.SolutionPlanStopsUnit) {
	if unit.IsPlanned() {
		fmt.Fprintf(out, "%s %d Q best planned\n", id, step)
		return
	}
	key := unitKey(unit.ModelPlanUnit())
	orders := c.orders[key]
	bruteExec := false
	bruteMin := math.Inf(1)
	count, allowedCount := 0, 0
	for v, veh := range sol.Vehicles() {
		route := veh.SolutionStops()
		L := len(route)
		// gaps that split an existing direct pair
		split := make([]bool, L)
		for g := 1; g < L; g++ {
			if c.direct[[2]int{route[g-1].ModelStop().Index(), route[g].ModelStop().Index()}] {
				split[g] = true
			}
		}
		for _, order := range orders {
			n := len(order)
			gaps := make([]int, n)
			var rec func(k, lo int)
			rec = func(k, lo int) {
				if k == n {
					args := make([]string, 0, 2*n)
					for i, s := range order {
						args = append(args, strconv.Itoa(s), strconv.Itoa(gaps[i]))
					}
					_, sp, err := c.buildPositions(sol, v, args)
					if err != nil {
						return
					}
					mv, err := nextroute.NewMoveStops(unit, sp)
					if err != nil {
						return
					}
					count++
					if mv.IsExecutable() {
						allowedCount++
						bruteExec = true
						if mv.Value() < bruteMin {
							bruteMin = mv.Value()
						}
					}
					return
				}
				for g := lo; g < L; g++ {
					if split[g] {
						continue
					}
					if k > 0 && c.direct[[2]int{order[k-1], order[k]}] && g != gaps[k-1] {
						continue
					}
					gaps[k] = g
					rec(k+1, g)
				}
			}
			rec(0, 1)
		}
	}
	bm := sol.BestMove(context.Background(), unit)
	bv := "-"
	if bm.IsExecutable() {
		bv = num(bm.Value())
	}
	mn := "-"
	if bruteExec {
		mn = num(bruteMin)
	}
	fmt.Fprintf(out, "%s %d Q best exec %v value %s brute exec %v min %s enumerated %d allowed %d stops %d\n",
		id, step, bm.IsExecutable(), bv, bruteExec, mn, count, allowedCount, len(unit.SolutionStops()))
}

func (c *engineCtx) stopIndexOfID(id string) int {
	for _, st := range c.model.Stops() {
		if st.ID() == id {
			return st.Index()
		}
	}
	return -1
}

// format prints factory.ToSolutionOutput canonically.
func (c *engineCtx) format(id string, step int, sol nextroute.Solution) {
	o := factory.ToSolutionOutput(sol)
	p := fmt.Sprintf("%s %d fmt", id, step)
	for vi, v := range o.Vehicles {
		fmt.Fprintf(out, "%s veh %d dur %d travel %d dist %d stopsdur %d wait %d\n", p, vi,
			v.RouteDuration, v.RouteTravelDuration, v.RouteTravelDistance, v.RouteStopsDuration, v.RouteWaitingDuration)
		for _, st := range v.Route {
			tm := func(t *time.Time) string {
				if t == nil {
					return "-"
				}
				return strconv.FormatInt(t.Unix(), 10)
			}
			fmt.Fprintf(out, "%s stop %d %d tr %d ct %d dur %d wait %d dist %d cumdist %d a %s s %s e %s\n", p, vi,
				c.stopIndexOfID(st.Stop.ID), st.TravelDuration, st.CumulativeTravelDuration, st.Duration, st.WaitingDuration,
				st.TravelDistance, st.CumulativeTravelDistance, tm(st.ArrivalTime), tm(st.StartTime), tm(st.EndTime))
		}
	}
	var un []int
	for _, u := range o.Unplanned {
		un = append(un, c.stopIndexOfID(u.ID))
	}
	sort.Ints(un)
	us := make([]string, len(un))
	for i, x := range un {
		us[i] = strconv.Itoa(x)
	}
	fmt.Fprintf(out, "%s unplanned %s\n", p, strings.Join(us, " "))
	var terms []string
	sum := 0.0
	for _, t := range o.Objective.Objectives {
		terms = append(terms, fmt.Sprintf("%s=%s", t.Name, num(t.Value)))
		sum += t.Value
	}
	sort.Strings(terms)
	fmt.Fprintf(out, "%s objective %s | %s\n", p, num(o.Objective.Value), strings.Join(terms, " "))
}

// userCons is a user-written constraint (C19): exact check only, the estimate
// always answers "not violated".
type userCons struct {
	ctx      *engineCtx
	field    string
	r        int
	max      float64
	vehLevel bool
	temporal bool
	id       int
}

func (u *userCons) EstimateIsViolated(nextroute.Move) (bool, nextroute.StopPositionsHint) {
	return false, nextroute.NoPositionsHint()
}
func (u *userCons) String() string   { return fmt.Sprintf("user_%d", u.id) }
func (u *userCons) IsTemporal() bool { return u.temporal }
func (u *userCons) value(s nextroute.SolutionStop) float64 {
	switch u.field {
	case "pos":
		return float64(s.Position())
	case "arrival":
		return s.ArrivalValue()
	case "start":
		return s.StartValue()
	case "end":
		return s.EndValue()
	case "cumtravel":
		return s.CumulativeTravelDurationValue()
	case "wait":
		return s.StartValue() - s.ArrivalValue()
	case "level":
		if u.r < len(u.ctx.resExprs) && u.ctx.resExprs[u.r] != nil {
			return s.CumulativeValue(u.ctx.resExprs[u.r])
		}
		return 0
	}
	return 0
}

type userStopCons struct{ userCons }

func (u *userStopCons) DoesStopHaveViolations(s nextroute.SolutionStop) bool {
	return u.value(s) > u.max
}

type userVehicleCons struct{ userCons }

func (u *userVehicleCons) DoesVehicleHaveViolations(v nextroute.SolutionVehicle) bool {
	return u.value(v.Last()) > u.max
}

type userBothCons struct {
	userCons
	veh userCons
}

func (u *userBothCons) DoesStopHaveViolations(s nextroute.SolutionStop) bool {
	return u.value(s) > u.max
}

func (u *userBothCons) DoesVehicleHaveViolations(v nextroute.SolutionVehicle) bool {
	return u.veh.value(v.Last()) > u.veh.max
}

// registerUsers adds the user constraints of the case.  A stop-level line
// flagged "paired" (6th field 1) and the vehicle-level line that follows it
// become ONE constraint object with two exact checks.
var triangleFlag bool

// userSolutionCons: a user constraint with a per-SOLUTION exact check (C19, third level) and an estimate that always
// answers "not violated".  balance k: the numbers of stops of any two vehicles differ by at most k; maxplanned k: at most k
// stops are on routes altogether.  Routes are walked (not read from cached positions).
type userSolutionCons struct {
	kind string
	k    int
	id   int
}

func (u *userSolutionCons) EstimateIsViolated(nextroute.Move) (bool, nextroute.StopPositionsHint) {
	return false, nextroute.NoPositionsHint()
}
func (u *userSolutionCons) String() string { return fmt.Sprintf("user_solution_%d", u.id) }

// userSolutionDataCons: the same rules, but the exact check reads the data that the constraint itself maintains through
// ConstraintSolutionDataUpdater (the verdict computed when the data was last refreshed) instead of walking the routes.
type userSolutionDataCons struct{ userSolutionCons }

type userSolData struct{ violated bool }

func (d *userSolData) Copy() nextroute.Copier { c := *d; return &c }

func (u *userSolutionDataCons) UpdateConstraintSolutionData(s nextroute.Solution) (nextroute.Copier, error) {
	return &userSolData{violated: u.userSolutionCons.DoesSolutionHaveViolations(s)}, nil
}
func (u *userSolutionDataCons) DoesSolutionHaveViolations(s nextroute.Solution) bool {
	if d, ok := s.ConstraintData(u).(*userSolData); ok && d != nil {
		return d.violated
	}
	return false
}
func (u *userSolutionCons) DoesSolutionHaveViolations(s nextroute.Solution) bool {
	mx, mn, total := 0, -1, 0
	for _, v := range s.Vehicles() {
		n := len(v.SolutionStops()) - 2
		total += n
		if n > mx {
			mx = n
		}
		if mn < 0 || n < mn {
			mn = n
		}
	}
	if mn < 0 {
		mn = 0
	}
	if u.kind == "balance" {
		return mx-mn > u.k
	}
	return total > u.k
}

var userSolDefs [][]string

func registerUsers(model nextroute.Model, c *engineCtx) {
	defer func() { userSolDefs = nil }()
	defer func() {
		for i, fs := range userSolDefs {
			k, _ := strconv.Atoi(fs[2])
			base := userSolutionCons{kind: fs[1], k: k, id: i}
			var err error
			if len(fs) > 3 && fs[3] == "data" {
				err = model.AddConstraint(&userSolutionDataCons{base})
			} else {
				err = model.AddConstraint(&base)
			}
			if err != nil {
				panic(err)
			}
		}
	}()
	mk := func(i int, fsu []string) userCons {
		mx, _ := strconv.ParseFloat(fsu[2], 64)
		base := userCons{ctx: c, field: fsu[1], max: mx, vehLevel: fsu[3] == "1", temporal: fsu[4] == "1", id: i}
		if strings.HasPrefix(fsu[1], "level") {
			base.field = "level"
			base.r, _ = strconv.Atoi(strings.TrimPrefix(fsu[1], "level"))
		}
		return base
	}
	for i := 0; i < len(userDefs); i++ {
		fsu := userDefs[i]
		base := mk(i, fsu)
		var err error
		switch {
		case len(fsu) > 5 && fsu[5] == "1" && !base.vehLevel && i+1 < len(userDefs) && userDefs[i+1][3] == "1":
			err = model.AddConstraint(&userBothCons{userCons: base, veh: mk(i+1, userDefs[i+1])})
			i++
		case base.vehLevel:
			err = model.AddConstraint(&userVehicleCons{base})
		default:
			err = model.AddConstraint(&userStopCons{base})
		}
		if err != nil {
			panic(err)
		}
	}
}

// slackOf: the cached slack; the first stop of a vehicle is never assigned by isFeasible (it keeps MaxFloat64)
func slackOf(s nextroute.SolutionStop, i int) string {
	if i == 0 {
		return "-"
	}
	return num(nextroute.VerifSlack(s))
}

func runEngine(b block) {
	defer func() {
		if r := recover(); r != nil {
			fmt.Fprintf(out, "%s PANIC %v\n", b.id, r)
			if os.Getenv("VERIF_TRACE") != "" {
				debug.PrintStack()
			}
		}
	}()
	c := &engineCtx{id: b.id, orders: map[int][][]int{}, direct: map[[2]int]bool{}}
	var input schema.Input
	var opts factory.Options
	step := 0
	for li, fs := range b.lines {
		raw := b.raw[li]
		switch fs[0] {
		case "json":
			if err := json.Unmarshal([]byte(strings.TrimPrefix(raw, "json ")), &input); err != nil {
				fmt.Fprintf(out, "%s decode-error\n", b.id)
				return
			}
		case "uorder":
			key, _ := strconv.Atoi(fs[1])
			var od []int
			for _, x := range fs[3:] {
				i, _ := strconv.Atoi(x)
				od = append(od, i)
			}
			c.orders[key] = append(c.orders[key], od)
		case "unit":
			// unit <k> stops.. arcs <m> a b d ...
			k, _ := strconv.Atoi(fs[1])
			m, _ := strconv.Atoi(fs[3+k])
			for j := 0; j < m; j++ {
				a, _ := strconv.Atoi(fs[4+k+3*j])
				bb, _ := strconv.Atoi(fs[5+k+3*j])
				if fs[6+k+3*j] == "1" {
					c.direct[[2]int{a, bb}] = true
				}
			}
		case "gopt":
			if err := json.Unmarshal([]byte(strings.TrimPrefix(raw, "gopt ")), &opts); err != nil {
				panic(err)
			}
		case "triangle":
			triangleFlag = len(fs) > 1 && fs[1] == "1"
		case "user":
			userDefs = append(userDefs, fs)
		case "usol":
			userSolDefs = append(userSolDefs, fs)
		case "build":
			model, err := factory.NewModel(input, opts)
			if err != nil {
				fmt.Fprintf(out, "%s build error\n", b.id)
				fmt.Fprintf(os.Stderr, "%s build error: %v\n", b.id, err)
				return
			}
			c.model = model
			c.nInput = len(input.Stops)
			if triangleFlag {
				// the caller declares that the travel durations satisfy the triangle inequality (the generator only
				// does so for metric matrices): API-only flag, the factory never sets it
				for _, vt := range model.VehicleTypes() {
					vt.TravelDurationExpression().SetSatisfiesTriangleInequality(true)
				}
				triangleFlag = false
			}
			defer func() { userDefs = nil }()
			resNames := fs[1:]
			c.resExprs = make([]nextroute.ModelExpression, len(resNames))
			for _, k := range model.Constraints() {
				if mx, ok := k.(nextroute.Maximum); ok {
					id := k.(nextroute.Identifier).ID()
					if id == "distance_limit" {
						c.distExpr = mx.Expression()
					}
					for r, name := range resNames {
						if id == "capacity_"+name {
							c.resExprs[r] = mx.Expression()
						}
					}
				}
				if _, ok := k.(nextroute.MaximumWaitVehicleConstraint); ok {
					c.waitVeh = k
				}
			}
			registerUsers(model, c)
			sol, err := nextroute.NewSolution(model)
			if err != nil {
				fmt.Fprintf(out, "%s build solution-error\n", b.id)
				fmt.Fprintf(os.Stderr, "%s solution error: %v\n", b.id, err)
				return
			}
			c.solutions = []nextroute.Solution{sol}
			fmt.Fprintf(out, "%s build ok\n", b.id)
			c.snapshot(step, sol)
			step++
		case "op":
			sol := c.solutions[c.cur]
			if fs[1] == "planr" || fs[1] == "plancr" {
				var ukeys []int
				for _, u := range sol.UnPlannedPlanUnits().SolutionPlanUnits() {
					ukeys = append(ukeys, unitKey(u.ModelPlanUnit()))
				}
				sort.Ints(ukeys)
				if len(ukeys) > 0 {
					r0, _ := strconv.Atoi(fs[2])
					if g, isGroup := findTop(sol.UnPlannedPlanUnits(), ukeys[r0%len(ukeys)]).(nextroute.SolutionPlanUnitsUnit); isGroup {
						c.planGroup(b.id, step, sol, g, fs[2:])
						c.snapshot(step, sol)
						step++
						continue
					}
				}
				if len(ukeys) > 0 {
					r0, _ := strconv.Atoi(fs[2])
					fmt.Fprintf(out, "%s %d target %d\n", b.id, step, ukeys[r0%len(ukeys)])
				}
				v, args, ok := c.resolvePlan(sol, fs[2:])
				if !ok {
					fmt.Fprintf(out, "%s %d result noop\n", b.id, step)
					c.snapshot(step, sol)
					step++
					continue
				}
				kind := "plan"
				if fs[1] == "plancr" {
					kind = "planchecked"
				}
				fs = append([]string{"op", kind, strconv.Itoa(v)}, args...)
			}
			if fs[1] == "unplanr" {
				var keys []int
				for _, u := range sol.PlannedPlanUnits().SolutionPlanUnits() {
					keys = append(keys, unitKey(u.ModelPlanUnit()))
				}
				sort.Ints(keys)
				if len(keys) == 0 {
					fmt.Fprintf(out, "%s %d result noop\n", b.id, step)
					c.snapshot(step, sol)
					step++
					continue
				}
				r, _ := strconv.Atoi(fs[2])
				fmt.Fprintf(out, "%s %d target %d\n", b.id, step, keys[r%len(keys)])
				top := findTop(sol.PlannedPlanUnits(), keys[r%len(keys)])
				if g, isGroup := top.(nextroute.SolutionPlanUnitsUnit); isGroup {
					ok, err := g.UnPlan()
					switch {
					case err != nil:
						fmt.Fprintf(out, "%s %d result error\n", b.id, step)
					case ok:
						fmt.Fprintf(out, "%s %d result done\n", b.id, step)
					default:
						fmt.Fprintf(out, "%s %d result notdone\n", b.id, step)
					}
					c.snapshot(step, sol)
					step++
					continue
				}
				if st, isStops := top.(nextroute.SolutionPlanStopsUnit); isStops {
					fs = []string{"op", "unplan", strconv.Itoa(st.ModelPlanStopsUnit().Stops()[0].Index())}
				} else {
					fs = []string{"op", "unplan", strconv.Itoa(keys[r%len(keys)])}
				}
			}
			if fs[1] == "munplanr" {
				// un-plan a planned MEMBER stops unit of some group on its own
				var keys []int
				for _, pu := range c.model.PlanStopsUnits() {
					if _, isMember := pu.PlanUnitsUnit(); isMember && sol.SolutionPlanStopsUnit(pu).IsPlanned() {
						keys = append(keys, unitKey(pu))
					}
				}
				sort.Ints(keys)
				if len(keys) == 0 {
					fmt.Fprintf(out, "%s %d result noop\n", b.id, step)
					c.snapshot(step, sol)
					step++
					continue
				}
				r, _ := strconv.Atoi(fs[2])
				fs = []string{"op", "unplan", strconv.Itoa(keys[r%len(keys)])}
			}
			if fs[1] == "vunplanr" {
				r, _ := strconv.Atoi(fs[2])
				vs := sol.Vehicles()
				ok, err := vs[r%len(vs)].Unplan()
				switch {
				case err != nil:
					fmt.Fprintf(out, "%s %d result error\n", b.id, step)
				case ok:
					fmt.Fprintf(out, "%s %d result done\n", b.id, step)
				default:
					fmt.Fprintf(out, "%s %d result notdone\n", b.id, step)
				}
				c.snapshot(step, sol)
				step++
				continue
			}
			switch fs[1] {
			case "plan", "planchecked":
				v, _ := strconv.Atoi(fs[2])
				unit, sp, err := c.buildPositions(sol, v, fs[3:])
				if err != nil {
					fmt.Fprintf(out, "%s %d result badop\n", b.id, step)
					break
				}
				var mv nextroute.SolutionMoveStops
				if fs[1] == "plan" {
					mv, err = nextroute.VerifNewMoveStopsUnchecked(unit, sp)
				} else {
					mv, err = nextroute.NewMoveStops(unit, sp)
				}
				if err != nil {
					fmt.Fprintf(out, "%s %d result moveerror\n", b.id, step)
					break
				}
				if fs[1] == "planchecked" {
					fmt.Fprintf(out, "%s %d move executable %v\n", b.id, step, mv.IsExecutable())
					fmt.Fprintf(out, "%s %d est%s\n", b.id, step, c.estimates(mv))
				}
				ok, err := mv.Execute(context.Background())
				switch {
				case err != nil:
					fmt.Fprintf(out, "%s %d result error\n", b.id, step)
				case ok:
					fmt.Fprintf(out, "%s %d result done\n", b.id, step)
				default:
					fmt.Fprintf(out, "%s %d result notdone\n", b.id, step)
				}
			case "unplan":
				si, _ := strconv.Atoi(fs[2])
				ms, _ := c.model.Stop(si)
				unit := sol.SolutionPlanStopsUnit(ms.PlanStopsUnit())
				ok, err := unit.UnPlan()
				switch {
				case err != nil:
					fmt.Fprintf(out, "%s %d result error\n", b.id, step)
				case ok:
					fmt.Fprintf(out, "%s %d result done\n", b.id, step)
				default:
					fmt.Fprintf(out, "%s %d result notdone\n", b.id, step)
				}
			case "copy":
				c.solutions = append(c.solutions, sol.Copy())
				fmt.Fprintf(out, "%s %d result done\n", b.id, step)
			case "switch":
				k, _ := strconv.Atoi(fs[2])
				if k < len(c.solutions) {
					c.cur = k
				}
				fmt.Fprintf(out, "%s %d result done\n", b.id, step)
			case "q_seqs":
				si, _ := strconv.Atoi(fs[2])
				ms, _ := c.model.Stop(si)
				unit := sol.SolutionPlanStopsUnit(ms.PlanStopsUnit())
				saved := sol.Random()
				for seed := int64(1); seed <= 8; seed++ {
					_ = sol.SetRandom(rand.New(rand.NewSource(seed)))
					quit := make(chan struct{})
					var seqs []string
					for sq := range nextroute.SequenceGeneratorChannel(unit, quit) {
						ids := make([]string, len(sq))
						for i, st := range sq {
							ids[i] = strconv.Itoa(st.ModelStop().Index())
						}
						seqs = append(seqs, strings.Join(ids, "-"))
					}
					close(quit)
					sort.Strings(seqs)
					fmt.Fprintf(out, "%s %d Q seqs seed %d : %s\n", b.id, step, seed, strings.Join(seqs, " "))
				}
				_ = sol.SetRandom(saved)
				fmt.Fprintf(out, "%s %d result done\n", b.id, step)
			case "q_gens":
				// q_gens <vehicle> s1 s2 ... (the order)
				v, _ := strconv.Atoi(fs[2])
				var order nextroute.SolutionStops
				for _, x := range fs[3:] {
					si, _ := strconv.Atoi(x)
					ms, _ := c.model.Stop(si)
					order = append(order, sol.SolutionStop(ms))
				}
				unit := order[0].PlanStopsUnit()
				var outs []string
				if !unit.IsPlanned() && v < len(sol.Vehicles()) {
					nextroute.SolutionMoveStopsGeneratorTest(sol.Vehicles()[v], unit, func(mv nextroute.SolutionMoveStops) {
						sps := mv.StopPositions()
						gaps := make([]string, len(sps))
						last := -1
						for i := len(sps) - 1; i >= 0; i-- {
							if sps[i].Next().IsPlanned() {
								last = sps[i].Next().Position()
							}
							gaps[i] = strconv.Itoa(last)
						}
						outs = append(outs, strings.Join(gaps, ","))
					}, order, nextroute.NewPreAllocatedMoveContainer(unit), func() bool { return false })
				}
				sort.Strings(outs)
				fmt.Fprintf(out, "%s %d gens %s\n", b.id, step, strings.Join(outs, " "))
				fmt.Fprintf(out, "%s %d result done\n", b.id, step)
			case "q_best":
				si, _ := strconv.Atoi(fs[2])
				ms, _ := c.model.Stop(si)
				unit := sol.SolutionPlanStopsUnit(ms.PlanStopsUnit())
				c.queryBest(b.id, step, sol, unit)
				fmt.Fprintf(out, "%s %d result done\n", b.id, step)
			case "q_check":
				// q_check <verbosity>: nextcheck on the current solution; truthfulness probed on a copy taken before
				before := sol.Copy()
				o, err := check.SolutionCheck(sol, check.Options{Duration: 20 * time.Second, Verbosity: fs[2]})
				if err != nil {
					fmt.Fprintf(out, "%s %d Q check error %v\n", b.id, step, err)
				}
				if o.Error != nil {
					fmt.Fprintf(out, "%s %d Q check internal-error %s\n", b.id, step, *o.Error)
				}
				fmt.Fprintf(out, "%s %d Q check summary moves_failed %d units %d\n", b.id, step, o.Summary.MovesFailed, len(o.PlanUnits))
				for _, pu := range o.PlanUnits {
					truthful := "n/a"
					if pu.HasPlannableBestMove && len(pu.Stops) > 0 {
						ms, _ := c.model.Stop(c.stopIndexOfID(pu.Stops[0]))
						probe := before.Copy()
						var unit nextroute.SolutionPlanUnit = probe.SolutionPlanStopsUnit(ms.PlanStopsUnit())
						if u, ok := ms.PlanStopsUnit().PlanUnitsUnit(); ok {
							unit = probe.SolutionPlanUnit(u)
						}
						ok, err := probe.BestMove(context.Background(), unit).Execute(context.Background())
						can := ok && err == nil
						if !can {
							// the best move by estimate may be refused by an exact check (optimistic estimates): the unit
							// can be planned if ANY placement executes - every vehicle's own best move, and for a single
							// stop every position of every vehicle
							for vi := range before.Vehicles() {
								if can {
									break
								}
								p2 := before.Copy()
								var u2 nextroute.SolutionPlanUnit = p2.SolutionPlanStopsUnit(ms.PlanStopsUnit())
								if u, ok := ms.PlanStopsUnit().PlanUnitsUnit(); ok {
									u2 = p2.SolutionPlanUnit(u)
								}
								if ok, err := p2.Vehicles()[vi].BestMove(context.Background(), u2).Execute(context.Background()); ok && err == nil {
									can = true
									break
								}
								if su, isStops := u2.(nextroute.SolutionPlanStopsUnit); isStops && len(su.SolutionStops()) == 1 {
									n := len(before.Vehicles()[vi].SolutionStops())
									for g := 1; g < n && !can; g++ {
										p3 := before.Copy()
										su3 := p3.SolutionPlanStopsUnit(ms.PlanStopsUnit())
										route := p3.Vehicles()[vi].SolutionStops()
										pos := nextroute.VerifStopPosition(route[g-1], su3.SolutionStops()[0], route[g])
										if mv, err := nextroute.VerifNewMoveStopsUnchecked(su3, nextroute.StopPositions{pos}); err == nil {
											if ok, err := mv.Execute(context.Background()); ok && err == nil {
												can = true
											}
										}
									}
								}
							}
						}
						truthful = strconv.FormatBool(can)
						if !can {
							// only for a single stop is the search above exhaustive; for a unit of several stops or a group the
							// best moves tried here are drawn with other tie-breaks than the check's own: no verdict
							single := false
							if su, isStops := unit.(nextroute.SolutionPlanStopsUnit); isStops && len(su.SolutionStops()) == 1 {
								if _, member := ms.PlanStopsUnit().PlanUnitsUnit(); !member {
									single = true
								}
							}
							if !single {
								truthful = "n/a"
							}
						}
					}
					fmt.Fprintf(out, "%s %d Q check unit %s plannable %v failed %v truthful %s\n", b.id, step,
						strings.Join(pu.Stops, ","), pu.HasPlannableBestMove, pu.BestMoveFailed, truthful)
				}
				fmt.Fprintf(out, "%s %d result done\n", b.id, step)
			case "q_format":
				c.format(b.id, step, sol)
				fmt.Fprintf(out, "%s %d result done\n", b.id, step)
			case "snapall":
				fmt.Fprintf(out, "%s %d result done\n", b.id, step)
				saved := c.id
				for j, sj := range c.solutions {
					c.id = fmt.Sprintf("%s S%d", saved, j)
					c.snapshot(step, sj)
				}
				c.id = saved
			}
			c.snapshot(step, c.solutions[c.cur])
			step++
		}
	}
}
