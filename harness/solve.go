package main

import (
	"context"
	"encoding/json"
	"fmt"
	"os"
	"runtime"
	"strconv"
	"strings"
	"sync"
	"sync/atomic"
	"time"

	"github.com/nextmv-io/nextroute"
	"github.com/nextmv-io/nextroute/factory"
	"github.com/nextmv-io/nextroute/observers"
	"github.com/nextmv-io/nextroute/schema"
	"github.com/nextmv-io/sdk/run"
)

// solve: run the parallel solver as the CLI does and print every solution
// delivered on the channel.
//
//	solve iterations=N duration_ms=D runs=R starts=S det=0|1 repeat=K snap=0|1 cancel_ms=C
func runSolve(b block) {
	defer func() { userDefs = nil }()
	var input schema.Input
	var opts factory.Options
	resNames := []string{}
	for li, fs := range b.lines {
		raw := b.raw[li]
		switch fs[0] {
		case "json":
			if err := json.Unmarshal([]byte(strings.TrimPrefix(raw, "json ")), &input); err != nil {
				fmt.Fprintf(out, "%s decode-error\n", b.id)
				return
			}
		case "gopt":
			if err := json.Unmarshal([]byte(strings.TrimPrefix(raw, "gopt ")), &opts); err != nil {
				panic(err)
			}
		case "user":
			userDefs = append(userDefs, fs)
		case "usol":
			userSolDefs = append(userSolDefs, fs)
		case "build":
			resNames = fs[1:]
		case "solve":
			kv := map[string]int{"iterations": 50, "duration_ms": 2000, "runs": 1, "starts": 1, "det": 1, "repeat": 1, "snap": 0, "cancel_ms": -1, "jitter": 0, "slow_us": 0, "observer": 0, "lag_us": 0}
			for _, a := range fs[1:] {
				p := strings.SplitN(a, "=", 2)
				v, _ := strconv.Atoi(p[1])
				kv[p[0]] = v
			}
			for rep := 0; rep < kv["repeat"]; rep++ {
				kv["_rep"] = rep
				solveOnce(fmt.Sprintf("%s r%d", b.id, rep), input, opts, resNames, kv)
			}
		}
	}
}

func solveOnce(id string, input schema.Input, opts factory.Options, resNames []string, kv map[string]int) {
	defer func() {
		if r := recover(); r != nil {
			fmt.Fprintf(out, "%s PANIC %v\n", id, r)
		}
	}()
	model, err := factory.NewModel(input, opts)
	if err != nil {
		fmt.Fprintf(out, "%s build error\n", id)
		return
	}
	if kv["slow_us"] > 0 {
		// a user constraint whose exact check is slow (and never violated): makes every executed move expensive
		if err := model.AddConstraint(&slowCons{d: time.Duration(kv["slow_us"]) * time.Microsecond}); err != nil {
			panic(err)
		}
	}
	if kv["observer"] > 0 {
		// the performance observer of observers/ (registered on the model, called by every run) and a user constraint with
		// a solution-level check, so that every handler of the observer is exercised
		model.AddSolutionObserver(observers.NewPerformanceObserver(model))
		if err := model.AddConstraint(&solutionLevelCons{}); err != nil {
			panic(err)
		}
	}
	if kv["jitter"] > 0 {
		model.AddSolutionObserver(&jitterObserver{rep: kv["_rep"], k: kv["jitter"]})
	}
	c := &engineCtx{id: id, model: model}
	c.resExprs = make([]nextroute.ModelExpression, len(resNames))
	for _, k := range model.Constraints() {
		if mx, ok := k.(nextroute.Maximum); ok {
			cid := k.(nextroute.Identifier).ID()
			if cid == "distance_limit" {
				c.distExpr = mx.Expression()
			}
			for r, name := range resNames {
				if cid == "capacity_"+name {
					c.resExprs[r] = mx.Expression()
				}
			}
		}
		if _, ok := k.(nextroute.MaximumWaitVehicleConstraint); ok {
			c.waitVeh = k
		}
	}
	registerUsers(model, c)
	solver, err := nextroute.NewParallelSolver(model)
	if err != nil {
		fmt.Fprintf(out, "%s solver error\n", id)
		return
	}
	var iterated atomic.Int64
	solver.SolveEvents().Iterated.Register(func(_ nextroute.SolveInformation) { iterated.Add(1) })
	so := nextroute.ParallelSolveOptions{
		Iterations:           kv["iterations"],
		Duration:             time.Duration(kv["duration_ms"]) * time.Millisecond,
		ParallelRuns:         kv["runs"],
		StartSolutions:       kv["starts"],
		RunDeterministically: kv["det"] == 1,
	}
	data := &sync.Map{}
	start := time.Now()
	ctx := context.WithValue(context.Background(), run.Start, start)
	ctx = context.WithValue(ctx, run.Data, data)
	ctx, cancel := context.WithCancel(ctx)
	defer cancel()
	if kv["cancel_ms"] >= 0 {
		time.AfterFunc(time.Duration(kv["cancel_ms"])*time.Millisecond, cancel)
	}
	ch, err := solver.Solve(ctx, so)
	if err != nil {
		fmt.Fprintf(out, "%s solve error\n", id)
		return
	}
	grace := time.Duration(kv["duration_ms"])*time.Millisecond + 20*time.Second
	timer := time.NewTimer(grace)
	n := 0
	nerr := 0
	for {
		select {
		case si, ok := <-ch:
			if !ok {
				rep := int64(-1)
				if v, ok := data.Load(nextroute.Iterations); ok {
					if iv, ok := v.(int); ok {
						rep = int64(iv)
					}
				}
				fmt.Fprintf(out, "%s done solutions %d errors %d iterated %d reported %d elapsed_ms %d\n",
					id, n, nerr, iterated.Load(), rep, time.Since(start).Milliseconds())
				return
			}
			if si.Error != nil {
				nerr++
				fmt.Fprintf(out, "%s solerror %v\n", id, strings.ReplaceAll(si.Error.Error(), "\n", " "))
				continue
			}
			if si.Solution == nil {
				continue
			}
			if kv["lag_us"] > 0 && kv["_rep"]%2 == 1 {
				// a consumer that falls behind (odd repetitions only): what is delivered must not depend on its pace
				time.Sleep(time.Duration(kv["lag_us"]) * time.Microsecond)
			}
			fmt.Fprintf(out, "%s sol %d score %s\n", id, n, num(si.Solution.Score()))
			if kv["snap"] == 1 {
				c.snapshot(n, si.Solution)
			}
			n++
		case <-timer.C:
			fmt.Fprintf(out, "%s HANG channel not closed %d ms after the configured duration\n", id, 20000)
			buf := make([]byte, 1<<16)
			m := runtime.Stack(buf, true)
			fmt.Fprintf(os.Stderr, "%s goroutines:\n%s\n", id, buf[:m])
			return
		}
	}
}

// solutionLevelCons: a user constraint checked at solution level, never violated
type solutionLevelCons struct{}

func (c *solutionLevelCons) EstimateIsViolated(nextroute.Move) (bool, nextroute.StopPositionsHint) {
	return false, nextroute.NoPositionsHint()
}
func (c *solutionLevelCons) String() string                                     { return "solution_level_check" }
func (c *solutionLevelCons) DoesSolutionHaveViolations(nextroute.Solution) bool { return false }

type slowCons struct{ d time.Duration }

func (c *slowCons) EstimateIsViolated(nextroute.Move) (bool, nextroute.StopPositionsHint) {
	return false, nextroute.NoPositionsHint()
}
func (c *slowCons) String() string { return "slow_check" }
func (c *slowCons) DoesStopHaveViolations(nextroute.SolutionStop) bool {
	time.Sleep(c.d)
	return false
}
