// nomix: scripted plans and un-plans on a one-vehicle model that carries only
// the no-mix constraint, assembled through the public Go API.  The estimate
// (IsExecutable of a move built by NewMoveStops), the exact rule (Execute, which
// runs UpdateConstraintStopData over the new route) and the contents reported
// by NoMixConstraint.Value are printed; the extracted model (Model/NoMix.v)
// prints the same lines.
//
//	nstops <n>
//	delta <stop> <name> <quantity>     name 0 is the empty string, k is "n<k>"; quantity signed
//	unit <s1> <s2> ...                 a plan sequence (one stop: a single stop unit)
//	op plan <unit> <g1> <g2> ...       gap g: in front of element g of the route (first stop excluded)
//	op unplan <unit>
package main

import (
	"context"
	"fmt"
	"strconv"
	"strings"

	"github.com/nextmv-io/nextroute"
	"github.com/nextmv-io/nextroute/common"
)

func nomixName(k int) string {
	if k == 0 {
		return ""
	}
	return "n" + strconv.Itoa(k)
}

func nomixShow(s string) string {
	if s == "" {
		return "-"
	}
	return s
}

func runNomix(b block) {
	defer func() {
		if r := recover(); r != nil {
			fmt.Fprintf(out, "%s panic %s\n", b.id, strings.ReplaceAll(fmt.Sprint(r), "\n", " "))
		}
	}()
	n := 0
	type dl struct{ stop, name, q int }
	var deltas []dl
	var units [][]int
	var ops [][]string
	for _, fs := range b.lines {
		switch fs[0] {
		case "nstops":
			n, _ = strconv.Atoi(fs[1])
		case "delta":
			s, _ := strconv.Atoi(fs[1])
			k, _ := strconv.Atoi(fs[2])
			q, _ := strconv.Atoi(fs[3])
			deltas = append(deltas, dl{s, k, q})
		case "unit":
			var u []int
			for _, x := range fs[1:] {
				s, _ := strconv.Atoi(x)
				u = append(u, s)
			}
			units = append(units, u)
		case "op":
			ops = append(ops, fs[1:])
		}
	}
	model, err := nextroute.NewModel()
	if err != nil {
		fmt.Fprintf(out, "%s build error\n", b.id)
		return
	}
	var stops nextroute.ModelStops
	for i := 0; i < n; i++ {
		loc, _ := common.NewLocation(7.0+0.01*float64(i%5), 51.0+0.01*float64(i/5))
		st, err := model.NewStop(loc)
		if err != nil {
			fmt.Fprintf(out, "%s build error\n", b.id)
			return
		}
		st.SetID("s" + strconv.Itoa(i))
		stops = append(stops, st)
	}
	inUnit := make([]bool, n)
	var munits []nextroute.ModelPlanStopsUnit
	for _, u := range units {
		var ss nextroute.ModelStops
		for _, s := range u {
			if s < 0 || s >= n || inUnit[s] {
				fmt.Fprintf(out, "%s badcase\n", b.id)
				return
			}
			inUnit[s] = true
			ss = append(ss, stops[s])
		}
		var pu nextroute.ModelPlanStopsUnit
		if len(ss) == 1 {
			pu, err = model.NewPlanSingleStop(ss[0])
		} else {
			pu, err = model.NewPlanSequence(ss)
		}
		if err != nil {
			fmt.Fprintf(out, "%s badcase\n", b.id)
			return
		}
		munits = append(munits, pu)
	}
	for s := 0; s < n; s++ {
		if !inUnit[s] {
			fmt.Fprintf(out, "%s badcase\n", b.id)
			return
		}
	}
	vt, err := model.NewVehicleType(
		nextroute.NewTimeIndependentDurationExpression(
			nextroute.NewTravelDurationExpression(
				nextroute.NewHaversineExpression(),
				common.NewSpeed(10, common.MetersPerSecond),
			),
		),
		nextroute.NewDurationExpression("duration", nextroute.NewStopDurationExpression("service", 0.0), common.Second),
	)
	if err != nil {
		fmt.Fprintf(out, "%s build error\n", b.id)
		return
	}
	loc, _ := common.NewLocation(7.1, 51.1)
	depot, _ := model.NewStop(loc)
	depot2, _ := model.NewStop(loc)
	if _, err := model.NewVehicle(vt, model.Epoch(), depot, depot2); err != nil {
		fmt.Fprintf(out, "%s build error\n", b.id)
		return
	}
	mix := map[nextroute.ModelStop]nextroute.MixItem{}
	for _, d := range deltas {
		if d.stop < 0 || d.stop >= n {
			fmt.Fprintf(out, "%s badcase\n", b.id)
			return
		}
		mix[stops[d.stop]] = nextroute.MixItem{Name: nomixName(d.name), Quantity: d.q}
	}
	cons, err := nextroute.NewNoMixConstraint(mix)
	if err != nil {
		fmt.Fprintf(out, "%s build error\n", b.id)
		return
	}
	if err := model.AddConstraint(cons); err != nil {
		fmt.Fprintf(out, "%s build error\n", b.id)
		return
	}
	sol, err := nextroute.NewSolution(model)
	if err != nil {
		fmt.Fprintf(out, "%s build rejected\n", b.id)
		return
	}
	fmt.Fprintf(out, "%s build ok\n", b.id)
	vehicle := sol.Vehicles()[0]
	snapshot := func(step int) {
		var sb strings.Builder
		for _, st := range vehicle.SolutionStops() {
			if st.IsFirst() || st.IsLast() {
				continue
			}
			v := cons.Value(st)
			fmt.Fprintf(&sb, " %d:%s:%d", st.ModelStop().Index(), nomixShow(v.Name), v.Quantity)
		}
		fmt.Fprintf(out, "%s %d route%s\n", b.id, step, sb.String())
	}
	word := func(ok bool, err error) string {
		switch {
		case err != nil:
			return "error"
		case ok:
			return "done"
		default:
			return "notdone"
		}
	}
	for step, op := range ops {
		u, _ := strconv.Atoi(op[1])
		if u < 0 || u >= len(munits) {
			fmt.Fprintf(out, "%s %d out bad\n", b.id, step)
			snapshot(step)
			continue
		}
		unit := sol.SolutionPlanStopsUnit(munits[u])
		switch op[0] {
		case "plan":
			if unit.IsPlanned() {
				fmt.Fprintf(out, "%s %d out skip\n", b.id, step)
				break
			}
			route := vehicle.SolutionStops()
			ss := unit.SolutionStops()
			gaps := make([]int, 0, len(op)-2)
			okGaps := len(op)-2 == len(ss)
			lo := 0
			for _, x := range op[2:] {
				g, _ := strconv.Atoi(x)
				// model gap g = in front of element g of the route without its first stop
				if g < lo || g+1 >= len(route) {
					okGaps = false
				}
				lo = g
				gaps = append(gaps, g+1)
			}
			if !okGaps {
				fmt.Fprintf(out, "%s %d out bad\n", b.id, step)
				break
			}
			sp := make(nextroute.StopPositions, len(ss))
			for i := range ss {
				prev := route[gaps[i]-1]
				if i > 0 && gaps[i-1] == gaps[i] {
					prev = ss[i-1]
				}
				next := route[gaps[i]]
				if i+1 < len(ss) && gaps[i+1] == gaps[i] {
					next = ss[i+1]
				}
				sp[i] = nextroute.VerifStopPosition(prev, ss[i], next)
			}
			mv, err := nextroute.NewMoveStops(unit, sp)
			if err != nil {
				fmt.Fprintf(out, "%s %d out moveerror\n", b.id, step)
				break
			}
			ex := mv.IsExecutable()
			ok, err := mv.Execute(context.Background())
			fmt.Fprintf(out, "%s %d out plan %v %s\n", b.id, step, ex, word(ok, err))
		case "unplan":
			if !unit.IsPlanned() {
				fmt.Fprintf(out, "%s %d out skip\n", b.id, step)
				break
			}
			ok, err := unit.UnPlan()
			fmt.Fprintf(out, "%s %d out unplan %s\n", b.id, step, word(ok, err))
		default:
			fmt.Fprintf(out, "%s %d out bad\n", b.id, step)
		}
		snapshot(step)
	}
	fmt.Fprintf(out, "%s end\n", b.id)
}

func init() {
	commands["nomix"] = func(path string, _ []string) {
		for _, b := range readCases(path) {
			runNomix(b)
		}
	}
}
