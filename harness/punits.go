// punits: the multi-stop plan units factory.NewModel builds from the
// precedence relations of an input (factory/plan_units.go allSequences), in
// model order: one line per unit with the sorted stop indices.
package main

import (
	"encoding/json"
	"fmt"
	"sort"
	"strconv"
	"strings"

	"github.com/nextmv-io/nextroute/factory"
	"github.com/nextmv-io/nextroute/schema"
)

func runPunits(b block) {
	defer func() {
		if r := recover(); r != nil {
			fmt.Fprintf(out, "%s panic %s\n", b.id, strings.ReplaceAll(fmt.Sprint(r), "\n", " "))
		}
	}()
	var raw, rawopts string
	for li, fs := range b.lines {
		switch fs[0] {
		case "json":
			raw = strings.TrimPrefix(b.raw[li], "json ")
		case "gopt":
			rawopts = strings.TrimPrefix(b.raw[li], "gopt ")
		}
	}
	var input schema.Input
	if err := json.Unmarshal([]byte(raw), &input); err != nil {
		fmt.Fprintf(out, "%s decode-error\n", b.id)
		return
	}
	var opts factory.Options
	if err := json.Unmarshal([]byte(rawopts), &opts); err != nil {
		fmt.Fprintf(out, "%s decode-error\n", b.id)
		return
	}
	model, err := factory.NewModel(input, opts)
	if err != nil {
		fmt.Fprintf(out, "%s build-error\n", b.id)
		return
	}
	for _, u := range model.PlanStopsUnits() {
		if len(u.Stops()) < 2 {
			continue
		}
		var idx []int
		for _, st := range u.Stops() {
			idx = append(idx, st.Index())
		}
		sort.Ints(idx)
		ss := make([]string, len(idx))
		for i, x := range idx {
			ss[i] = strconv.Itoa(x)
		}
		arcs := 0
		if dag := u.DirectedAcyclicGraph(); dag != nil {
			arcs = len(dag.Arcs())
		}
		fmt.Fprintf(out, "%s unit %s arcs %d\n", b.id, strings.Join(ss, " "), arcs)
	}
	fmt.Fprintf(out, "%s end\n", b.id)
}

func init() {
	commands["punits"] = func(path string, _ []string) {
		for _, b := range readCases(path) {
			runPunits(b)
		}
	}
}
