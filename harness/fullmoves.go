// fullmoves: C09 on full-feature models (everything factory.NewModel accepts:
// time-dependent matrices, multipliers, duration groups, mixing items,
// alternates, stop groups, initial stops ...).  No model is run against this:
// the lines are judged on their own - a move the engine calls executable
// (best move of the solution, best move of one vehicle, or an explicitly
// constructed move at random positions in an order the sequence generator
// allows) must execute.
//
//	json <input>
//	gopt <options>
//	moves steps=<n> seed=<s>
package main

import (
	"context"
	"encoding/json"
	"fmt"
	"math/rand"
	"strconv"
	"strings"

	"github.com/nextmv-io/nextroute"
	"github.com/nextmv-io/nextroute/factory"
	"github.com/nextmv-io/nextroute/schema"
)

func runFullMoves(b block) {
	defer func() {
		if r := recover(); r != nil {
			fmt.Fprintf(out, "%s panic %s\n", b.id, strings.ReplaceAll(fmt.Sprint(r), "\n", " "))
		}
	}()
	var raw, rawopts string
	kv := map[string]int{"steps": 30, "seed": 1}
	for li, fs := range b.lines {
		switch fs[0] {
		case "json":
			raw = strings.TrimPrefix(b.raw[li], "json ")
		case "gopt":
			rawopts = strings.TrimPrefix(b.raw[li], "gopt ")
		case "moves":
			for _, f := range fs[1:] {
				if k, v, ok := strings.Cut(f, "="); ok {
					kv[k], _ = strconv.Atoi(v)
				}
			}
		}
	}
	var input schema.Input
	if err := json.Unmarshal([]byte(raw), &input); err != nil {
		fmt.Fprintf(out, "%s decode-error\n", b.id)
		return
	}
	var opts factory.Options
	if err := json.Unmarshal([]byte(rawopts), &opts); err != nil {
		fmt.Fprintf(out, "%s decode-error\n", b.id)
		return
	}
	model, err := factory.NewModel(input, opts)
	if err != nil {
		fmt.Fprintf(out, "%s build-error\n", b.id)
		return
	}
	sol, err := nextroute.NewSolution(model)
	if err != nil {
		fmt.Fprintf(out, "%s solution-error\n", b.id)
		return
	}
	fmt.Fprintf(out, "%s build ok\n", b.id)
	rng := rand.New(rand.NewSource(int64(kv["seed"])))
	ctx := context.Background()
	word := func(ok bool, err error) string {
		switch {
		case err != nil:
			return "error " + firstWords(err.Error())
		case ok:
			return "done"
		default:
			return "notdone"
		}
	}
	describe := func(u nextroute.SolutionPlanUnit) string {
		var ids []string
		if su, ok := u.(nextroute.SolutionPlanStopsUnit); ok {
			for _, st := range su.SolutionStops() {
				ids = append(ids, st.ModelStop().ID())
			}
			return "stops[" + strings.Join(ids, ",") + "]"
		}
		if uu, ok := u.(nextroute.SolutionPlanUnitsUnit); ok {
			kind := "all"
			if uu.ModelPlanUnitsUnit().PlanOneOf() {
				kind = "oneof"
			}
			return "units-" + kind
		}
		return "unit"
	}
	for step := 0; step < kv["steps"]; step++ {
		unplanned := sol.UnPlannedPlanUnits().SolutionPlanUnits()
		planned := sol.PlannedPlanUnits().SolutionPlanUnits()
		r := rng.Intn(10)
		switch {
		case len(unplanned) > 0 && r < 3:
			// the best move of the solution
			u := unplanned[rng.Intn(len(unplanned))]
			mv := sol.BestMove(ctx, u)
			ex := mv.IsExecutable()
			ok, err := mv.Execute(ctx)
			fmt.Fprintf(out, "%s %d best %s executable %v result %s\n", b.id, step, describe(u), ex, word(ok, err))
		case len(unplanned) > 0 && r < 5:
			// the best move of one vehicle
			u := unplanned[rng.Intn(len(unplanned))]
			vs := sol.Vehicles()
			v := vs[rng.Intn(len(vs))]
			mv := v.BestMove(ctx, u)
			ex := mv.IsExecutable()
			ok, err := mv.Execute(ctx)
			fmt.Fprintf(out, "%s %d vbest %s executable %v result %s\n", b.id, step, describe(u), ex, word(ok, err))
		case len(unplanned) > 0 && r < 8:
			// an explicit move of a stops unit that is no member of a units unit
			u := unplanned[rng.Intn(len(unplanned))]
			su, isStops := u.(nextroute.SolutionPlanStopsUnit)
			if !isStops {
				fmt.Fprintf(out, "%s %d skip\n", b.id, step)
				continue
			}
			quit := make(chan struct{})
			var order nextroute.SolutionStops
			for sq := range nextroute.SequenceGeneratorChannel(su, quit) {
				order = append(nextroute.SolutionStops{}, sq...)
				break
			}
			close(quit)
			if len(order) == 0 {
				fmt.Fprintf(out, "%s %d skip\n", b.id, step)
				continue
			}
			vs := sol.Vehicles()
			v := vs[rng.Intn(len(vs))]
			route := v.SolutionStops()
			gaps := make([]int, len(order))
			g := 1
			for i := range order {
				g = g + rng.Intn(len(route)-g)
				if rng.Intn(3) == 0 && i > 0 {
					g = gaps[i-1]
				}
				gaps[i] = g
			}
			sp := make(nextroute.StopPositions, len(order))
			for i := range order {
				prev := route[gaps[i]-1]
				if i > 0 && gaps[i-1] == gaps[i] {
					prev = order[i-1]
				}
				next := route[gaps[i]]
				if i+1 < len(order) && gaps[i+1] == gaps[i] {
					next = order[i+1]
				}
				sp[i] = nextroute.VerifStopPosition(prev, order[i], next)
			}
			mv, err := nextroute.NewMoveStops(su, sp)
			if err != nil {
				fmt.Fprintf(out, "%s %d explicit %s moveerror\n", b.id, step, describe(u))
				continue
			}
			ex := mv.IsExecutable()
			ok, err := mv.Execute(ctx)
			fmt.Fprintf(out, "%s %d explicit %s executable %v result %s\n", b.id, step, describe(u), ex, word(ok, err))
		case len(planned) > 0:
			u := planned[rng.Intn(len(planned))]
			ok, err := u.UnPlan()
			fmt.Fprintf(out, "%s %d unplan %s result %s\n", b.id, step, describe(u), word(ok, err))
		default:
			fmt.Fprintf(out, "%s %d skip\n", b.id, step)
		}
	}
	fmt.Fprintf(out, "%s end\n", b.id)
}

func init() {
	commands["fullmoves"] = func(path string, _ []string) {
		for _, b := range readCases(path) {
			runFullMoves(b)
		}
	}
}
