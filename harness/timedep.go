package main

import (
	"fmt"
	"strconv"
	"strings"
	"time"

	"github.com/nextmv-io/nextroute"
)

func errCode(err error) int {
	msg := err.Error()
	switch {
	case strings.Contains(msg, "before model epoch"):
		return 1
	case strings.Contains(msg, "is after end time"):
		return 2
	case strings.Contains(msg, "start time") && strings.Contains(msg, "minute boundary"):
		return 3
	case strings.Contains(msg, "end time") && strings.Contains(msg, "minute boundary"):
		return 4
	case strings.Contains(msg, "negative values"):
		return 5
	case strings.Contains(msg, "too large"):
		return 6
	case strings.Contains(msg, "overlaps"):
		return 7
	}
	return 98
}

func runTimeDep(b block) {
	model, err := nextroute.NewModel()
	if err != nil {
		panic(err)
	}
	epoch := model.Epoch()
	var exprs []nextroute.DurationExpression
	var td nextroute.TimeDependentDurationExpression
	nset, nval := 0, 0
	for _, fs := range b.lines {
		switch fs[0] {
		case "vals":
			for i, s := range fs[1:] {
				v := parseRat(s)
				d := time.Duration(v * 1e9)
				exprs = append(exprs, nextroute.NewConstantDurationExpression(fmt.Sprintf("e%d", i), d))
			}
			td, err = nextroute.NewTimeDependentDurationExpression(model, exprs[0])
			if err != nil {
				fmt.Fprintf(out, "%s new err\n", b.id)
				return
			}
		case "frame":
			s, _ := strconv.ParseInt(fs[1], 10, 64)
			e, _ := strconv.ParseInt(fs[2], 10, 64)
			k, _ := strconv.Atoi(fs[3])
			err := td.SetExpression(epoch.Add(time.Duration(s)*time.Second), epoch.Add(time.Duration(e)*time.Second), exprs[k])
			if err != nil {
				fmt.Fprintf(out, "%s set %d err %d\n", b.id, nset, errCode(err))
			} else {
				fmt.Fprintf(out, "%s set %d ok\n", b.id, nset)
			}
			nset++
		case "dep":
			v := parseRat(fs[1])
			func() {
				defer func() {
					if r := recover(); r != nil {
						fmt.Fprintf(out, "%s val %d panic\n", b.id, nval)
					}
				}()
				r := td.ValueAtValue(v, nil, nil, nil)
				fmt.Fprintf(out, "%s val %d %s\n", b.id, nval, ratOfFloat(r))
			}()
			name := td.ExpressionAtValue(v).Name()
			fmt.Fprintf(out, "%s expr %d %s\n", b.id, nval, strings.TrimPrefix(name, "e"))
			nval++
		}
	}
}
