// copyCheck: a copy must show the same as its original (C11) on full-feature
// models: objective term values re-evaluated on both, scores, per-stop values,
// best-move values of every unplanned unit on every vehicle, and the same
// un-plan applied to both.  Prints one `copydiff` line per difference.
package main

import (
	"context"
	"fmt"
	"math"

	"github.com/nextmv-io/nextroute"
)

func feq(a, b float64) bool {
	if a == b || (math.IsNaN(a) && math.IsNaN(b)) {
		return true
	}
	return math.Abs(a-b) <= 1e-9*math.Max(1, math.Max(math.Abs(a), math.Abs(b)))
}

func copyCheck(id string, model nextroute.Model, orig nextroute.Solution) {
	ctx := context.Background()
	// The solution taken from the channel is itself a copy: whatever Copy loses is already lost in it, and a copy of
	// it would agree.  Refresh every route first: take one single-stop unit off and put it back where it was, so that
	// all per-stop data of the route is recomputed by the engine.
	for _, v := range orig.Vehicles() {
		for _, st := range v.SolutionStops() {
			if st.IsFirst() || st.IsLast() || st.IsFixed() {
				continue
			}
			unit := st.PlanStopsUnit()
			if len(unit.SolutionStops()) != 1 {
				continue
			}
			if _, grouped := unit.ModelPlanUnit().PlanUnitsUnit(); grouped {
				continue
			}
			prev, next := st.Previous(), st.Next()
			before := orig.Score()
			if ok, err := unit.UnPlan(); err != nil || !ok {
				continue
			}
			pos, err := nextroute.NewStopPosition(prev, st, next)
			if err == nil {
				if mv, err := nextroute.VerifNewMoveStopsUnchecked(unit, nextroute.StopPositions{pos}); err == nil {
					if ok, err := mv.Execute(ctx); err != nil || !ok {
						fmt.Fprintf(out, "%s copynote could not put %s back\n", id, st.ModelStop().ID())
						fmt.Fprintf(out, "%s copychecked\n", id)
						return
					}
				}
			}
			if !feq(before, orig.Score()) {
				fmt.Fprintf(out, "%s copynote refresh changed the score %v -> %v\n", id, before, orig.Score())
			}
			break
		}
	}
	cp := orig.Copy()
	diff := func(format string, a ...any) {
		fmt.Fprintf(out, "%s copydiff %s\n", id, fmt.Sprintf(format, a...))
	}
	compare := func(tag string) {
		if !feq(orig.Score(), cp.Score()) {
			diff("%s: Score() original %v copy %v", tag, orig.Score(), cp.Score())
		}
		for _, term := range model.Objective().Terms() {
			o := term.Objective()
			if a, b := o.Value(orig), o.Value(cp); !feq(a, b) {
				diff("%s: objective %v re-evaluated: original %v copy %v", tag, o, a, b)
			}
			if a, b := orig.ObjectiveValue(o), cp.ObjectiveValue(o); !feq(a, b) {
				diff("%s: cached objective %v: original %v copy %v", tag, o, a, b)
			}
		}
		ov, cv := orig.Vehicles(), cp.Vehicles()
		if len(ov) != len(cv) {
			diff("%s: %d vehicles vs %d", tag, len(ov), len(cv))
			return
		}
		for vi := range ov {
			os, cs := ov[vi].SolutionStops(), cv[vi].SolutionStops()
			if len(os) != len(cs) {
				diff("%s: vehicle %d has %d stops, copy %d", tag, vi, len(os), len(cs))
				continue
			}
			for i := range os {
				a, b := os[i], cs[i]
				if a.ModelStop().Index() != b.ModelStop().Index() {
					diff("%s: vehicle %d position %d: stop %s vs %s", tag, vi, i, a.ModelStop().ID(), b.ModelStop().ID())
					continue
				}
				vals := [][2]float64{{a.ArrivalValue(), b.ArrivalValue()}, {a.StartValue(), b.StartValue()}, {a.EndValue(), b.EndValue()},
					{a.TravelDurationValue(), b.TravelDurationValue()}, {a.CumulativeTravelDurationValue(), b.CumulativeTravelDurationValue()}}
				if i > 0 {
					vals = append(vals, [2]float64{nextroute.VerifSlack(a), nextroute.VerifSlack(b)})
				}
				for k, p := range vals {
					if !feq(p[0], p[1]) {
						diff("%s: vehicle %d stop %s value #%d: original %v copy %v", tag, vi, a.ModelStop().ID(), k, p[0], p[1])
					}
				}
			}
		}
		if a, b := orig.PlannedPlanUnits().Size(), cp.PlannedPlanUnits().Size(); a != b {
			diff("%s: planned units %d vs %d", tag, a, b)
		}
		if a, b := orig.UnPlannedPlanUnits().Size(), cp.UnPlannedPlanUnits().Size(); a != b {
			diff("%s: unplanned units %d vs %d", tag, a, b)
		}
	}
	compare("after Copy")
	// best-move values (the minimum is unique even where the chosen position is a random tie-break)
	ou, cu := orig.UnPlannedPlanUnits().SolutionPlanUnits(), cp.UnPlannedPlanUnits().SolutionPlanUnits()
	if len(ou) == len(cu) {
		for k := range ou {
			if k >= 6 {
				break
			}
			// only single-stop units: the search over the orders of a multi-stop unit and over the members of a
			// group samples with the solution's own random source, its result is not a function of the state
			su, ok := ou[k].(nextroute.SolutionPlanStopsUnit)
			if !ok || len(su.SolutionStops()) != 1 {
				continue
			}
			for vi := range orig.Vehicles() {
				ma := orig.Vehicles()[vi].BestMove(ctx, ou[k])
				mb := cp.Vehicles()[vi].BestMove(ctx, cu[k])
				if ma.IsExecutable() != mb.IsExecutable() || (ma.IsExecutable() && !feq(ma.Value(), mb.Value())) {
					diff("best move of unplanned unit %d on vehicle %d: original executable=%v value=%v, copy executable=%v value=%v",
						k, vi, ma.IsExecutable(), ma.Value(), mb.IsExecutable(), mb.Value())
				}
			}
		}
	}
	// the same un-plan on both
	op, cpu := orig.PlannedPlanUnits().SolutionPlanUnits(), cp.PlannedPlanUnits().SolutionPlanUnits()
	if len(op) > 0 && len(op) == len(cpu) {
		ra, ea := op[0].UnPlan()
		rb, eb := cpu[0].UnPlan()
		if ra != rb || (ea == nil) != (eb == nil) {
			diff("UnPlan of the first planned unit: original %v %v copy %v %v", ra, ea, rb, eb)
		}
		compare("after the same UnPlan on both")
	}
	fmt.Fprintf(out, "%s copychecked\n", id)
}

// copyRandomCheck: a copy has random sources of its own (C11: "independent of
// its original").  math/rand state cannot be cloned, so independence is shown
// on twins: two models built from the same input give solutions with the same
// random streams; on one twin the copy's sources (its own, those of its unit
// collections) are drawn from, on the other they are left alone - what the
// ORIGINALS draw afterwards must be the same on both twins; then the other
// direction with a second pair of copies.  A control round without any
// interference comes first: if the twins differ there, nothing is judged.
func copyRandomCheck(id string, build func() (nextroute.Solution, error)) {
	ctx := context.Background()
	drawAll := func(s nextroute.Solution, n int) []int64 {
		var r []int64
		for i := 0; i < n; i++ {
			r = append(r, s.Random().Int63())
			for _, c := range []nextroute.ImmutableSolutionPlanUnitCollection{s.UnPlannedPlanUnits(), s.PlannedPlanUnits()} {
				if c.Size() > 0 {
					r = append(r, int64(c.RandomElement().ModelPlanUnit().Index()))
					for _, u := range c.RandomDraw(2) {
						r = append(r, int64(u.ModelPlanUnit().Index()))
					}
				}
			}
		}
		return r
	}
	same := func(a, b []int64) bool {
		if len(a) != len(b) {
			return false
		}
		for i := range a {
			if a[i] != b[i] {
				return false
			}
		}
		return true
	}
	twin := func() (nextroute.Solution, bool) {
		s, err := build()
		if err != nil {
			return nil, false
		}
		// something in the planned collection: the first units that can be planned
		n := 0
		for _, u := range s.UnPlannedPlanUnits().SolutionPlanUnits() {
			if n >= 3 {
				break
			}
			if mv := s.BestMove(ctx, u); mv.IsExecutable() {
				if ok, err := mv.Execute(ctx); err == nil && ok {
					n++
				}
			}
		}
		return s, true
	}
	for round, interfere := range []bool{false, true} {
		a, ok1 := twin()
		b, ok2 := twin()
		if !ok1 || !ok2 {
			return
		}
		ca, cb := a.Copy(), b.Copy()
		if interfere {
			drawAll(ca, 5)
		}
		da, db := drawAll(a, 4), drawAll(b, 4)
		// second direction: the originals are used (a more than b), fresh copies must draw the same
		ca2, cb2 := a.Copy(), b.Copy()
		if interfere {
			drawAll(a, 5)
		}
		dc, dd := drawAll(ca2, 4), drawAll(cb2, 4)
		_ = cb
		if round == 0 {
			if !same(da, db) || !same(dc, dd) {
				fmt.Fprintf(out, "%s copynote twins differ without interference\n", id)
				return
			}
			continue
		}
		if !same(da, db) {
			fmt.Fprintf(out, "%s copydiff random sources: drawing from a copy (its Random(), RandomElement/RandomDraw of its unit collections) changes what the original draws afterwards: %v vs %v\n", id, da, db)
		}
		if !same(dc, dd) {
			fmt.Fprintf(out, "%s copydiff random sources: drawing from the original changes what a copy made before draws afterwards: %v vs %v\n", id, dc, dd)
		}
	}
	fmt.Fprintf(out, "%s copyrandomchecked\n", id)
}
