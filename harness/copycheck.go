// copyCheck: a copy must show the same as its original (C11) on full-feature
// models: objective term values re-evaluated on both, scores, per-stop values,
// best-move values of every unplanned unit on every vehicle, and the same
// un-plan applied to both.  Prints one `copydiff` line per difference.
package main

import (
	"context"
	"fmt"
	"math"

	"github.com/nextmv-io/nextroute"
)

func feq(a, b float64) bool {
	if a == b || (math.IsNaN(a) && math.IsNaN(b)) {
		return true
	}
	return math.Abs(a-b) <= 1e-9*math.Max(1, math.Max(math.Abs(a), math.Abs(b)))
}

func copyCheck(id string, model nextroute.Model, orig nextroute.Solution) {
	ctx := context.Background()
	// The solution taken from the channel is itself a copy: whatever Copy loses is already lost in it, and a copy of
	// it would agree.  Refresh every route first: take one single-stop unit off and put it back where it was, so that
	// all per-stop data of the route is recomputed by the engine.
	for _, v := range orig.Vehicles() {
		for _, st := range v.SolutionStops() {
			if st.IsFirst() || st.IsLast() || st.IsFixed() {
				continue
			}
			unit := st.PlanStopsUnit()
			if len(unit.SolutionStops()) != 1 {
				continue
			}
			if _, grouped := unit.ModelPlanUnit().PlanUnitsUnit(); grouped {
				continue
			}
			prev, next := st.Previous(), st.Next()
			before := orig.Score()
			if ok, err := unit.UnPlan(); err != nil || !ok {
				continue
			}
			pos, err := nextroute.NewStopPosition(prev, st, next)
			if err == nil {
				if mv, err := nextroute.VerifNewMoveStopsUnchecked(unit, nextroute.StopPositions{pos}); err == nil {
					if ok, err := mv.Execute(ctx); err != nil || !ok {
						fmt.Fprintf(out, "%s copynote could not put %s back\n", id, st.ModelStop().ID())
						fmt.Fprintf(out, "%s copychecked\n", id)
						return
					}
				}
			}
			if !feq(before, orig.Score()) {
				fmt.Fprintf(out, "%s copynote refresh changed the score %v -> %v\n", id, before, orig.Score())
			}
			break
		}
	}
	cp := orig.Copy()
	diff := func(format string, a ...any) {
		fmt.Fprintf(out, "%s copydiff %s\n", id, fmt.Sprintf(format, a...))
	}
	compare := func(tag string) {
		if !feq(orig.Score(), cp.Score()) {
			diff("%s: Score() original %v copy %v", tag, orig.Score(), cp.Score())
		}
		for _, term := range model.Objective().Terms() {
			o := term.Objective()
			if a, b := o.Value(orig), o.Value(cp); !feq(a, b) {
				diff("%s: objective %v re-evaluated: original %v copy %v", tag, o, a, b)
			}
			if a, b := orig.ObjectiveValue(o), cp.ObjectiveValue(o); !feq(a, b) {
				diff("%s: cached objective %v: original %v copy %v", tag, o, a, b)
			}
		}
		ov, cv := orig.Vehicles(), cp.Vehicles()
		if len(ov) != len(cv) {
			diff("%s: %d vehicles vs %d", tag, len(ov), len(cv))
			return
		}
		for vi := range ov {
			os, cs := ov[vi].SolutionStops(), cv[vi].SolutionStops()
			if len(os) != len(cs) {
				diff("%s: vehicle %d has %d stops, copy %d", tag, vi, len(os), len(cs))
				continue
			}
			for i := range os {
				a, b := os[i], cs[i]
				if a.ModelStop().Index() != b.ModelStop().Index() {
					diff("%s: vehicle %d position %d: stop %s vs %s", tag, vi, i, a.ModelStop().ID(), b.ModelStop().ID())
					continue
				}
				vals := [][2]float64{{a.ArrivalValue(), b.ArrivalValue()}, {a.StartValue(), b.StartValue()}, {a.EndValue(), b.EndValue()},
					{a.TravelDurationValue(), b.TravelDurationValue()}, {a.CumulativeTravelDurationValue(), b.CumulativeTravelDurationValue()}}
				if i > 0 {
					vals = append(vals, [2]float64{nextroute.VerifSlack(a), nextroute.VerifSlack(b)})
				}
				for k, p := range vals {
					if !feq(p[0], p[1]) {
						diff("%s: vehicle %d stop %s value #%d: original %v copy %v", tag, vi, a.ModelStop().ID(), k, p[0], p[1])
					}
				}
			}
		}
		if a, b := orig.PlannedPlanUnits().Size(), cp.PlannedPlanUnits().Size(); a != b {
			diff("%s: planned units %d vs %d", tag, a, b)
		}
		if a, b := orig.UnPlannedPlanUnits().Size(), cp.UnPlannedPlanUnits().Size(); a != b {
			diff("%s: unplanned units %d vs %d", tag, a, b)
		}
	}
	compare("after Copy")
	// best-move values (the minimum is unique even where the chosen position is a random tie-break)
	ou, cu := orig.UnPlannedPlanUnits().SolutionPlanUnits(), cp.UnPlannedPlanUnits().SolutionPlanUnits()
	if len(ou) == len(cu) {
		for k := range ou {
			if k >= 6 {
				break
			}
			// only single-stop units: the search over the orders of a multi-stop unit and over the members of a
			// group samples with the solution's own random source, its result is not a function of the state
			su, ok := ou[k].(nextroute.SolutionPlanStopsUnit)
			if !ok || len(su.SolutionStops()) != 1 {
				continue
			}
			for vi := range orig.Vehicles() {
				ma := orig.Vehicles()[vi].BestMove(ctx, ou[k])
				mb := cp.Vehicles()[vi].BestMove(ctx, cu[k])
				if ma.IsExecutable() != mb.IsExecutable() || (ma.IsExecutable() && !feq(ma.Value(), mb.Value())) {
					diff("best move of unplanned unit %d on vehicle %d: original executable=%v value=%v, copy executable=%v value=%v",
						k, vi, ma.IsExecutable(), ma.Value(), mb.IsExecutable(), mb.Value())
				}
			}
		}
	}
	// the same un-plan on both
	op, cpu := orig.PlannedPlanUnits().SolutionPlanUnits(), cp.PlannedPlanUnits().SolutionPlanUnits()
	if len(op) > 0 && len(op) == len(cpu) {
		ra, ea := op[0].UnPlan()
		rb, eb := cpu[0].UnPlan()
		if ra != rb || (ea == nil) != (eb == nil) {
			diff("UnPlan of the first planned unit: original %v %v copy %v %v", ra, ea, rb, eb)
		}
		compare("after the same UnPlan on both")
	}
	fmt.Fprintf(out, "%s copychecked\n", id)
}
