// fullCheck: check.SolutionCheck on solver-made solutions of full-feature
// models (alternates = plan-one-of units, groups, no-mix, windows, ...) for
// C18: at every verbosity the checked solution must show the same before and
// after the check (routes, per-stop values, scores, objective terms, the unit
// collections, IsPlanned of every unit), a unit reported with
// has_plannable_best_move must have been unplanned, and - where the probe is
// exhaustive (a single stop that is no member of a units unit) - must be
// plannable on a copy taken before the check.  One `checkdiff` line per
// difference.
package main

import (
	"context"
	"fmt"
	"sort"
	"strings"
	"time"

	"github.com/nextmv-io/nextroute"
	"github.com/nextmv-io/nextroute/check"
)

func fullSnapshot(model nextroute.Model, s nextroute.Solution) []string {
	var ls []string
	ls = append(ls, fmt.Sprintf("score %v", num(s.Score())))
	for _, term := range model.Objective().Terms() {
		ls = append(ls, fmt.Sprintf("term %v cached %v evaluated %v", term.Objective(), num(s.ObjectiveValue(term.Objective())), num(term.Objective().Value(s))))
	}
	for _, v := range s.Vehicles() {
		var sb strings.Builder
		fmt.Fprintf(&sb, "vehicle %s:", v.ModelVehicle().ID())
		for i, st := range v.SolutionStops() {
			fmt.Fprintf(&sb, " %s[a%v s%v e%v t%v c%v", st.ModelStop().ID(), num(st.ArrivalValue()), num(st.StartValue()), num(st.EndValue()),
				num(st.TravelDurationValue()), num(st.CumulativeTravelDurationValue()))
			if i > 0 {
				fmt.Fprintf(&sb, " k%v", num(nextroute.VerifSlack(st)))
			}
			sb.WriteString("]")
		}
		ls = append(ls, sb.String())
	}
	coll := func(name string, c nextroute.ImmutableSolutionPlanUnitCollection) {
		var idx []int
		for _, u := range c.SolutionPlanUnits() {
			idx = append(idx, u.ModelPlanUnit().Index())
		}
		sort.Ints(idx)
		ls = append(ls, fmt.Sprintf("%s %v", name, idx))
	}
	coll("planned", s.PlannedPlanUnits())
	coll("unplanned", s.UnPlannedPlanUnits())
	coll("fixed", s.FixedPlanUnits())
	for _, mu := range model.PlanUnits() {
		ls = append(ls, fmt.Sprintf("unit %d planned %v", mu.Index(), s.SolutionPlanUnit(mu).IsPlanned()))
	}
	return ls
}

func fullCheck(id string, model nextroute.Model, sol nextroute.Solution) {
	ctx := context.Background()
	// an alternate stop listed by several vehicles has one model stop per vehicle, all with the same id
	stopsByID := map[string][]nextroute.ModelStop{}
	for _, ms := range model.Stops() {
		stopsByID[ms.ID()] = append(stopsByID[ms.ID()], ms)
	}
	for _, verbosity := range []string{"low", "medium", "high"} {
		work := sol.Copy()
		before := work.Copy()
		snapA := fullSnapshot(model, work)
		o, err := check.SolutionCheck(work, check.Options{Duration: 20 * time.Second, Verbosity: verbosity})
		if err != nil {
			fmt.Fprintf(out, "%s checkdiff verbosity %s: error %v\n", id, verbosity, firstWords(err.Error()))
			continue
		}
		if o.Error != nil {
			fmt.Fprintf(out, "%s checkdiff verbosity %s: internal error %s\n", id, verbosity, firstWords(*o.Error))
		}
		snapB := fullSnapshot(model, work)
		for k := range snapA {
			if k >= len(snapB) || snapA[k] != snapB[k] {
				other := "<missing>"
				if k < len(snapB) {
					other = snapB[k]
				}
				fmt.Fprintf(out, "%s checkdiff verbosity %s: check.SolutionCheck altered the checked solution: before {%s} after {%s}\n", id, verbosity, snapA[k], other)
				break
			}
		}
		for _, pu := range o.PlanUnits {
			if !pu.HasPlannableBestMove || len(pu.Stops) == 0 {
				continue
			}
			// the unit the report is about: a candidate per model stop with that id; "already planned" only if every candidate is
			var ms nextroute.ModelStop
			var mu nextroute.ModelPlanUnit
			member, allPlanned, found := false, true, false
			for _, cand := range stopsByID[pu.Stops[0]] {
				if !cand.HasPlanStopsUnit() {
					continue
				}
				var cu nextroute.ModelPlanUnit = cand.PlanStopsUnit()
				_, cm := cand.PlanStopsUnit().PlanUnitsUnit()
				if u, ok := cand.PlanStopsUnit().PlanUnitsUnit(); ok {
					cu = u
				}
				if !found || !before.SolutionPlanUnit(cu).IsPlanned() {
					ms, mu, member = cand, cu, cm
				}
				found = true
				if !before.SolutionPlanUnit(cu).IsPlanned() {
					allPlanned = false
				}
			}
			if !found {
				continue
			}
			if allPlanned {
				fmt.Fprintf(out, "%s checkdiff verbosity %s: has_plannable_best_move reported for unit [%s] which is already planned in the checked solution\n",
					id, verbosity, strings.Join(pu.Stops, ","))
				continue
			}
			if member || ms.PlanStopsUnit().NumberOfStops() != 1 {
				continue
			}
			// a single stop: exhaustive probe on copies taken before the check
			can := false
			probe := before.Copy()
			if ok, err := probe.BestMove(ctx, probe.SolutionPlanUnit(mu)).Execute(ctx); ok && err == nil {
				can = true
			}
			for vi := range before.Vehicles() {
				if can {
					break
				}
				n := len(before.Vehicles()[vi].SolutionStops())
				for g := 1; g < n && !can; g++ {
					p3 := before.Copy()
					su3 := p3.SolutionPlanStopsUnit(ms.PlanStopsUnit())
					route := p3.Vehicles()[vi].SolutionStops()
					pos := nextroute.VerifStopPosition(route[g-1], su3.SolutionStops()[0], route[g])
					if mv, err := nextroute.VerifNewMoveStopsUnchecked(su3, nextroute.StopPositions{pos}); err == nil {
						if ok, err := mv.Execute(ctx); ok && err == nil {
							can = true
						}
					}
				}
			}
			if !can {
				fmt.Fprintf(out, "%s checkdiff verbosity %s: has_plannable_best_move reported for stop %s but no placement of it executes on a copy of the checked solution\n",
					id, verbosity, ms.ID())
			}
		}
	}
	fmt.Fprintf(out, "%s checkchecked\n", id)
}
