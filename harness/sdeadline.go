// sdeadline: the deadline of ONE run of the plain solver (C15).  A skeleton
// solver with an operator that does nothing is given an unlimited iteration
// budget, a duration of a few hundred milliseconds and a parent context that
// has no deadline: the solution channel has to be closed when the duration is
// over, whatever the caller's context is.
//
//	deadline duration_ms=<d> grace_ms=<g>
package main

import (
	"context"
	"fmt"
	"math"
	"strconv"
	"strings"
	"time"

	"github.com/nextmv-io/nextroute"
)

func runSDeadline(b block) {
	kv := map[string]int{"duration_ms": 200, "grace_ms": 2500}
	for _, fs := range b.lines {
		if fs[0] == "deadline" {
			for _, f := range fs[1:] {
				if k, v, ok := strings.Cut(f, "="); ok {
					kv[k], _ = strconv.Atoi(v)
				}
			}
		}
	}
	model, err := sloopModel()
	if err != nil {
		fmt.Fprintf(out, "%s build error %v\n", b.id, err)
		return
	}
	solver, err := nextroute.NewSkeletonSolver(model)
	if err != nil {
		fmt.Fprintf(out, "%s solver error %v\n", b.id, err)
		return
	}
	solver.AddSolveOperators(&noopOperator{})
	parent, cancel := context.WithCancel(context.Background())
	defer cancel()
	start, err := solutionWithScore(parent, model, 100)
	if err != nil {
		fmt.Fprintf(out, "%s start error %v\n", b.id, err)
		return
	}
	d := time.Duration(kv["duration_ms"]) * time.Millisecond
	t0 := time.Now()
	ch, err := solver.Solve(parent, nextroute.SolveOptions{Iterations: math.MaxInt, Duration: d}, start)
	if err != nil {
		fmt.Fprintf(out, "%s solve error %v\n", b.id, err)
		return
	}
	limit := time.NewTimer(d + time.Duration(kv["grace_ms"])*time.Millisecond)
	for {
		select {
		case _, ok := <-ch:
			if !ok {
				late := time.Since(t0) - d
				// the closing time itself is not compared (wall clock), only that it happened within the grace period
				fmt.Fprintf(out, "%s closed within_grace %v\n", b.id, late < time.Duration(kv["grace_ms"])*time.Millisecond)
				return
			}
		case <-limit.C:
			fmt.Fprintf(out, "%s open after duration %dms + grace %dms\n", b.id, kv["duration_ms"], kv["grace_ms"])
			cancel()
			return
		}
	}
}

func init() {
	commands["sdeadline"] = func(path string, _ []string) {
		for _, b := range readCases(path) {
			runSDeadline(b)
		}
	}
}
