// nrharness: runs the nextroute implementation (built from /repo's working
// tree) on case files and prints one canonical line per observation.  The
// extracted Coq model (ocaml/driver) prints the same lines for the same case
// files; bin/check diffs them.
package main

import (
	"bufio"
	"fmt"
	"math/big"
	"os"
	"strings"
)

var out = bufio.NewWriterSize(os.Stdout, 1<<20)

func ratOfFloat(f float64) string {
	r := new(big.Rat)
	if r.SetFloat64(f) == nil {
		return fmt.Sprintf("nonfinite(%v)", f)
	}
	return r.Num().String() + "/" + r.Denom().String()
}

func parseRat(s string) float64 {
	r, ok := new(big.Rat).SetString(s)
	if !ok {
		panic("bad rational " + s)
	}
	f, _ := r.Float64()
	return f
}

// readCases splits a case file into blocks: "case <id>" ... "end".
type block struct {
	id    string
	lines [][]string
	raw   []string
}

func readCases(path string) []block {
	f, err := os.Open(path)
	if err != nil {
		panic(err)
	}
	defer f.Close()
	sc := bufio.NewScanner(f)
	sc.Buffer(make([]byte, 1<<20), 1<<26)
	var blocks []block
	var cur *block
	for sc.Scan() {
		line := strings.TrimSpace(sc.Text())
		if line == "" || strings.HasPrefix(line, "#") {
			continue
		}
		fs := strings.Fields(line)
		switch fs[0] {
		case "case":
			blocks = append(blocks, block{id: fs[1]})
			cur = &blocks[len(blocks)-1]
		case "end":
			cur = nil
		default:
			if cur != nil {
				cur.lines = append(cur.lines, fs)
				cur.raw = append(cur.raw, line)
			}
		}
	}
	return blocks
}

func main() {
	defer out.Flush()
	if len(os.Args) < 3 {
		fmt.Fprintln(os.Stderr, "usage: nrharness <cmd> <casefile> [args]")
		os.Exit(2)
	}
	cmd, path := os.Args[1], os.Args[2]
	switch cmd {
	case "timedep":
		for _, b := range readCases(path) {
			runTimeDep(b)
		}
	case "crash":
		for _, b := range readCases(path) {
			runCrash(b)
		}
	case "solve":
		for _, b := range readCases(path) {
			runSolve(b)
		}
	case "engine":
		for _, b := range readCases(path) {
			runEngine(b)
		}
	default:
		if f, ok := commands[cmd]; ok {
			f(path, os.Args[3:])
			return
		}
		fmt.Fprintln(os.Stderr, "unknown command", cmd)
		os.Exit(2)
	}
}

var commands = map[string]func(path string, args []string){}
