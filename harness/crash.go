package main

import (
	"context"
	"encoding/json"
	"fmt"
	"os"
	"runtime/debug"
	"strconv"
	"strings"
	"sync"
	"time"

	"github.com/nextmv-io/nextroute"
	"github.com/nextmv-io/nextroute/factory"
	"github.com/nextmv-io/nextroute/schema"
	"github.com/nextmv-io/sdk/run"
)

// crash: outcome class of building and solving one JSON input.
//
//	crash iterations=N duration_ms=D runs=R starts=S output=0|1
//
// A panic in a goroutine of the library kills the process: the driver sees a
// "begin" line without an "outcome" line.
func runCrash(b block) {
	var raw, rawopts string
	kv := map[string]int{"iterations": 40, "duration_ms": 1500, "runs": 1, "starts": 1, "output": 0, "copycheck": 0, "checkcheck": 0, "typed": 0}
	for li, fs := range b.lines {
		switch fs[0] {
		case "json":
			raw = strings.TrimPrefix(b.raw[li], "json ")
		case "gopt":
			rawopts = strings.TrimPrefix(b.raw[li], "gopt ")
		case "crash":
			for _, a := range fs[1:] {
				p := strings.SplitN(a, "=", 2)
				v, _ := strconv.Atoi(p[1])
				kv[p[0]] = v
			}
		}
	}
	fmt.Fprintf(out, "%s begin\n", b.id)
	out.Flush()
	outcome := func(s string) {
		fmt.Fprintf(out, "%s outcome %s\n", b.id, s)
		out.Flush()
	}
	defer func() {
		if r := recover(); r != nil {
			if os.Getenv("VERIF_TRACE") != "" {
				debug.PrintStack()
			}
			outcome("panic " + strings.ReplaceAll(fmt.Sprint(r), "\n", " "))
		}
	}()
	var input schema.Input
	if err := json.Unmarshal([]byte(raw), &input); err != nil {
		outcome("decode-error")
		return
	}
	var opts factory.Options
	if err := json.Unmarshal([]byte(rawopts), &opts); err != nil {
		outcome("decode-error options")
		return
	}
	if kv["typed"] == 1 {
		// what a Go program that builds the input itself hands over: typed matrices instead of the []any / map[string]any
		// the JSON decoder leaves in the `any` fields (the factory has separate branches for them)
		if js, err := json.Marshal(input.DurationMatrix); err == nil && input.DurationMatrix != nil {
			var plain [][]float64
			var one schema.TimeDependentMatrix
			var many []schema.TimeDependentMatrix
			switch {
			case json.Unmarshal(js, &plain) == nil && len(plain) > 0:
				input.DurationMatrix = plain
			case json.Unmarshal(js, &many) == nil && len(many) > 0:
				input.DurationMatrix = many
			case json.Unmarshal(js, &one) == nil && len(one.DefaultMatrix) > 0:
				input.DurationMatrix = one
			}
		}
	}
	model, err := factory.NewModel(input, opts)
	if err != nil {
		outcome("build-error " + firstWords(err.Error()))
		return
	}
	if _, err := nextroute.NewSolution(model); err != nil {
		outcome("solution-error " + firstWords(err.Error()))
		return
	}
	solver, err := nextroute.NewParallelSolver(model)
	if err != nil {
		outcome("solver-error " + firstWords(err.Error()))
		return
	}
	so := nextroute.ParallelSolveOptions{
		Iterations: kv["iterations"], Duration: time.Duration(kv["duration_ms"]) * time.Millisecond,
		ParallelRuns: kv["runs"], StartSolutions: kv["starts"], RunDeterministically: true,
	}
	ctx := context.WithValue(context.Background(), run.Start, time.Now())
	ctx = context.WithValue(ctx, run.Data, &sync.Map{})
	ch, err := solver.Solve(ctx, so)
	if err != nil {
		outcome("solve-error " + firstWords(err.Error()))
		return
	}
	n, nerr := 0, 0
	var last nextroute.Solution
	var firstErr string
	timer := time.NewTimer(so.Duration + 20*time.Second)
loop:
	for {
		select {
		case si, ok := <-ch:
			if !ok {
				break loop
			}
			if si.Error != nil {
				nerr++
				if firstErr == "" {
					firstErr = firstWords(si.Error.Error())
				}
				continue
			}
			if si.Solution != nil {
				n++
				last = si.Solution
				if kv["output"] == 2 {
					js, _ := json.Marshal(factory.ToSolutionOutput(si.Solution))
					fmt.Fprintf(out, "%s output %s\n", b.id, js)
				}
			}
		case <-timer.C:
			outcome("hang")
			return
		}
	}
	if kv["copycheck"] == 1 && last != nil {
		copyCheck(b.id, model, last)
		copyRandomCheck(b.id, func() (nextroute.Solution, error) {
			m, err := factory.NewModel(input, opts)
			if err != nil {
				return nil, err
			}
			return nextroute.NewSolution(m)
		})
	}
	if kv["checkcheck"] == 1 && last != nil {
		fullCheck(b.id, model, last)
	}
	if kv["output"] == 1 && last != nil {
		js, _ := json.Marshal(factory.ToSolutionOutput(last))
		fmt.Fprintf(out, "%s output %s\n", b.id, js)
	}
	if nerr > 0 {
		outcome(fmt.Sprintf("engine-error %s", firstErr))
		return
	}
	outcome(fmt.Sprintf("ok solutions %d", n))
}

func firstWords(s string) string {
	s = strings.ReplaceAll(s, "\n", " ")
	if len(s) > 160 {
		s = s[:160]
	}
	return s
}
