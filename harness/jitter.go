// jitterObserver perturbs goroutine timing: it pauses the first copies that
// are taken of a solution for a few milliseconds, by a pattern that differs
// between the repetitions of one solve (C12/C13: repeated identical runs must
// not depend on scheduling).
package main

import (
	"sync/atomic"
	"time"

	"github.com/nextmv-io/nextroute"
)

type jitterObserver struct {
	rep, k int
	count  atomic.Int64
}

func (o *jitterObserver) OnCopySolution(nextroute.Solution) {
	c := int(o.count.Add(1))
	if c > 24 {
		return
	}
	d := ((o.rep + 1) * c * o.k) % 4
	if d > 0 {
		time.Sleep(time.Duration(d) * 3 * time.Millisecond)
	}
}

func (o *jitterObserver) OnNewSolution(nextroute.Model)                                    {}
func (o *jitterObserver) OnNewSolutionCreated(nextroute.Solution)                          {}
func (o *jitterObserver) OnCopiedSolution(nextroute.Solution)                              {}
func (o *jitterObserver) OnCheckConstraint(nextroute.ModelConstraint, nextroute.CheckedAt) {}
func (o *jitterObserver) OnSolutionConstraintChecked(nextroute.ModelConstraint, bool)      {}
func (o *jitterObserver) OnStopConstraintChecked(nextroute.SolutionStop, nextroute.ModelConstraint, bool) {
}
func (o *jitterObserver) OnVehicleConstraintChecked(nextroute.SolutionVehicle, nextroute.ModelConstraint, bool) {
}
func (o *jitterObserver) OnEstimateIsViolated(nextroute.ModelConstraint) {}
func (o *jitterObserver) OnEstimatedIsViolated(nextroute.SolutionMove, nextroute.ModelConstraint, bool, nextroute.StopPositionsHint) {
}
func (o *jitterObserver) OnEstimateDeltaObjectiveScore()                                 {}
func (o *jitterObserver) OnEstimatedDeltaObjectiveScore(float64)                         {}
func (o *jitterObserver) OnBestMove(nextroute.Solution)                                  {}
func (o *jitterObserver) OnBestMoveFound(nextroute.SolutionMove)                         {}
func (o *jitterObserver) OnPlan(nextroute.SolutionMove)                                  {}
func (o *jitterObserver) OnPlanFailed(nextroute.SolutionMove, nextroute.ModelConstraint) {}
func (o *jitterObserver) OnPlanSucceeded(nextroute.SolutionMove)                         {}
