// apicrash: models assembled through the public Go API (not through factory):
// several vehicles SHARING one vehicle type, sparse per-type settings, plan
// sequences, constraints and objectives added term by term.  Same outcome
// protocol as `crash` ("begin", "outcome ...").
//
//	api n=<stops> k=<vehicle types> nv=<vehicles> seq=<2-stop sequences>
//	    cap=<0 none|1 every type|2 only some types> objs=<bits: 1 vehicles duration, 2 travel
//	    duration, 4 unplanned, 8 vehicle activation, 16 min stops> cons=<bits: 1 max duration,
//	    2 max stops, 4 max travel duration, 8 max wait vehicle, 16 attributes> iters=<n> runs=<r>
//	    starts=<s> seed=<s>
package main

import (
	"context"
	"fmt"
	"math/rand"
	"os"
	"strconv"
	"strings"
	"time"

	"github.com/nextmv-io/nextroute"
	"github.com/nextmv-io/nextroute/common"
	"github.com/nextmv-io/sdk/run"
)

func buildAPIModel(kv map[string]int) (nextroute.Model, error) {
	model, err := nextroute.NewModel()
	if err != nil {
		return nil, err
	}
	rng := rand.New(rand.NewSource(int64(kv["seed"])))
	model.SetRandom(rand.New(rand.NewSource(int64(kv["seed"]))))
	service := nextroute.NewStopDurationExpression("service", 0.0)
	requirement := nextroute.NewStopExpression("load", 0.)
	penalty := nextroute.NewStopExpression("unplanned_penalty", 1000.0)
	var stops nextroute.ModelStops
	for i := 0; i < kv["n"]; i++ {
		loc, err := common.NewLocation(7.0+0.01*float64(i%5), 51.0+0.01*float64(i/5))
		if err != nil {
			return nil, err
		}
		st, err := model.NewStop(loc)
		if err != nil {
			return nil, err
		}
		st.SetID("s" + strconv.Itoa(i))
		service.SetDuration(st, time.Duration(rng.Intn(4))*time.Minute)
		if kv["cap"] > 0 {
			if err := requirement.SetValue(st, float64(rng.Intn(5)-2)); err != nil {
				return nil, err
			}
		}
		stops = append(stops, st)
	}
	used := 0
	for q := 0; q < kv["seq"] && used+1 < len(stops); q++ {
		if _, err := model.NewPlanSequence(nextroute.ModelStops{stops[used], stops[used+1]}); err != nil {
			return nil, err
		}
		used += 2
	}
	for ; used < len(stops); used++ {
		if _, err := model.NewPlanSingleStop(stops[used]); err != nil {
			return nil, err
		}
	}
	var types []nextroute.ModelVehicleType
	for t := 0; t < kv["k"]; t++ {
		vt, err := model.NewVehicleType(
			nextroute.NewTimeIndependentDurationExpression(
				nextroute.NewTravelDurationExpression(
					nextroute.NewHaversineExpression(),
					common.NewSpeed(float64(5+5*t), common.MetersPerSecond),
				),
			),
			nextroute.NewDurationExpression("duration", service, common.Second),
		)
		if err != nil {
			return nil, err
		}
		vt.SetID("t" + strconv.Itoa(t))
		types = append(types, vt)
	}
	for v := 0; v < kv["nv"]; v++ {
		loc, err := common.NewLocation(7.1+0.01*float64(v), 51.1)
		if err != nil {
			return nil, err
		}
		depot, err := model.NewStop(loc)
		if err != nil {
			return nil, err
		}
		depot.SetID("d" + strconv.Itoa(v))
		vh, err := model.NewVehicle(types[v%len(types)], model.Epoch(), depot, depot)
		if err != nil {
			return nil, err
		}
		vh.SetID("v" + strconv.Itoa(v))
	}
	sparse := func(t int) bool { return kv["cap"] != 2 || t%2 == 0 }
	if kv["cap"] > 0 {
		limit := nextroute.NewVehicleTypeValueExpression("capacity", 100.)
		for t, vt := range types {
			if sparse(t) {
				if err := limit.SetValue(vt, float64(2+rng.Intn(4))); err != nil {
					return nil, err
				}
			}
		}
		mx, err := nextroute.NewMaximum(requirement, limit)
		if err != nil {
			return nil, err
		}
		if err := model.AddConstraint(mx); err != nil {
			return nil, err
		}
	}
	durExpr := func(name string, base time.Duration) nextroute.VehicleTypeDurationExpression {
		e := nextroute.NewVehicleTypeDurationExpression(name, 24*time.Hour)
		for t, vt := range types {
			if t%2 == 0 {
				e.SetDuration(vt, base*time.Duration(1+t))
			}
		}
		return e
	}
	cons := kv["cons"]
	if cons&1 != 0 {
		c, err := nextroute.NewMaximumDurationConstraint(durExpr("max_duration", 40*time.Minute))
		if err != nil {
			return nil, err
		}
		if err := model.AddConstraint(c); err != nil {
			return nil, err
		}
	}
	if cons&2 != 0 {
		e := nextroute.NewVehicleTypeValueExpression("max_stops", 1000)
		for t, vt := range types {
			if t%2 == 1 {
				_ = e.SetValue(vt, float64(1+rng.Intn(3)))
			}
		}
		c, err := nextroute.NewMaximumStopsConstraint(e)
		if err != nil {
			return nil, err
		}
		if err := model.AddConstraint(c); err != nil {
			return nil, err
		}
	}
	if cons&4 != 0 {
		c, err := nextroute.NewMaximumTravelDurationConstraint(durExpr("max_travel", 20*time.Minute))
		if err != nil {
			return nil, err
		}
		if err := model.AddConstraint(c); err != nil {
			return nil, err
		}
	}
	if cons&8 != 0 {
		c, err := nextroute.NewMaximumWaitVehicleConstraint(durExpr("max_wait", 5*time.Minute))
		if err != nil {
			return nil, err
		}
		if err := model.AddConstraint(c); err != nil {
			return nil, err
		}
	}
	if cons&16 != 0 {
		c, err := nextroute.NewAttributesConstraint()
		if err != nil {
			return nil, err
		}
		for i, st := range stops {
			if i%3 == 0 {
				c.SetStopAttributes(st, []string{"a" + strconv.Itoa(i%2)})
			}
		}
		for t, vt := range types {
			if t%2 == 0 {
				c.SetVehicleTypeAttributes(vt, []string{"a0", "a1"})
			}
		}
		if err := model.AddConstraint(c); err != nil {
			return nil, err
		}
	}
	objs := kv["objs"]
	if objs&1 != 0 {
		if _, err := model.Objective().NewTerm(1.0, nextroute.NewVehiclesDurationObjective()); err != nil {
			return nil, err
		}
	}
	if objs&2 != 0 {
		if _, err := model.Objective().NewTerm(1.0, nextroute.NewTravelDurationObjective()); err != nil {
			return nil, err
		}
	}
	if objs&4 != 0 {
		if _, err := model.Objective().NewTerm(1.0, nextroute.NewUnPlannedObjective(penalty)); err != nil {
			return nil, err
		}
	}
	if objs&8 != 0 {
		e := nextroute.NewVehicleTypeValueExpression("activation", 0)
		for t, vt := range types {
			if t%2 == 1 {
				_ = e.SetValue(vt, 500)
			}
		}
		if _, err := model.Objective().NewTerm(1.0, nextroute.NewVehiclesObjective(e)); err != nil {
			return nil, err
		}
	}
	if objs&16 != 0 {
		ms := nextroute.NewVehicleTypeValueExpression("min_stops", 0)
		mp := nextroute.NewVehicleTypeValueExpression("min_stops_penalty", 0)
		for t, vt := range types {
			if t%2 == 0 {
				_ = ms.SetValue(vt, 2)
				_ = mp.SetValue(vt, 10)
			}
		}
		if _, err := model.Objective().NewTerm(1.0, nextroute.NewMinStopsObjective(ms, mp)); err != nil {
			return nil, err
		}
	}
	return model, nil
}

func runAPICrash(b block) {
	fmt.Fprintf(out, "%s begin\n", b.id)
	out.Flush()
	kv := map[string]int{"n": 6, "k": 1, "nv": 2, "seq": 0, "cap": 0, "objs": 7, "cons": 0, "iters": 40, "runs": 1, "starts": 1, "seed": 1}
	for _, fs := range b.lines {
		if fs[0] != "api" {
			continue
		}
		for _, a := range fs[1:] {
			p := strings.SplitN(a, "=", 2)
			v, _ := strconv.Atoi(p[1])
			kv[p[0]] = v
		}
	}
	outcome := func(s string) {
		fmt.Fprintf(out, "%s outcome %s\n", b.id, s)
		out.Flush()
	}
	defer func() {
		if r := recover(); r != nil {
			outcome(fmt.Sprintf("panic %v", r))
		}
	}()
	model, err := buildAPIModel(kv)
	if err != nil {
		outcome("build-error " + strings.ReplaceAll(err.Error(), "\n", " "))
		return
	}
	if _, err := nextroute.NewSolution(model); err != nil {
		outcome("solution-error " + strings.ReplaceAll(err.Error(), "\n", " "))
		return
	}
	solver, err := nextroute.NewParallelSolver(model)
	if err != nil {
		outcome("solver-error " + err.Error())
		return
	}
	ctx, cancel := context.WithTimeout(context.WithValue(context.Background(), run.Start, time.Now()), 30*time.Second)
	defer cancel()
	ch, err := solver.Solve(ctx, nextroute.ParallelSolveOptions{Iterations: kv["iters"], Duration: 2 * time.Second,
		ParallelRuns: kv["runs"], StartSolutions: kv["starts"], RunDeterministically: true})
	if err != nil {
		outcome("solve-error " + err.Error())
		return
	}
	n := 0
	for si := range ch {
		if si.Error != nil {
			outcome("engine-error " + strings.ReplaceAll(si.Error.Error(), "\n", " "))
			return
		}
		n++
	}
	outcome(fmt.Sprintf("ok solutions %d", n))
}

func init() {
	commands["apicrash"] = func(path string, _ []string) {
		for _, b := range readCases(path) {
			runAPICrash(b)
		}
		_ = os.Stdout
	}
}
