// holdback: deterministic parallel mode under forced schedules (C13).  One
// input is solved several times with run_deterministically: once undisturbed
// and once per run k = 1..maxhold with the worker goroutine of run k held back
// (a sleep in the public StartSolver event) before it starts iterating.  Every
// run gets the same fixed number of iterations (constant options factory), and
// every inner solver lingers a moment after its last iteration (Done event) so
// that the known window at the end of a cycle - the aggregator has not yet
// published what the last worker forwarded (finding C13-barrier) - stays
// closed: what remains must not depend on which worker was slow.
//
//	json <input>
//	gopt <options>
//	hold runs=<parallel runs> starts=<start solutions> per=<iterations per run> iterations=<total>
//	     linger_ms=<n> hold_ms=<n> maxhold=<k>
package main

import (
	"context"
	"encoding/json"
	"fmt"
	"hash/fnv"
	"strconv"
	"strings"
	"time"

	"github.com/nextmv-io/nextroute"
	"github.com/nextmv-io/nextroute/factory"
	"github.com/nextmv-io/nextroute/schema"
	"github.com/nextmv-io/sdk/run"
)

func runHoldback(b block) {
	defer func() {
		if r := recover(); r != nil {
			fmt.Fprintf(out, "%s panic %s\n", b.id, strings.ReplaceAll(fmt.Sprint(r), "\n", " "))
		}
	}()
	var raw, rawopts string
	kv := map[string]int{"runs": 2, "starts": 4, "per": 40, "iterations": 400, "linger_ms": 60, "hold_ms": 300, "maxhold": 4}
	for li, fs := range b.lines {
		switch fs[0] {
		case "json":
			raw = strings.TrimPrefix(b.raw[li], "json ")
		case "gopt":
			rawopts = strings.TrimPrefix(b.raw[li], "gopt ")
		case "hold":
			for _, f := range fs[1:] {
				if k, v, ok := strings.Cut(f, "="); ok {
					kv[k], _ = strconv.Atoi(v)
				}
			}
		}
	}
	var input schema.Input
	if err := json.Unmarshal([]byte(raw), &input); err != nil {
		fmt.Fprintf(out, "%s decode-error\n", b.id)
		return
	}
	var opts factory.Options
	if err := json.Unmarshal([]byte(rawopts), &opts); err != nil {
		fmt.Fprintf(out, "%s decode-error\n", b.id)
		return
	}
	solve := func(hold int) (string, error) {
		// a fresh model per solve: every solve starts from the same random state
		model, err := factory.NewModel(input, opts)
		if err != nil {
			return "", fmt.Errorf("build-error")
		}
		solver, err := nextroute.NewParallelSolver(model)
		if err != nil {
			return "", err
		}
		solver.SetSolveOptionsFactory(func(nextroute.ParallelSolveInformation) (nextroute.SolveOptions, error) {
			return nextroute.SolveOptions{Iterations: kv["per"], Duration: time.Minute}, nil
		})
		solver.ParallelSolveEvents().StartSolver.Register(
			func(info nextroute.ParallelSolveInformation, _ nextroute.Solver, _ nextroute.SolveOptions, _ nextroute.Solution) {
				if hold > 0 && info.Run() == hold {
					time.Sleep(time.Duration(kv["hold_ms"]) * time.Millisecond)
				}
			})
		solver.SolveEvents().Done.Register(func(nextroute.SolveInformation) {
			time.Sleep(time.Duration(kv["linger_ms"]) * time.Millisecond)
		})
		ctx := context.WithValue(context.Background(), run.Start, time.Now())
		solutions, err := solver.Solve(ctx, nextroute.ParallelSolveOptions{
			Iterations: kv["iterations"], Duration: 2 * time.Minute, ParallelRuns: kv["runs"],
			StartSolutions: kv["starts"], RunDeterministically: true,
		})
		if err != nil {
			return "", err
		}
		last, err := solutions.Last()
		if err != nil || last == nil {
			return "", fmt.Errorf("no solution %v", err)
		}
		h := fnv.New64a()
		for _, v := range last.Vehicles() {
			fmt.Fprintf(h, "%s:", v.ModelVehicle().ID())
			for _, st := range v.SolutionStops() {
				fmt.Fprintf(h, " %s", st.ModelStop().ID())
			}
		}
		return fmt.Sprintf("%s %x", num(last.Score()), h.Sum64()), nil
	}
	ref, err := solve(0)
	if err != nil {
		fmt.Fprintf(out, "%s %s\n", b.id, firstWords(err.Error()))
		return
	}
	fmt.Fprintf(out, "%s ref %s\n", b.id, ref)
	for k := 0; k <= kv["maxhold"]; k++ {
		r, err := solve(k)
		if err != nil {
			fmt.Fprintf(out, "%s hold %d error %s\n", b.id, k, firstWords(err.Error()))
			continue
		}
		fmt.Fprintf(out, "%s hold %d %s same %v\n", b.id, k, r, r == ref)
	}
	fmt.Fprintf(out, "%s end\n", b.id)
}

func init() {
	commands["holdback"] = func(path string, _ []string) {
		for _, b := range readCases(path) {
			runHoldback(b)
		}
	}
}
