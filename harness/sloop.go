// sloop / aloop: the real solver loops driven by scripted operators.
//
// sloop: nextroute.NewSkeletonSolver with ONE scripted operator.  The model has
// K single stops at one location, one vehicle, and only the unplanned penalty
// in the objective with penalties 1, 2, 4, ...: a solution's score is the sum
// of the penalties of its unplanned stops, so every score in [0, 2^K) is
// realised by exactly one set of planned stops.  Each "exec" line scripts one
// operator invocation of Model/SolverLoop.v (sexec): the Solver.Reset calls it
// makes, the score it leaves the work solution with, and its
// CanResultInImprovement answer.  Output: the scores sent on the channel, the
// best and the work score at the end.
//
//	start <score>
//	exec <can_improve 0|1> <work score> [reset scores...]
//
// ploop: nextroute.NewSkeletonParallelSolver with scripted factories: run r is
// handed allot[(r-1) mod len] iterations by the options factory, its solver is a
// skeleton solver with a no-op operator (it performs exactly the iterations it
// was granted).  Observables: the iterations granted to each started solver
// (StartSolver event, sorted), the iterations counted at the End event and in
// run.Data, the number of solutions delivered, channel closed.
// Model/SolverLoop.v pstep (AGrab: the three-way budget branch) on the
// canonical sequential schedule.
//
//	popts <iterations> <runs> <det 0|1>
//	allot a0 a1 ...
package main

import (
	"context"
	"encoding/json"
	"fmt"
	"sort"
	"strconv"
	"strings"
	"sync"
	"sync/atomic"
	"time"

	"github.com/nextmv-io/nextroute"
	"github.com/nextmv-io/nextroute/factory"
	"github.com/nextmv-io/nextroute/schema"
	"github.com/nextmv-io/sdk/run"
)

const sloopK = 10

func sloopModel() (nextroute.Model, error) {
	var sb strings.Builder
	sb.WriteString(`{"stops":[`)
	for i := 0; i < sloopK; i++ {
		if i > 0 {
			sb.WriteString(",")
		}
		fmt.Fprintf(&sb, `{"id":"s%d","location":{"lon":7.0,"lat":51.0},"unplanned_penalty":%d}`, i, 1<<i)
	}
	sb.WriteString(`],"vehicles":[{"id":"v0","start_location":{"lon":7.0,"lat":51.0},"end_location":{"lon":7.0,"lat":51.0},"speed":10}]}`)
	var input schema.Input
	if err := json.Unmarshal([]byte(sb.String()), &input); err != nil {
		return nil, err
	}
	var opts factory.Options
	opts.Objectives.UnplannedPenalty = 1.0
	opts.Validate.Enable.MatrixAsymmetryTolerance = 20
	return factory.NewModel(input, opts)
}

// setScore plans / un-plans single stops of sol until its score is x.
func setScore(ctx context.Context, sol nextroute.Solution, x int) error {
	for i, ms := range sol.Model().Stops() {
		if i >= sloopK {
			break
		}
		st := sol.SolutionStop(ms)
		unit := st.PlanStopsUnit()
		wantPlanned := x&(1<<i) == 0
		if wantPlanned && !unit.IsPlanned() {
			mv := sol.Vehicles()[0].BestMove(ctx, unit)
			ok, err := mv.Execute(ctx)
			if err != nil || !ok {
				return fmt.Errorf("cannot plan s%d: %v %v", i, ok, err)
			}
		} else if !wantPlanned && unit.IsPlanned() {
			ok, err := unit.UnPlan()
			if err != nil || !ok {
				return fmt.Errorf("cannot unplan s%d: %v %v", i, ok, err)
			}
		}
	}
	if int(sol.Score()) != x {
		return fmt.Errorf("score %v, wanted %d", sol.Score(), x)
	}
	return nil
}

func solutionWithScore(ctx context.Context, model nextroute.Model, x int) (nextroute.Solution, error) {
	sol, err := nextroute.NewSolution(model)
	if err != nil {
		return nil, err
	}
	return sol, setScore(ctx, sol, x)
}

type scriptedExec struct {
	canImprove bool
	work       int
	resets     []int
}

type scriptedOperator struct {
	execs []scriptedExec
	next  int
	cur   int
	err   error
}

func (o *scriptedOperator) CanResultInImprovement() bool {
	if o.cur < 0 {
		return true // asked once by Solve before the first iteration
	}
	return o.execs[o.cur].canImprove
}

func (o *scriptedOperator) Execute(ctx context.Context, info nextroute.SolveInformation) error {
	if o.next >= len(o.execs) {
		return nil
	}
	o.cur = o.next
	o.next++
	e := o.execs[o.cur]
	for _, r := range e.resets {
		if r < 0 {
			// what the restart operator does: reset to the solver's own best solution
			info.Solver().Reset(info.Solver().BestSolution(), info)
			continue
		}
		sol, err := solutionWithScore(ctx, info.Solver().Model(), r)
		if err != nil {
			o.err = err
			return err
		}
		info.Solver().Reset(sol, info)
	}
	if err := setScore(ctx, info.Solver().WorkSolution(), e.work); err != nil {
		o.err = err
		return err
	}
	return nil
}

func (o *scriptedOperator) Probability() float64                  { return 1.0 }
func (o *scriptedOperator) SetProbability(float64) error          { return nil }
func (o *scriptedOperator) Parameters() nextroute.SolveParameters { return nextroute.SolveParameters{} }

func runSloop(b block) {
	defer func() {
		if r := recover(); r != nil {
			fmt.Fprintf(out, "%s PANIC %v\n", b.id, r)
		}
	}()
	ctx := context.Background()
	model, err := sloopModel()
	if err != nil {
		fmt.Fprintf(out, "%s build error %v\n", b.id, err)
		return
	}
	start := 0
	stall := false
	op := &scriptedOperator{cur: -1}
	for _, fs := range b.lines {
		switch fs[0] {
		case "stall":
			// the consumer does not read before the solver has stopped making progress (done, or blocked on its full channel)
			stall = true
		case "start":
			start, _ = strconv.Atoi(fs[1])
		case "exec":
			e := scriptedExec{canImprove: fs[1] == "1"}
			e.work, _ = strconv.Atoi(fs[2])
			for _, x := range fs[3:] {
				if strings.HasPrefix(x, "b") {
					e.resets = append(e.resets, -1) // b<score>: reset to the best solution (the score is for the model side)
					continue
				}
				r, _ := strconv.Atoi(x)
				e.resets = append(e.resets, r)
			}
			op.execs = append(op.execs, e)
		}
	}
	solver, err := nextroute.NewSkeletonSolver(model)
	if err != nil {
		fmt.Fprintf(out, "%s solver error %v\n", b.id, err)
		return
	}
	solver.AddSolveOperators(op)
	startSol, err := solutionWithScore(ctx, model, start)
	if err != nil {
		fmt.Fprintf(out, "%s start error %v\n", b.id, err)
		return
	}
	var progress atomic.Int64
	solver.SolveEvents().Iterated.Register(func(nextroute.SolveInformation) { progress.Add(1) })
	ch, err := solver.Solve(ctx, nextroute.SolveOptions{Iterations: len(op.execs), Duration: time.Minute}, startSol)
	if err != nil {
		fmt.Fprintf(out, "%s solve error %v\n", b.id, err)
		return
	}
	if stall {
		last, still := int64(-1), 0
		for still < 6 {
			time.Sleep(25 * time.Millisecond)
			if p := progress.Load(); p == last {
				still++
			} else {
				last, still = p, 0
			}
		}
	}
	var sent []string
	for si := range ch {
		if si.Error != nil {
			fmt.Fprintf(out, "%s channel error %v\n", b.id, si.Error)
			return
		}
		sent = append(sent, strconv.Itoa(int(si.Solution.Score())))
	}
	fmt.Fprintf(out, "%s sent %s\n", b.id, strings.Join(sent, " "))
	fmt.Fprintf(out, "%s best %d\n", b.id, int(solver.BestSolution().Score()))
	fmt.Fprintf(out, "%s work %d\n", b.id, int(solver.WorkSolution().Score()))
}

type noopOperator struct{}

func (o *noopOperator) CanResultInImprovement() bool                              { return true }
func (o *noopOperator) Execute(context.Context, nextroute.SolveInformation) error { return nil }
func (o *noopOperator) Probability() float64                                      { return 1.0 }
func (o *noopOperator) SetProbability(float64) error                              { return nil }
func (o *noopOperator) Parameters() nextroute.SolveParameters                     { return nextroute.SolveParameters{} }

func runPloop(b block) {
	defer func() {
		if r := recover(); r != nil {
			fmt.Fprintf(out, "%s PANIC %v\n", b.id, r)
		}
	}()
	model, err := sloopModel()
	if err != nil {
		fmt.Fprintf(out, "%s build error %v\n", b.id, err)
		return
	}
	iterations, runs, det := 1, 1, false
	var allot []int
	for _, fs := range b.lines {
		switch fs[0] {
		case "popts":
			iterations, _ = strconv.Atoi(fs[1])
			runs, _ = strconv.Atoi(fs[2])
			det = fs[3] == "1"
		case "allot":
			for _, x := range fs[1:] {
				a, _ := strconv.Atoi(x)
				allot = append(allot, a)
			}
		}
	}
	ps, err := nextroute.NewSkeletonParallelSolver(model)
	if err != nil {
		fmt.Fprintf(out, "%s solver error %v\n", b.id, err)
		return
	}
	ps.SetSolverFactory(func(_ nextroute.ParallelSolveInformation, _ nextroute.Solution) (nextroute.Solver, error) {
		sv, err := nextroute.NewSkeletonSolver(model)
		if err != nil {
			return nil, err
		}
		sv.AddSolveOperators(&noopOperator{})
		return sv, nil
	})
	ps.SetSolveOptionsFactory(func(info nextroute.ParallelSolveInformation) (nextroute.SolveOptions, error) {
		return nextroute.SolveOptions{Iterations: allot[(info.Run()-1)%len(allot)], Duration: time.Minute}, nil
	})
	var mu sync.Mutex
	var grants []int
	ended := -1
	ps.ParallelSolveEvents().StartSolver.Register(func(_ nextroute.ParallelSolveInformation, _ nextroute.Solver, opt nextroute.SolveOptions, _ nextroute.Solution) {
		mu.Lock()
		grants = append(grants, opt.Iterations)
		mu.Unlock()
	})
	ps.ParallelSolveEvents().End.Register(func(_ nextroute.ParallelSolver, it int, _ nextroute.Solution) {
		mu.Lock()
		ended = it
		mu.Unlock()
	})
	data := &sync.Map{}
	ctx := context.WithValue(context.Background(), run.Data, data)
	ch, err := ps.Solve(ctx, nextroute.ParallelSolveOptions{Iterations: iterations, Duration: 20 * time.Second, ParallelRuns: runs,
		StartSolutions: 0, RunDeterministically: det})
	if err != nil {
		fmt.Fprintf(out, "%s solve error %v\n", b.id, err)
		return
	}
	nsol := 0
	done := make(chan struct{})
	go func() {
		for range ch {
			nsol++
		}
		close(done)
	}()
	select {
	case <-done:
	case <-time.After(40 * time.Second):
		fmt.Fprintf(out, "%s HANG channel not closed\n", b.id)
		return
	}
	// the End event fires right after the channel is closed
	for i := 0; i < 200; i++ {
		mu.Lock()
		e := ended
		mu.Unlock()
		if e >= 0 {
			break
		}
		time.Sleep(5 * time.Millisecond)
	}
	mu.Lock()
	defer mu.Unlock()
	sort.Ints(grants)
	gs := make([]string, len(grants))
	for i, g := range grants {
		gs[i] = strconv.Itoa(g)
	}
	fmt.Fprintf(out, "%s grants %s\n", b.id, strings.Join(gs, " "))
	fmt.Fprintf(out, "%s total %d\n", b.id, ended)
	rep := -1
	if v, ok := data.Load(nextroute.Iterations); ok {
		rep, _ = v.(int)
	}
	fmt.Fprintf(out, "%s reported %d\n", b.id, rep)
	fmt.Fprintf(out, "%s solutions %d\n", b.id, nsol)
}

// aloop: the real parallel solver handed K scripted START SOLUTIONS (scores) and a budget of exactly K runs of
// a iterations each (one run at a time, deterministic mode): run r pops start solution K-r and its scripted
// operator leaves the listed work scores.  Observable: the scores delivered on the result channel.
// Model: ainit / arecv over the concatenation of the runs' srun outputs.
//
//	astarts s0 s1 ... ; arun w1 w2 ... (one line per run, in run order)
func runAloop(b block) {
	defer func() {
		if r := recover(); r != nil {
			fmt.Fprintf(out, "%s PANIC %v\n", b.id, r)
		}
	}()
	ctx := context.Background()
	model, err := sloopModel()
	if err != nil {
		fmt.Fprintf(out, "%s build error %v\n", b.id, err)
		return
	}
	var starts []int
	var runsW [][]int
	for _, fs := range b.lines {
		var l []int
		for _, x := range fs[1:] {
			v, _ := strconv.Atoi(x)
			l = append(l, v)
		}
		switch fs[0] {
		case "astarts":
			starts = l
		case "arun":
			runsW = append(runsW, l)
		}
	}
	a := 1
	for _, l := range runsW {
		if len(l) > a {
			a = len(l)
		}
	}
	ps, err := nextroute.NewSkeletonParallelSolver(model)
	if err != nil {
		fmt.Fprintf(out, "%s solver error %v\n", b.id, err)
		return
	}
	ps.SetSolverFactory(func(info nextroute.ParallelSolveInformation, _ nextroute.Solution) (nextroute.Solver, error) {
		sv, err := nextroute.NewSkeletonSolver(model)
		if err != nil {
			return nil, err
		}
		op := &scriptedOperator{cur: -1}
		if r := info.Run() - 1; r >= 0 && r < len(runsW) {
			for _, w := range runsW[r] {
				op.execs = append(op.execs, scriptedExec{canImprove: true, work: w})
			}
		}
		sv.AddSolveOperators(op)
		return sv, nil
	})
	ps.SetSolveOptionsFactory(func(nextroute.ParallelSolveInformation) (nextroute.SolveOptions, error) {
		return nextroute.SolveOptions{Iterations: a, Duration: time.Minute}, nil
	})
	var sols []nextroute.Solution
	for _, x := range starts {
		sol, err := solutionWithScore(ctx, model, x)
		if err != nil {
			fmt.Fprintf(out, "%s start error %v\n", b.id, err)
			return
		}
		sols = append(sols, sol)
	}
	ch, err := ps.Solve(ctx, nextroute.ParallelSolveOptions{Iterations: a * len(runsW), Duration: 20 * time.Second, ParallelRuns: 1,
		StartSolutions: 0, RunDeterministically: true}, sols...)
	if err != nil {
		fmt.Fprintf(out, "%s solve error %v\n", b.id, err)
		return
	}
	var sent []string
	for si := range ch {
		if si.Error != nil {
			fmt.Fprintf(out, "%s channel error %v\n", b.id, si.Error)
			return
		}
		sent = append(sent, strconv.Itoa(int(si.Solution.Score())))
	}
	fmt.Fprintf(out, "%s delivered %s\n", b.id, strings.Join(sent, " "))
}

func init() {
	commands["aloop"] = func(path string, _ []string) {
		for _, b := range readCases(path) {
			runAloop(b)
		}
	}
	commands["ploop"] = func(path string, _ []string) {
		for _, b := range readCases(path) {
			runPloop(b)
		}
	}
	commands["sloop"] = func(path string, _ []string) {
		for _, b := range readCases(path) {
			runSloop(b)
		}
	}
}
