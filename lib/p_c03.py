"""C03 - see DESIGN.md section 6.  Proof: coq/Props/C03.v; tie: engine
correspondence; search: oracle ['C03'] on the implementation's snapshots."""
import engine_props


def run(tier, seed, replay=None):
    return engine_props.run("C03", tier, seed, ['C03'], "exactly-once, unit wholeness and order", check_c07=False, solver_feats={"precedence": True})
