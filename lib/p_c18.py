"""C18 - nextcheck never alters the solution and reports truthfully.

Proof: coq/Props/C18.v (execute-then-unplan is the identity on observables for
every reachable state and every executable move; the unplan cannot fail).
Tie: check.SolutionCheck at each verbosity on states of generated histories:
the snapshot after the check must equal the model's (unchanged) state; units
reported plannable are re-planned on a copy taken before the check."""
import random

import engine_corr as E
import framework as FW
import gen_engine as G

PID = "C18"


# (duration groups: taking a member of a duration group out makes the next member pay the group's duration - a removal that
# delays what follows is not "safe")
SAFE = {"groups": True, "initial": False, "capacity": False, "nonmetric": False, "maxwait_stop": False, "maxwait_veh": False,
        "maxdist": False, "dgroups": False}


def nested_checks(chk, tier, seed):
    """check.SolutionCheck on models with stop groups and user constraints whose estimate is optimistic
    (the check then executes best moves that fail).  Removal-safe models only: no constraint can be violated by
    taking a stop out, so the group un-planning findings N1-N4 cannot interfere; histories that went through a
    rejected group move or a group un-plan before the check are left out (N5, N7)."""
    rng = random.Random(seed * 1009 + 1818)
    n = 500 if tier == "quick" else 8000
    cases = []
    for i in range(n):
        m = G.gen_model(rng, "small", dict(SAFE, user=rng.random() < 0.7))
        ops = G.gen_ops(rng, m, rng.randint(0, 8), "checked_only")[:-1] + ["op q_check %s" % rng.choice(["low", "medium", "high"])]
        cases.append({"id": str(i), "model": m, "ops": ops})
    res, st = E.run_cases(cases, "c18n_" + tier, timeout=3000)
    chk.ob("nested: harness and model runner exit normally", st[0] == 0 and st[2] == 0, (st[1] + st[3])[-300:])
    used = tainted = failed_moves = 0
    for r in res:
        ops = r["case"]["ops"]
        tg, taint = {}, False
        for l in r["impl"]:
            f = l.split()
            if len(f) >= 3 and f[1] == "target" and f[0].isdigit():
                tg[int(f[0])] = int(f[2])
            if len(f) >= 3 and f[1] == "result" and f[0].isdigit():
                k = int(f[0])
                op = ops[k - 1].split()[1]
                grp = tg.get(k, 0) >= 1000
                if op in ("munplanr", "vunplanr") or (op == "unplanr" and grp) or (op in ("planr", "plancr") and grp and f[2] != "done"):
                    taint = True
        if taint:
            tainted += 1
            continue
        used += 1
        mf = 0
        for l in r["q_impl"]:
            f = l.split()
            if f[3] == "summary":
                mf = int(f[5])
            if f[3] in ("error", "internal-error"):
                chk.violation({"kind": "history", "what": "check returned an error: " + " ".join(f[3:])[:200],
                               "case": G.case_lines(r["case"]["model"], ops)})
        failed_moves += 1 if mf else 0
        for l in r["q_impl"]:
            f = l.split()
            if f[3] == "unit" and f[6] == "true" and f[10] == "false":
                chk.violation({"kind": "history", "what": "unit %s reported plannable (best_move_failed %s) but no placement of it executes on a copy of the checked solution" % (f[4], f[8]),
                               "case": G.case_lines(r["case"]["model"], ops)})
        if r["diff"]:
            d = r["diff"]
            kind = d["impl"].split()[1] if len(d["impl"].split()) > 1 else "?"
            chk.violation({"kind": "history", "what": "check.SolutionCheck altered the solution (stop groups): %s" % str(d)[:300],
                           "finding_shape": {"kind": "nested", "oracle": "C18", "op": "q_check", "detail": kind, "moves_failed": mf > 0},
                           "case": G.case_lines(r["case"]["model"], ops)})
    chk.ob("nested: solution unchanged by check.SolutionCheck and every unit reported plannable can be planned, on %d group / user-constraint histories (%d with failing best moves; %d tainted histories left out)"
           % (used, failed_moves, tainted), not chk.violations)
    return used


def full_checks(chk, tier, seed):
    """check.SolutionCheck at every verbosity on solver-made solutions of full-feature models (alternates = plan-one-of units,
    stop groups, no-mix, windows ...): harness/fullcheck.go compares everything the solution shows before and after the check and
    judges has_plannable_best_move (unit must have been unplanned; a single stop must be plannable on a copy)."""
    import crash_runs as CR
    import gen_full as GF
    rng = random.Random(seed * 1009 + 1881)
    n = 150 if tier == "quick" else 3000
    blocks, meta = [], {}
    for i in range(n):
        force = {"alternates": True, "mixing": False} if i % 2 == 0 else None
        inp, opts, feats = GF.gen_full(rng, "small" if i % 3 else "medium", force=force)
        if i % 2 == 0:
            opts["objectives"]["unplanned_penalty"] = 1.0       # planning another alternate looks like an improvement
        meta[str(i)] = (inp, opts)
        blocks.append((str(i), GF.case_lines(inp, opts, {"iterations": 40, "duration_ms": 1500, "runs": 1, "starts": 1, "output": 0, "checkcheck": 1})))
    res = CR.run_crash(blocks, "c18_full_" + tier, timeout=3000)
    checked = nd = 0
    for cid, r in res.items():
        if r.get("checkchecked"):
            checked += 1
        if r.get("checkdiff"):
            inp, opts = meta[cid]
            obj = {"kind": "input", "what": "check.SolutionCheck on a solver-made solution: " + r["checkdiff"][0][:400], "differences": r["checkdiff"][:8],
                   "input": inp, "options": opts, "how": "harness crash checkcheck=1"}
            # a stop group that the check planned and could not take off again as a whole: the group un-plan of finding N2 (members
            # one by one, a member's rejection ignored) - only when what is left on / missing from the routes are group members
            import re
            members = {x for g in (inp.get("stop_groups") or []) for x in g}
            altered = [d_ for d_ in r["checkdiff"] if "altered the checked solution" in d_]
            if members and altered and len(altered) == len(r["checkdiff"]):
                only_members = True
                for d_ in altered:
                    m_ = re.search(r"before \{(.*)\} after \{(.*)\}", d_)
                    if not m_ or not m_.group(1).startswith("vehicle "):
                        only_members = False
                        break
                    ids = [set(re.findall(r"([\w-]+)\[a", part)) for part in m_.groups()]
                    delta = ids[0] ^ ids[1]
                    if not delta or not delta <= members:
                        only_members = False
                        break
                if only_members:
                    obj["finding_shape"] = {"kind": "nested", "op": "unplanr", "result": "done", "group": True, "oracle": "C18", "detail": "full"}
            if chk.match_known(obj) is None:
                nd += 1
            chk.violation(obj)
    chk.ob("check.SolutionCheck at three verbosities on solver-made solutions of %d full-feature models (half with alternates): "
           "solution unchanged, reported units were unplanned, reported single stops can be planned" % checked, nd == 0)
    chk.ev.cov["full_feature_checks"] = checked
    return checked


def run(tier, seed, replay=None):
    chk = FW.Check(PID, tier, seed)
    if not chk.builds(model=True, harness=True):
        return chk.finish()
    chk.proofs()
    rng = random.Random(seed * 1009 + 18)
    n = 80 if tier == "quick" else 1500
    cases = []
    for i in range(n):
        m = G.gen_model(rng, "small")
        ops = G.gen_ops(rng, m, rng.randint(0, 12), "checked_only")[:-1]
        ops += ["op q_check %s" % rng.choice(["low", "medium", "high"])]
        ops += G.gen_ops(rng, m, 3, "checked_only")[:-1] + ["op q_check %s" % rng.choice(["low", "medium", "high"])]
        cases.append({"id": str(i), "model": m, "ops": ops})
    res, st = E.run_cases(cases, "c18_" + tier, timeout=3000)
    chk.ob("harness and model runner exit normally", st[0] == 0 and st[2] == 0, (st[1] + st[3])[-300:])
    bad = [r for r in res if r["diff"]]
    chk.ob("solution snapshot after check.SolutionCheck equals the model's unchanged state (%d checks)" % (2 * n), not bad,
           str(bad[0]["diff"])[:500] if bad else "")
    nunits = nplannable = 0
    for r in res:
        for l in r["q_impl"]:
            f = l.split()
            if f[3] in ("error", "internal-error"):
                chk.violation({"kind": "history", "what": "check returned an error: " + " ".join(f[3:])[:200],
                               "case": G.case_lines(r["case"]["model"], r["case"]["ops"])})
            if f[3] == "summary" and int(f[5]) > 0:
                chk.violation({"kind": "history", "what": "check reports %s failed best moves (estimate contradicted by the exact check)" % f[5],
                               "case": G.case_lines(r["case"]["model"], r["case"]["ops"])})
            if f[3] == "unit":
                nunits += 1
                if f[6] == "true":
                    nplannable += 1
                    if f[10] != "true":
                        chk.violation({"kind": "history", "what": "unit %s reported plannable but its best move does not execute on a copy of the checked solution" % f[4],
                                       "case": G.case_lines(r["case"]["model"], r["case"]["ops"])})
    chk.ob("reported plannable units can be planned; no failed best moves (%d units, %d plannable)" % (nunits, nplannable), not chk.violations)
    nested = nested_checks(chk, tier, seed)
    full_checks(chk, tier, seed)
    chk.ev.cov.update({
        "nested_check_histories": nested,
        "evaluations": 2 * n, "distinct_nontrivial": nplannable,
        "rule": "generated models x histories of checked plan/unplan operations, check.SolutionCheck at a random verbosity twice per history; non-trivial = reported plannable unit re-planned on a copy",
        "traces_validated_against_impl": n, "samples": [cases[0]["ops"][-3:]],
        "search_description": "snapshot before/after and re-planning of reported units",
    })
    chk.ev.assume("nested units: stop groups on models where removing a stop cannot violate a constraint (elsewhere findings N1-N4 make un-planning "
                  "non-atomic, which the check inherits); alternates (plan-one-of units) only in the full-feature stage, judged on the implementation alone; the random source of the solution is not observable")
    return chk.finish()
