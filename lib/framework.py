"""Common skeleton of a property check (see DESIGN.md section 5)."""
import json
import os

import common as C


class Check:
    def __init__(self, pid, tier, seed, level="proof"):
        self.pid, self.tier, self.seed = pid, tier, seed
        self.ev = C.Evidence(pid, tier, seed, level)
        self.broken = []        # names of broken proof obligations / correspondences
        self.violations = []    # concrete failing inputs: replay objects
        self.known_hits = []    # (finding, description)
        self.ok_builds = True
        self.findings = C.known_findings(pid)
        self.mismatch = None    # first model/implementation disagreement: a concrete replay of the broken tie

    # ---- builds -------------------------------------------------------
    def builds(self, model=True, harness=True, skeletons=False):
        okc, logc = C.build_coq()
        # the whole development must build; a failure elsewhere is recorded, the
        # property's own closure is what prop_obligations() checks
        self.ev.cov["development_build_ok"] = okc
        if not okc:
            self.ev.cov["development_build_log"] = logc[-1500:]
        if model:
            ok, l = C.build_model()
            self.ob("model extraction + OCaml runner build", ok, l[-1200:] if not ok else "")
            self.ok_builds &= ok
        if harness:
            ok, l = C.build_harness()
            self.ob("harness builds against /repo working tree with -tags verif", ok, l[-1200:] if not ok else "")
            self.ok_builds &= ok
        if skeletons:
            ok, l = C.build_skeletons()
            self.ob("translator regenerates and compiles coq/Gen/Skeleton_*.v from /repo", ok, l[-1200:] if not ok else "")
            self.ok_builds &= ok
        hy = C.hygiene()
        self.ob("hygiene: no Admitted/admit/Axiom/Parameter/Conjecture/guard switches in coq/", not hy, "; ".join(hy[:5]))
        return self.ok_builds

    def ob(self, name, ok, detail="", breaks=True):
        self.ev.obligation(name, ok, detail)
        if not ok and breaks:
            self.broken.append(name + (": " + detail[:300] if detail else ""))

    def proofs(self, pid=None):
        pid = pid or self.pid
        po = C.prop_obligations(pid)
        if not po["theorems"]:
            self.ob("coq/Props/%s.v present with theorems" % pid, False, po["log"][-600:])
        for th in po["theorems"]:
            self.ob("theorem %s (Props/%s.v)" % (th, pid), po["ok"], "" if po["ok"] else po["log"][-600:])
        ar = self.ev.cov.setdefault("assumptions_reported", {})
        ar[pid] = {"closed_under_global_context": po.get("closed", 0), "axioms": po.get("axioms", [])}
        if po.get("axioms"):
            self.ob("no axioms under Props/%s.v" % pid, False, "; ".join(po["axioms"])[:400])
        return po

    def oblig(self, name):
        r = C.run_oblig(name)
        for lm in r["lemmas"]:
            ok = r["ok"] or (r["failed_lemma"] is not None and lm != r["failed_lemma"] and
                             r["lemmas"].index(lm) < r["lemmas"].index(r["failed_lemma"]))
            self.ob("regenerated-skeleton obligation %s (Oblig/%s.v)" % (lm, name), ok,
                    "" if ok else r["log"][-500:])
        if not r["ok"] and not r["lemmas"]:
            self.ob("Oblig/%s.v compiles" % name, False, r["log"][-500:])
        return r

    # ---- results ------------------------------------------------------
    def violation(self, replay_obj):
        """a concrete failing input/history/schedule; filtered by known findings"""
        f = self.match_known(replay_obj)
        if f is not None:
            self.known_hits.append((f, replay_obj.get("what", "")))
        else:
            self.violations.append(replay_obj)

    def match_known(self, replay_obj):
        shape = replay_obj.get("finding_shape")
        if shape is None:
            return None
        for f in self.findings:
            for pat in [f.get("shape")] + list(f.get("shapes", [])):
                if pat is not None and shape_matches(pat, shape):
                    return f
        return None

    def known(self, finding, what):
        self.known_hits.append((finding, what))

    def finish(self, search=None):
        """search(): called when a proof/correspondence broke but no failing input is at hand;
        returns a replay object or None."""
        rc = 0
        seen = set()
        for f, what in self.known_hits:
            key = f.get("id")
            if key in seen:
                continue
            seen.add(key)
            print("KNOWN-FINDING: property=%s %s" % (self.pid, f.get("what", what)), flush=True)
        self.ev.cov["known_findings_reproduced"] = sorted(seen)
        if self.violations:
            obj = dict(self.violations[0])
            obj.setdefault("property", self.pid)
            obj["other_violations"] = len(self.violations) - 1
            C.report_violation(self.pid, obj, True)
            rc = 1
        elif self.broken:
            found = None
            if search is not None:
                try:
                    found = search()
                except Exception as e:  # the search is best effort
                    found = None
                    self.ev.cov["search_error"] = repr(e)
            if found is not None and self.match_known(found) is None:
                found.setdefault("property", self.pid)
                found["broken"] = self.broken[:5]
                C.report_violation(self.pid, found, True)
            else:
                C.report_violation(self.pid, {"property": self.pid, "kind": "obligation",
                                              "broken": self.broken[:8], "first_disagreement": self.mismatch,
                                              "searched": self.ev.cov.get("search_description", "see evidence")}, False)
            rc = 1
        self.ev.d["violations"] = rc
        self.ev.write()
        return rc


def shape_matches(pattern, shape):
    """pattern: dict; a value "*" matches anything, a list matches any of its elements,
    keys missing in the pattern are not constrained; keys in the pattern must be present."""
    if not isinstance(pattern, dict) or not isinstance(shape, dict):
        return pattern == shape
    for k, pv in pattern.items():
        if k not in shape:
            return False
        sv = shape[k]
        if pv == "*":
            continue
        if isinstance(pv, list) and not isinstance(sv, list):
            if sv not in pv:
                return False
        elif pv != sv:
            return False
    return True


def load_corpus(pid):
    out = []
    d = os.path.join(C.CORPUS, pid)
    if os.path.isdir(d):
        for fn in sorted(os.listdir(d)):
            if fn.endswith(".json"):
                o = json.load(open(os.path.join(d, fn)))
                o["_file"] = fn
                out.append(o)
    return out
