"""C11 - a copy is identical to and independent of its original.

Proof: coq/Props/C11.v (heap model: fresh treatment of every mutable field
implies independence; aliasing refuted).  Tie: Oblig/O_C11.v (field table of
solutionImpl / Copy regenerated from /repo = reference, discipline holds) +
copy-then-mutate histories on the real engine vs the extracted model with
snapshots of every live solution."""
import random

import common as C
import engine_corr as E
import framework as FW
import gen_engine as G

PID = "C11"


def gen_ops(rng, m, nops):
    ops = []
    maxu = max(len(u["stops"]) for u in m["units"])
    plan = lambda: "op planr %d %d %d %s" % (rng.randrange(1 << 20), rng.randrange(1 << 20), rng.randrange(1 << 20),  # noqa: E731
                                             " ".join(str(rng.randrange(1 << 20)) for _ in range(maxu)))
    for _ in range(4):
        ops.append(plan())
    for _ in range(nops):
        r = rng.random()
        if r < 0.45:
            ops.append(plan())
        elif r < 0.65:
            ops.append("op unplanr %d" % rng.randrange(1 << 20))
        elif r < 0.8:
            ops += ["op copy", "op snapall"]
        else:
            ops += ["op switch %d" % rng.randrange(0, 4), "op snapall"]
    ops.append("op snapall")
    return ops


def full_copy_stage(chk, tier, seed):
    """copies of solver-made solutions on full-feature models (cluster objective, groups, alternates, no-mix, multipliers,
    windows ...): objective terms re-evaluated on both, scores, per-stop values, best-move values, the same un-plan on both
    (harness/copycheck.go)"""
    import crash_runs as CR
    import gen_full as GF
    rng = random.Random(seed * 31 + 1111)
    n = 150 if tier == "quick" else 3000
    blocks, meta = [], {}
    for i in range(n):
        inp, opts, feats = GF.gen_full(rng, "small" if i % 3 else "medium")
        if i % 2 == 0:
            opts["objectives"]["cluster"] = rng.choice([1.0, 10.0])       # per-stop objective data that Copy has to carry over
        meta[str(i)] = (inp, opts)
        blocks.append((str(i), GF.case_lines(inp, opts, {"iterations": 40, "duration_ms": 1500, "runs": 1, "starts": 1, "output": 0, "copycheck": 1})))
    res = CR.run_crash(blocks, "c11_copy_" + tier, timeout=3000)
    checked = nd = nrand = 0
    for cid, r in res.items():
        if r.get("copychecked"):
            checked += 1
        if r.get("copyrandomchecked"):
            nrand += 1
        if r.get("copydiff"):
            nd += 1
            inp, opts = meta[cid]
            chk.violation({"kind": "input", "what": "copy differs from its original: " + r["copydiff"][0][:300], "differences": r["copydiff"][:8],
                           "input": inp, "options": opts, "how": "harness crash copycheck=1"})
    chk.ob("copies of solver-made solutions on %d full-feature models show the same as their originals" % checked, nd == 0)
    chk.ob("random sources of a copy and of its original are independent in both directions on %d twin pairs "
           "(own source and the sources of the unit collections)" % nrand, nd == 0)
    chk.ev.cov["full_feature_copies_checked"] = checked
    chk.ev.cov["random_source_twin_pairs"] = nrand


def run(tier, seed, replay=None):
    chk = FW.Check(PID, tier, seed)
    if not chk.builds(model=True, harness=True, skeletons=True):
        return chk.finish()
    chk.proofs()
    chk.oblig("O_C11")
    rng = random.Random(seed * 31 + 11)
    n = 150 if tier == "quick" else 3000
    cases = []
    for i in range(n):
        m = G.gen_model(rng, "small")
        cases.append({"id": str(i), "model": m, "ops": gen_ops(rng, m, 20)})
    res, st = E.run_cases(cases, "c11_" + tier)
    bad = [r for r in res if r["diff"]]
    ncopies = sum(sum(1 for o in c["ops"] if o == "op copy") for c in cases)
    chk.ob("copy-then-mutate histories: every live solution's snapshot equals the model's (%d cases, %d copies)" % (n, ncopies), not bad,
           str(bad[0]["diff"])[:400] if bad else "")
    # independent oracle on the implementation's own output: a solution that was not the target of
    # an operation keeps its snapshot
    viol = 0
    for r in res:
        last = {}
        cur = 0
        step_lines = {}
        for l in r["impl"]:
            f = l.split()
            if len(f) > 2 and f[0].startswith("S") and f[0][1:].isdigit():
                step_lines.setdefault((int(f[1]), int(f[0][1:])), []).append(" ".join(f[2:]))
        prev_step = None
        for (step, j) in sorted(step_lines):
            pass
        # compare consecutive snapall blocks: only the current solution may change between them
        blocks = {}
        for (step, j), ls in step_lines.items():
            blocks.setdefault(step, {})[j] = ls
        steps = sorted(blocks)
        ops = [o for o in r["case"]["ops"]]
        # replay the switch/copy ops to know which solution was current between snapalls
        cur, nsol, k = 0, 1, 0
        cur_sets = {}
        touched = set()
        opstep = 1
        fresh = []          # (snapall step, new solution, its source): the copy must equal the original when taken
        pending = []
        for o in ops:
            if o == "op copy":
                pending.append((nsol, cur))
                nsol += 1
            elif o.startswith("op switch"):
                t = int(o.split()[2])
                if t < nsol:
                    cur = t
            elif o == "op snapall":
                cur_sets[opstep] = set(touched)
                touched = set()
                fresh += [(opstep, a, b_) for a, b_ in pending]
                pending = []
            else:
                touched.add(cur)
            opstep += 1
        for (s_, a, b_) in fresh:
            if s_ in blocks and a in blocks[s_] and b_ in blocks[s_] and blocks[s_][a] != blocks[s_][b_]:
                dl = [(x, y) for x, y in zip(blocks[s_][a], blocks[s_][b_]) if x != y][:1]
                viol += 1
                chk.violation({"kind": "history", "what": "copy (solution %d) differs from its original (solution %d) right after Copy(): %s" % (a, b_, dl),
                               "step": s_, "case": G.case_lines(r["case"]["model"], r["case"]["ops"][:s_])})
        prev = None
        for s_ in steps:
            if prev is not None:
                for j, ls in blocks[prev].items():
                    if j in blocks[s_] and blocks[s_][j] != ls and j not in cur_sets.get(s_, set()):
                        viol += 1
                        chk.violation({"kind": "history", "what": "solution %d changed although no operation targeted it" % j,
                                       "case": G.case_lines(r["case"]["model"], r["case"]["ops"])})
            prev = s_
    full_copy_stage(chk, tier, seed)
    chk.ob("a copy equals its original when taken (incl. cached slack) and untouched solutions keep their snapshot (oracle on the implementation's output)", viol == 0)
    chk.ev.cov.update({
        "evaluations": n, "distinct_nontrivial": sum(1 for c in cases if "op copy" in c["ops"]),
        "rule": "generated models x histories of plan/unplan/copy/switch with a snapshot of every live solution after each copy/switch; non-trivial = history with at least one copy",
        "traces_validated_against_impl": n, "copies": ncopies,
        "samples": [cases[0]["ops"][:12]],
        "search_description": "oracle 'only the targeted solution changes' on the implementation's snapshots",
    })
    chk.ev.assume("that Go operations write only through their own solution's fields is checked dynamically (histories) and structurally (table), not proved")
    chk.ev.assume("concurrent mutation of original and copy from different goroutines is covered only by the race-detector runs of C14 (thorough)")
    return chk.finish()
