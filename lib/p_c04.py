"""C04 - see DESIGN.md section 6.  Proof: coq/Props/C04.v; tie: engine
correspondence; search: oracle ['C04'] on the implementation's snapshots."""
import engine_props


def run(tier, seed, replay=None):
    return engine_props.run("C04", tier, seed, ['C04'], "reported schedule = forward propagation of the input", check_c07=False)
