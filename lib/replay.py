"""bin/check --property Cxx --replay <file>: re-runs ONE recorded failing input /
history / script against /repo's current working tree (and the extracted model
where there is one) and says whether it still fails.

Replay kinds (the "kind" / shape of the replay object written by the checks):
  history   "case": case lines of the engine language  -> harness `engine` + model,
            first difference, and the history oracles of the property on the
            implementation's output
  history   "case" starting with `start` / `popts`      -> harness `sloop` / `ploop` + model
  nomix     "case": lines of the no-mix script language  -> harness `nomix` + model + oracle
  input     "input" + "options" (full-feature JSON)     -> crash run + output oracles
  input     "model" + "settings" (solver run)           -> solve run, score sequence
  layout    C17 (handled by p_c17 itself)
  schedule / obligation: nothing to execute - the text is printed.
Exit code 1 when the failure is still there, 0 when it is gone."""
import json
import os

import common as C


def _print(*a):
    print(*a, flush=True)


def run(pid, path):
    rp = json.load(open(path))
    kind = rp.get("kind")
    ok, l = C.build_harness()
    if not ok:
        _print("REPLAY: harness does not build:\n" + l[-800:])
        return 1
    C.build_model()
    if kind == "nomix" and isinstance(rp.get("case"), list):
        import nomix_corr as NM
        lines = [l for l in rp["case"] if not l.startswith("case ") and l != "end"]
        res, st = NM.run_cases([{"id": "r", "lines": lines, "stats": {"shapes": [], "plans": 0, "unplans": 0}}], "replay")
        r = res[0]
        still = False
        if r["diff"]:
            still = True
            _print("REPLAY: implementation and model differ at line %(line)d\n  impl : %(impl)s\n  model: %(model)s" % r["diff"])
        else:
            _print("REPLAY: implementation and model agree on %d lines" % len(r["impl"]))
        for k, what, step in NM.oracle(r["impl"]):
            still = True
            _print("REPLAY: %s" % what)
        _print("REPLAY: recorded failure was: %s" % rp.get("what"))
        return 1 if still else 0
    if "case" in rp and isinstance(rp["case"], list):
        lines = rp["case"]
        first = lines[0].split()[0] if lines else ""
        cmd = "sloop" if first in ("start", "exec") else "ploop" if first in ("popts", "allot") else "aloop" if first in ("astarts", "arun") else "engine"
        cf = os.path.join(C.BUILD, "replay_%s.case" % pid)
        C.write_cases(cf, [("r", lines)])
        (rc1, go_out, go_err), (rc2, ml_out, ml_err) = C.run_both(cmd, cf)
        g = [x for x in C.group_lines(go_out).get("r", [])]
        m = [x for x in C.group_lines(ml_out).get("r", [])]
        gq = [x for x in g if " Q " not in x]
        mq = [x for x in m if " Q " not in x]
        still = False
        if gq != mq:
            still = True
            for k, (a, b) in enumerate(zip(gq, mq)):
                if a != b:
                    _print("REPLAY: implementation and model differ at line %d\n  impl : %s\n  model: %s" % (k, a, b))
                    break
            else:
                _print("REPLAY: implementation printed %d lines, model %d" % (len(gq), len(mq)))
        else:
            _print("REPLAY: implementation and model agree on %d lines" % len(gq))
        if cmd == "engine":
            # generic history predicates that need no model description
            prev_exec, by_step = None, {}
            for x in g:
                f = x.split()
                if len(f) >= 4 and f[1] == "move" and f[2] == "executable":
                    prev_exec = f[3]
                elif len(f) >= 3 and f[1] == "result":
                    if prev_exec == "true" and f[2] != "done":
                        still = True
                        _print("REPLAY: step %s: move reported executable but Execute returned %s" % (f[0], f[2]))
                    prev_exec = None
                if f and f[0].isdigit() and len(f) > 1 and f[1] in ("route", "cell", "planned", "unplanned", "fixed", "score"):
                    by_step.setdefault(int(f[0]), []).append(" ".join(f[1:]))
            res = {int(x.split()[0]): x.split()[2] for x in g if len(x.split()) >= 3 and x.split()[1] == "result" and x.split()[0].isdigit()}
            for k in sorted(by_step):
                if k - 1 in by_step and res.get(k) in ("notdone", "noop") and by_step[k] != by_step[k - 1]:
                    still = True
                    _print("REPLAY: step %d answered %s but the solution changed" % (k, res[k]))
            import oracles as O
            import gen_engine  # noqa: F401
            try:
                # the model description is not part of the replay: oracles that need it are skipped; the
                # result lines of the recorded step are shown
                step = rp.get("step")
                if step is not None:
                    _print("REPLAY: implementation output at step %s:" % step)
                    for x in g:
                        if x.split()[0] == str(step):
                            _print("   " + x)
            except Exception as e:  # pragma: no cover
                _print("REPLAY: could not print the step: %r" % e)
        else:
            for x in g:
                _print("   impl  " + x)
            sent = [int(v) for x in g if x.startswith(("sent", "delivered")) for v in x.split()[1:]]
            if any(not b < a for a, b in zip(sent, sent[1:])):
                still = True
                _print("REPLAY: scores on the channel not strictly decreasing: %s" % sent)
            d = {x.split()[0]: x.split()[1:] for x in g}
            if cmd == "ploop" and "total" in d:
                its = int(lines[0].split()[1])
                if int(d["total"][0]) > its or sum(int(v) for v in d.get("grants", [])) > its:
                    still = True
                    _print("REPLAY: budget %d exceeded: total %s grants %s" % (its, d["total"], d.get("grants")))
        _print("REPLAY: recorded failure was: %s" % rp.get("what"))
        return 1 if still else 0
    if kind == "holdback":
        import gen_full as GF
        cf = os.path.join(C.BUILD, "replay_hold.case")
        C.write_cases(cf, [("r", GF.case_lines(rp["input"], rp["options"], {"iterations": 1})[:2] + [rp["hold"]])])
        rc, out, err = C.run([C.HARNESS, "holdback", cf], timeout=600, env=C.GOENV)
        lines = C.group_lines(out).get("r", [])
        for l in lines:
            _print("REPLAY: " + l)
        res = {}
        for l in lines:
            f = l.split()
            if f[0] == "hold" and len(f) >= 4 and f[2] != "error":
                res[int(f[1])] = (f[2], f[3])
        still = any(k >= 1 and 0 in res and v != res[0] for k, v in res.items()) or "end" not in lines
        _print("REPLAY: recorded failure was: %s" % rp.get("what"))
        return 1 if still else 0
    if kind == "fullmoves":
        import fullmoves as FM
        import gen_full as GF
        rc, g, err = FM.run_blocks([("r", GF.case_lines(rp["input"], rp["options"], {"iterations": 1})[:2] + [rp["moves"]])], "replay")
        cnt, bad = FM.judge(g.get("r", []))
        for what, line in bad:
            _print("REPLAY: %s: %s" % (what, line))
        _print("REPLAY: %d lines, counts %s" % (len(g.get("r", [])), cnt))
        _print("REPLAY: recorded failure was: %s" % rp.get("what"))
        return 1 if bad else 0
    if "input" in rp and "options" in rp:
        import crash_runs as CR
        import gen_full as GF
        import oracles_full as OF
        st = {"iterations": 40, "duration_ms": 1500, "runs": 1, "starts": 1, "output": 1}
        res = CR.run_crash([("r", GF.case_lines(rp["input"], rp["options"], st))], "replay")
        r = res.get("r", {"outcome": "none", "output": []})
        _print("REPLAY: outcome %s" % r["outcome"])
        bad = (r["outcome"] or "none").split()[0] in ("panic", "process-crash", "engine-error", "hang", "none", "solve-error", "solver-error")
        for o in r["output"]:
            try:
                fails = OF.check_output(rp["input"], rp["options"], json.loads(o))
            except Exception as e:
                fails = {"oracle-error": [repr(e)]}
            for k, v in fails.items():
                if v and (k == pid or pid == "C16"):
                    bad = bad or k == pid
                    _print("REPLAY: %s: %s" % (k, v[0]))
        _print("REPLAY: recorded failure was: %s" % rp.get("what"))
        return 1 if bad else 0
    if "model" in rp and "settings" in rp:
        import solver_runs as S
        runs, rc, err = S.run_solve([{"id": "r", "model": rp["model"], "settings": rp["settings"]}], "replay")
        still = False
        base = None
        for (cid, rep), r in sorted(runs.items()):
            sc = r["scores"]
            _print("REPLAY: repetition %s delivered scores %s flags %s" % (rep, [str(x) for x in sc][:12], r["flags"]))
            if any(not b < a for a, b in zip(sc, sc[1:])):
                still = True
            if base is None:
                base = (sc, r.get("snap"))
            elif (sc, r.get("snap")) != base:
                still = still or pid in ("C12", "C13")
                _print("REPLAY: repetitions differ")
            d = r.get("done")
            if d and rp["settings"].get("iterations", -1) >= 0 and d["iterated"] > rp["settings"]["iterations"]:
                still = True
                _print("REPLAY: performed %d iterations, budget %d" % (d["iterated"], rp["settings"]["iterations"]))
        _print("REPLAY: recorded failure was: %s" % rp.get("what"))
        return 1 if still else 0
    _print("REPLAY: nothing executable in this replay (kind %s); recorded: %s" % (kind, json.dumps(rp)[:1500]))
    return 1
