"""Generator of JSON-level models and operation histories for the engine
correspondence.  One Python dict is rendered twice: as the JSON input + options
for /repo's factory, and as model lines for the extracted Coq model."""
import json
import itertools
from datetime import datetime, timezone

T0 = 1672531200  # 2023-01-01T00:00:00Z, a minute boundary


def rfc(t):
    return datetime.fromtimestamp(t, tz=timezone.utc).strftime("%Y-%m-%dT%H:%M:%SZ")


def topo_orders(stops, arcs, limit=6):
    """some linear extensions of the DAG that keep direct arcs adjacent"""
    outs = []
    preds = {s: set() for s in stops}
    for a, b, d in arcs:
        preds[b].add(a)
    direct = {(a, b) for a, b, d in arcs if d}
    for perm in itertools.permutations(stops):
        pos = {s: i for i, s in enumerate(perm)}
        if all(pos[a] < pos[b] for a, b, d in arcs) and all(pos[b] == pos[a] + 1 for a, b in direct):
            outs.append(list(perm))
            if len(outs) >= limit:
                break
    return outs


def gen_model(rng, size="small", feats=None):
    n = rng.randint(2, 7 if size == "small" else 14)
    nv = rng.randint(1, 3 if size == "small" else 5)
    if size == "large":
        n, nv = rng.randint(30, 45), rng.randint(3, 5)
    if size == "huge":
        n, nv = rng.randint(130, 160), rng.randint(5, 6)
    p = lambda x: rng.random() < x  # noqa: E731
    F = {
        "capacity": p(0.6), "windows": p(0.5), "maxwait_stop": p(0.35), "maxwait_veh": p(0.3),
        "endtime": p(0.35), "maxdur": p(0.3), "maxstops": p(0.3), "maxdist": p(0.3),
        "attrs": p(0.3), "precedence": p(0.4), "no_startloc": p(0.15), "penalties": p(0.6),
        "activation": p(0.5), "nonmetric": p(0.5), "tight": p(0.5), "user": False, "groups": False, "initial": False,
        "colocated": False, "one_vehicle": False, "fixed_p": 0.3, "dgroups": p(0.3), "objx": p(0.35), "mult": p(0.3), "capobj": False, "user_sol": False,
    }
    if feats:
        F.update(feats)
    if F["one_vehicle"]:
        nv = 1
        n = max(n, 4)
    nres = 0
    res_mode = "none"
    if F["capacity"]:
        if p(0.4):
            nres, res_mode = 1, "single"
        else:
            nres, res_mode = rng.randint(1, 2), "map"
    N = n + 2 * nv
    hi = 900 if F["tight"] else 300
    if F["colocated"]:
        hi = rng.choice([0, 30, 120])   # waiting dominates travelling
    dur = [[0 if i == j else rng.randint(0, hi) for j in range(N)] for i in range(N)]
    if not F["nonmetric"]:
        # make it a shortest-path closure (metric)
        for k in range(N):
            for i in range(N):
                for j in range(N):
                    if dur[i][k] + dur[k][j] < dur[i][j]:
                        dur[i][j] = dur[i][k] + dur[k][j]
    dist = [[0 if i == j else rng.randint(0, 5000) for j in range(N)] for i in range(N)]
    stops = []
    for i in range(n):
        s = {"quantity": [0] * nres, "duration": rng.choice([0, 0, 60, 120, 300, 601]),
             "windows": [], "max_wait": None, "penalty": None, "attrs": []}
        if nres and p(0.8):
            s["quantity"] = [rng.choice([-3, -2, -1, -1, 0, 1, 1, 2]) for _ in range(nres)]
        if F["windows"] and p(0.6):
            a = T0 + 60 * rng.randint(0, 40 if F["colocated"] else 120)
            ln = 60 * rng.choice([5, 10, 30, 60, 120])
            ws = [(a, a + ln)]
            if p(0.35):
                b = a + ln + 60 * rng.choice([1, 10, 30])
                ws.append((b, b + 60 * rng.choice([5, 30, 60])))
            s["windows"] = ws
        if F["maxwait_stop"] and p(0.5):
            s["max_wait"] = rng.choice([0, 60, 300, 900, 1800])
        if F["penalties"] and p(0.6):
            s["penalty"] = rng.choice([0, 10, 500, 20000])
        if F["attrs"] and p(0.5):
            s["attrs"] = sorted(rng.sample([0, 1, 2], rng.randint(1, 2)))
        stops.append(s)
    vehicles = []
    for v in range(nv):
        start = T0 + rng.choice([0, 0, 600, 1800, 3601])
        ve = {"capacity": None, "start_level": [], "start_time": start if (F["windows"] or p(0.5)) else None,
              "end_time": None, "max_duration": None, "max_stops": None, "max_distance": None, "max_wait": None,
              "attrs": [], "activation": None, "has_start": not (F["no_startloc"] and p(0.5)),
              "has_end": not (F["no_startloc"] and p(0.5))}
        if nres and (v == 0 or p(0.8)):
            ve["capacity"] = [rng.choice([0, 1, 2, 3, 4, 6]) for _ in range(nres)]
            if p(0.4):
                ve["start_level"] = [rng.randint(0, c) for c in ve["capacity"]]
        if F["endtime"] and p(0.6):
            ve["end_time"] = start + rng.choice([600, 1800, 3600, 7200, 14400])
            if ve["start_time"] is None:
                ve["end_time"] = T0 + rng.choice([1800, 3600, 7200, 14400])
        if F["maxdur"] and p(0.6):
            ve["max_duration"] = rng.choice([600, 1800, 3600, 7200])
        if F["maxstops"] and p(0.6):
            ve["max_stops"] = rng.randint(0, 4)
        if F["maxdist"] and p(0.6):
            ve["max_distance"] = rng.choice([2000, 8000, 15000, 40000])
        if F["maxwait_veh"] and p(0.6):
            ve["max_wait"] = rng.choice([0, 300, 1200, 3600])
        if F["attrs"] and p(0.6):
            ve["attrs"] = sorted(rng.sample([0, 1, 2], rng.randint(1, 3)))
        if F["activation"] and p(0.7):
            ve["activation"] = rng.choice([0, 100, 5000])
        vehicles.append(ve)
    # precedence
    arcs = []
    if F["precedence"] and n >= 2:
        ids = list(range(n))
        rng.shuffle(ids)
        k = 0
        while k + 1 < len(ids) and p(0.7):
            shape = rng.choice(["pair", "pair", "chain3", "fork"])
            if shape == "pair" or k + 2 >= len(ids):
                arcs.append((ids[k], ids[k + 1], p(0.3)))
                k += 2
            elif shape == "chain3":
                arcs.append((ids[k], ids[k + 1], p(0.3)))
                arcs.append((ids[k + 1], ids[k + 2], False))
                k += 3
            else:
                arcs.append((ids[k], ids[k + 1], False))
                arcs.append((ids[k], ids[k + 2], False))
                k += 3
    # units = connected components (in the order the factory creates them:
    # multi-stop units in order of first arc, then singles in stop order)
    comp = {}
    units = []
    for a, b, d in arcs:
        ca, cb = comp.get(a), comp.get(b)
        if ca is None and cb is None:
            units.append({"stops": [a, b], "arcs": [(a, b, d)]})
            comp[a] = comp[b] = len(units) - 1
        elif ca is not None and cb is None:
            units[ca]["stops"].append(b)
            units[ca]["arcs"].append((a, b, d))
            comp[b] = ca
        elif ca is None and cb is not None:
            units[cb]["stops"].append(a)
            units[cb]["arcs"].append((a, b, d))
            comp[a] = cb
        elif ca == cb:
            units[ca]["arcs"].append((a, b, d))
        else:
            raise AssertionError("generator does not merge components")
    for i in range(n):
        if i not in comp:
            units.append({"stops": [i], "arcs": []})
    for u in units:
        u["orders"] = topo_orders(u["stops"], u["arcs"])
    # duration groups: disjoint groups of stops, the group duration is paid when the vehicle arrives from outside the group
    dgroups = []
    if F["dgroups"] and n >= 2:
        ids = list(range(n))
        rng.shuffle(ids)
        k = 0
        for _ in range(rng.randint(1, 2)):
            size_g = rng.randint(2, 3) if F.get("dgroups_focus") else rng.randint(1, 3)
            if k + size_g > n:
                break
            dgroups.append((sorted(ids[k:k + size_g]), rng.choice([600, 900, 1800] if F.get("dgroups_focus") else [0, 60, 300, 900])))
            k += size_g
    opts = {k: p(0.06) for k in ["dis_capacity", "dis_distance", "dis_max_duration", "dis_end_time", "dis_windows",
                                 "dis_max_stops", "dis_max_wait_stop", "dis_max_wait_vehicle", "dis_attributes",
                                 "dis_start_time", "dis_durations"]}
    opts["dis_dgroups"] = bool(dgroups) and p(0.06)
    if opts["dis_start_time"] and F["windows"]:
        opts["dis_start_time"] = False
    opts.update({"f_activation": rng.choice([0, 1, 3]), "f_travel": rng.choice([0, 1, 2]),
                 "f_vehicles_duration": rng.choice([0, 1, 1]), "f_unplanned": rng.choice([0, 1, 1, 2])})
    opts["cap_obj"] = []
    if F.get("capobj") and nres:
        # capacity as an objective: the constraint switched off, the excess over the capacity penalised per resource
        opts["dis_capacity"] = True
        for r in range(nres):
            if r == 0 or p(0.6):
                opts["cap_obj"].append((r, rng.choice([1, 2, 10]), rng.choice([0, 0, 5])))
        if not any(ve["capacity"] is not None for ve in vehicles):
            vehicles[0]["capacity"] = [rng.randint(0, 3) for _ in range(nres)]
            vehicles[0]["start_level"] = [0] * nres
    # stop groups (PlanAll, same vehicle) over whole units; member order as the factory builds it:
    # units in the order of the string-sorted stop ids of the group
    groups = []
    if F.get("groups") and len(units) >= 2:
        idx = list(range(len(units)))
        rng.shuffle(idx)
        k = 0
        while k + 1 < len(idx) and (not groups or p(0.4)):
            size = rng.randint(2, min(3, len(idx) - k))
            chosen = idx[k:k + size]
            k += size
            sids = sorted(("s%d" % x, ui) for ui in chosen for x in units[ui]["stops"])
            order = []
            for _, ui in sids:
                if ui not in order:
                    order.append(ui)
            groups.append(order)
    # initial stops: whole units, in an order their DAG allows, possibly fixed; group members may be initial stops too
    for ve in vehicles:
        ve["initial"] = []
    if F.get("initial"):
        free = list(range(len(units)))
        rng.shuffle(free)
        for vi, ve in enumerate(vehicles):
            if free and p(0.7):
                seq = []
                for _ in range(rng.randint(1, min(3, len(free)))):
                    if not free:
                        break
                    ui = free.pop()
                    # members of one stop group are only made initial stops of one vehicle
                    # (split across vehicles: see known finding N6-initial-stops-and-groups)
                    mates = [w for g in groups if ui in g for w in g if w != ui and w in free]
                    # ... and a group is an initial stop list entry as a whole
                    # (a group of which only some members are initial stops: also N6)
                    for w in mates:
                        free.remove(w)
                        od2 = rng.choice(units[w]["orders"]) if units[w]["orders"] else units[w]["stops"]
                        seq.extend(od2)
                    od = rng.choice(units[ui]["orders"]) if units[ui]["orders"] else units[ui]["stops"]
                    # interleave: put this unit's stops at random places keeping their relative order; stops tied by a
                    # direct arc travel as one block and no block is put inside another unit's direct pair
                    # (an initial route that separates direct successors is rejected by NewSolution since fix 20be0a5)
                    direct = {(a, b) for u2 in units for (a, b, d) in u2["arcs"] if d}
                    blocks = []
                    for x in od:
                        if blocks and (blocks[-1][-1], x) in direct:
                            blocks[-1].append(x)
                        else:
                            blocks.append([x])
                    free_gaps = [g for g in range(len(seq) + 1) if not (0 < g < len(seq) and (seq[g - 1], seq[g]) in direct)]
                    pos = sorted(rng.choice(free_gaps) for _ in blocks)
                    off = 0
                    for blk, q in zip(blocks, pos):
                        seq[q + off:q + off] = blk
                        off += len(blk)
                fixed_units = {ui for ui in {unit_of(units, x) for x in seq} if p(F["fixed_p"])}
                # a fixed unit with several stops: in half of the cases only some of its stops carry the flag (a unit is
                # fixed as soon as one of its stops is)
                flagged = set()
                for ui in sorted(fixed_units):
                    us = [x for x in seq if unit_of(units, x) == ui]
                    if len(us) > 1 and p(0.5):
                        flagged |= set(rng.sample(us, rng.randint(1, len(us) - 1)))
                    else:
                        flagged |= set(us)
                ve["initial"] = [(x, x in flagged) for x in seq]
    user = []
    if F.get("user") and F.get("user_wait"):
        # a temporal user rule that an EARLIER arrival can break: a bound on the wait at a stop (or at the end of the vehicle)
        user.append(("wait", rng.choice([300, 600, 900, 1800]), rng.random() < 0.3, True))
    elif F.get("user"):
        for _ in range(rng.randint(1, 2)):
            f = rng.choice(["pos", "arrival", "start", "end", "cumtravel", "wait"] + (["level0"] if nres else []))
            veh = rng.random() < 0.4
            mx = {"pos": rng.randint(1, 4), "arrival": T0 + rng.choice([1800, 3600, 7200]), "start": T0 + rng.choice([1800, 3600, 7200]),
                  "end": T0 + rng.choice([3600, 7200, 14400]), "cumtravel": rng.choice([600, 1500, 4000]), "wait": rng.choice([0, 300, 1800]),
                  "level0": rng.randint(0, 3)}[f]
            if f in ("arrival", "start", "end") and not F["windows"] and vehicles[0]["start_time"] is None:
                mx -= T0
            user.append((f, mx, veh, rng.random() < 0.3))
        # a two-level constraint: one object with a per-stop and a per-vehicle exact check
        # (registered as ONE constraint by the harness: "paired" flag on the stop-level line)
        if rng.random() < 0.4 and not F.get("user_wait"):
            tmp = rng.random() < 0.3
            f1, f2 = rng.choice(["pos", "wait", "cumtravel"]), rng.choice(["pos", "cumtravel", "end"])
            mxs = {"pos": rng.randint(1, 4), "wait": rng.choice([0, 300, 1800]), "cumtravel": rng.choice([600, 1500, 4000]),
                   "end": T0 + rng.choice([3600, 7200, 14400])}
            m2 = mxs[f2] if f2 != "pos" else rng.randint(2, 5)
            if f2 == "end" and not F["windows"] and vehicles[0]["start_time"] is None:
                m2 -= T0
            user.append((f1, mxs[f1], False, tmp, True))
            user.append((f2, m2, True, tmp))
    # further objective terms: early / late arrival (targets with integer penalties), min stops, stop balance
    for s_ in stops:
        s_["target"], s_["early_pen"], s_["late_pen"] = None, 0, 0
    for ve in vehicles:
        ve["min_stops"], ve["min_stops_pen"] = 0, 0
    opts.update({"f_early": 0, "f_late": 0, "f_min_stops": 0, "f_stop_balance": 0})
    if F["objx"]:
        for s_ in stops:
            if p(0.45):
                s_["target"] = T0 + 60 * rng.randint(0, 120)
                s_["early_pen"], s_["late_pen"] = rng.choice([0, 1, 2]), rng.choice([0, 1, 4])
        for ve in vehicles:
            if p(0.5):
                ve["min_stops"], ve["min_stops_pen"] = rng.randint(0, 3), rng.choice([0, 5, 10])
        opts.update({"f_early": rng.choice([0, 1, 2]), "f_late": rng.choice([0, 1, 2]), "f_min_stops": rng.choice([0, 1, 1]),
                     "f_stop_balance": rng.choice([0, 1, 3])})
    # stop duration multipliers (exact in binary floating point: halves), per vehicle
    for ve in vehicles:
        ve["mult"] = (1, 1)
    opts["dis_multipliers"] = False
    if F["mult"]:
        for ve in vehicles:
            if p(0.6):
                ve["mult"] = rng.choice([(2, 1), (3, 2), (1, 2), (5, 2), (1, 1)])
        opts["dis_multipliers"] = p(0.08)
    usol = []
    if F.get("user_sol"):
        # solution-level user rules (C19, third level): balance of the route sizes / a cap on the stops planned altogether
        for _ in range(rng.randint(1, 2)):
            usol.append((("balance", rng.randint(0, 2)) if (nv > 1 and rng.random() < 0.7) else ("maxplanned", rng.randint(1, max(1, n - 1)))) +
                        (rng.random() < 0.5,))       # True: the exact check reads the constraint's own solution data (data updater)
    return {"usol": usol, "dgroups": dgroups, "groups": groups, "user": user, "stops": stops, "vehicles": vehicles, "units": units, "arcs": arcs, "dur": dur, "dist": dist,
            "nres": nres, "res_mode": res_mode, "opts": opts, "features": {k: bool(v) for k, v in F.items() if k != "fixed_p"}}


def force_fixed_dependency(m, rng):
    """rewrite a model without precedence/groups so that vehicle 0 starts with the route [a, X], X fixed, and X is
    only feasible while a (long service) is in front of it: X's window opens when the vehicle arrives WITH a, X's
    max_wait is smaller than the extra waiting WITHOUT a.  Un-planning a (alone or with the vehicle-level un-plan)
    is then rejected by the exact check and has to be rolled back."""
    n = len(m["stops"])
    if n < 2 or any(len(u["stops"]) != 1 for u in m["units"]) or m.get("groups"):
        return m
    a, x = rng.sample(range(n), 2)
    ve = m["vehicles"][0]
    if ve["start_time"] is None:
        ve["start_time"] = T0
    ve["has_start"] = ve["has_end"] = True
    ve["end_time"] = None
    ve["max_duration"] = None
    ve["max_wait"] = None
    for v2 in m["vehicles"]:
        v2["initial"] = [p for p in v2.get("initial", []) if p[0] not in (a, x)]
        if v2["start_time"] is None:          # a stop with a window needs every vehicle to have a start time
            v2["start_time"] = T0
    s0 = n  # matrix index of vehicle 0's start
    sa, sx = m["stops"][a], m["stops"][x]
    sa["duration"] = rng.choice([900, 1800, 3000])
    sa["windows"], sa["max_wait"] = [], None
    arr_a = ve["start_time"] + m["dur"][s0][a]
    arr_x_with = arr_a + sa["duration"] + m["dur"][a][x]
    arr_x_without = ve["start_time"] + m["dur"][s0][x]
    opens = -(-arr_x_with // 60) * 60          # windows must lie on minute boundaries
    sx["windows"] = [(opens, opens + 7200)]
    sx["max_wait"] = max(60, min(300, (opens - arr_x_without) - 120))
    for st in (sa, sx):
        st["quantity"] = [0] * m["nres"]
        st["attrs"] = []
    ve["attrs"] = []
    ve["max_stops"] = None
    ve["max_distance"] = None
    ve["initial"] = [(a, False), (x, True)] + [p for p in ve.get("initial", []) if p[0] not in (a, x)][:1]
    m["opts"]["dis_windows"] = m["opts"]["dis_max_wait_stop"] = m["opts"]["dis_durations"] = False
    m["opts"]["dis_start_time"] = False
    m["features"]["windows"] = m["features"]["maxwait_stop"] = m["features"]["initial"] = True
    return m


def dgroup_focus(rng, size="small", vehicle_wait=False):
    """models in which the time spent at a stop changes with its predecessor while arrivals stay the same: everything
    at one place (zero travel), most own durations zero, long group durations, stops with two windows far apart and a
    small max wait behind them"""
    feats = {"capacity": False, "endtime": False, "maxdur": False, "maxstops": False, "maxdist": False, "attrs": False,
             "windows": True, "maxwait_stop": not vehicle_wait, "maxwait_veh": vehicle_wait, "colocated": True, "precedence": False,
             "dgroups": True, "dgroups_focus": True, "one_vehicle": True, "nonmetric": False, "no_startloc": False, "objx": False}
    m = gen_model(rng, size, feats)
    n = len(m["stops"])
    N = len(m["dur"])
    m["dur"] = [[0] * N for _ in range(N)]
    for i, s_ in enumerate(m["stops"]):
        if rng.random() < 0.7:
            s_["duration"] = 0
        if rng.random() < 0.5:
            a = T0 + 60 * rng.randint(0, 10)
            b = a + 60 * rng.choice([5, 15])
            c = b + 60 * rng.choice([30, 45, 60])
            s_["windows"] = [(a, b), (c, c + 3600)]
            if not vehicle_wait:
                s_["max_wait"] = rng.choice([0, 60, 300])
        else:
            s_["windows"] = []
            s_["max_wait"] = None
    for ve in m["vehicles"]:
        ve["start_time"] = T0
        if vehicle_wait:
            ve["max_wait"] = rng.choice([60, 300, 900])
    for k in ("dis_windows", "dis_max_wait_stop", "dis_max_wait_vehicle", "dis_durations", "dis_dgroups", "dis_start_time"):
        m["opts"][k] = False
    return m


def member_unplan_rejected(rng):
    """a stop group whose member a picks up what a later stop d drops off: once a, its sibling b and d are on the route,
    un-planning the member a on its own is rejected by the capacity check (the level at d would go below zero)"""
    T = T0
    extra = rng.randint(0, 2)
    n = 3 + extra
    N = n + 2
    stops = []
    for i in range(n):
        q = [-1] if i == 0 else [1] if i == 2 else [0]
        stops.append({"quantity": q, "duration": rng.choice([0, 60]), "windows": [], "max_wait": None, "penalty": rng.choice([None, 500]),
                      "attrs": [], "target": None, "early_pen": 0, "late_pen": 0})
    units = [{"stops": [i], "arcs": [], "orders": [[i]]} for i in range(n)]
    ve = {"capacity": [rng.randint(1, 3)], "start_level": [0], "start_time": T, "end_time": None, "max_duration": None, "max_stops": None,
          "max_distance": None, "max_wait": None, "attrs": [], "activation": None, "has_start": True, "has_end": True, "initial": [],
          "min_stops": 0, "min_stops_pen": 0}
    dur = [[0 if i == j else rng.randint(10, 300) for j in range(N)] for i in range(N)]
    dist = [[0 if i == j else rng.randint(10, 3000) for j in range(N)] for i in range(N)]
    opts = {k: False for k in ["dis_capacity", "dis_distance", "dis_max_duration", "dis_end_time", "dis_windows", "dis_max_stops",
                               "dis_max_wait_stop", "dis_max_wait_vehicle", "dis_attributes", "dis_start_time", "dis_durations", "dis_dgroups"]}
    opts.update({"f_activation": 0, "f_travel": 1, "f_vehicles_duration": 1, "f_unplanned": 1, "f_early": 0, "f_late": 0, "f_min_stops": 0,
                 "f_stop_balance": 0})
    m = {"dgroups": [], "groups": [[0, 1]], "user": [], "stops": stops, "vehicles": [ve], "units": units, "arcs": [], "dur": dur, "dist": dist,
         "nres": 1, "res_mode": "single", "opts": opts, "features": {"groups": True, "capacity": True}}
    ops = []
    for _ in range(rng.randint(4, 9)):
        ops.append(gen_ops(rng, m, 1, "plan_only")[0])
    ops.append("op munplanr %d" % rng.randrange(1 << 20))
    ops += [gen_ops(rng, m, 1, "plan_only")[0], "op snapall"]
    return m, ops


def initial_group_mixed_fixed(rng):
    """a stop group given as initial stops of one vehicle with the fixed flag on one member only, one or two free initial stops
    around it, and a maximum duration the initial route may or may not exceed: what addInitialSolution removes"""
    extra = rng.randint(1, 2)
    n = 2 + extra
    N = n + 2
    stops = [{"quantity": [], "duration": rng.choice([0, 60, 300]), "windows": [], "max_wait": None, "penalty": rng.choice([None, 500]),
              "attrs": [], "target": None, "early_pen": 0, "late_pen": 0} for _ in range(n)]
    units = [{"stops": [i], "arcs": [], "orders": [[i]]} for i in range(n)]
    dur = [[0 if i == j else rng.randint(60, 900) for j in range(N)] for i in range(N)]
    dist = [[0 if i == j else rng.randint(10, 3000) for j in range(N)] for i in range(N)]
    seq = list(range(n))
    rng.shuffle(seq)
    fixed_member = rng.choice([0, 1])
    total = sum(dur[a][b] for a, b in zip([n] + seq, seq + [n + 1])) + sum(s_["duration"] for s_ in stops)
    ve = {"capacity": None, "start_level": [], "start_time": T0, "end_time": None,
          "max_duration": max(60, int(total * rng.choice([0.4, 0.7, 0.95, 1.5]))), "max_stops": None,
          "max_distance": None, "max_wait": None, "attrs": [], "activation": None, "has_start": True, "has_end": True,
          "initial": [(x, x == fixed_member) for x in seq], "min_stops": 0, "min_stops_pen": 0}
    opts = {k: False for k in ["dis_capacity", "dis_distance", "dis_max_duration", "dis_end_time", "dis_windows", "dis_max_stops",
                               "dis_max_wait_stop", "dis_max_wait_vehicle", "dis_attributes", "dis_start_time", "dis_durations", "dis_dgroups"]}
    opts.update({"f_activation": 0, "f_travel": 1, "f_vehicles_duration": 1, "f_unplanned": 1, "f_early": 0, "f_late": 0, "f_min_stops": 0,
                 "f_stop_balance": 0})
    m = {"dgroups": [], "groups": [[0, 1]], "user": [], "stops": stops, "vehicles": [ve], "units": units, "arcs": [], "dur": dur, "dist": dist,
         "nres": 0, "res_mode": "none", "opts": opts, "features": {"groups": True, "initial": True}}
    return m, ["op snapall"]


def unit_of(units, x):
    for k, u in enumerate(units):
        if x in u["stops"]:
            return k
    return None


def res_names(m):
    if m["res_mode"] == "single":
        return ["default"]
    return ["r%d" % i for i in range(m["nres"])]


def res_json(m, vals):
    if m["res_mode"] == "single":
        return vals[0]
    return {"r%d" % i: v for i, v in enumerate(vals)}


def to_json(m):
    n = len(m["stops"])
    stops = []
    prec = {}
    for a, b, d in m["arcs"]:
        prec.setdefault(a, []).append({"id": "s%d" % b, "direct": True} if d else "s%d" % b)
    for i, s in enumerate(m["stops"]):
        js = {"id": "s%d" % i, "location": {"lon": 7.0 + 0.01 * i, "lat": 51.0 + 0.01 * (i % 3)}}
        if m["nres"] and any(q != 0 for q in s["quantity"]) or (m["nres"] and i % 2 == 0):
            js["quantity"] = res_json(m, s["quantity"])
        js["duration"] = s["duration"]
        if s.get("target") is not None:
            js["target_arrival_time"] = rfc(s["target"])
            if s["early_pen"] or i % 2 == 0:
                js["early_arrival_time_penalty"] = float(s["early_pen"])
            if s["late_pen"] or i % 3 == 0:
                js["late_arrival_time_penalty"] = float(s["late_pen"])
        if s["windows"]:
            if len(s["windows"]) == 1 and i % 2 == 0:
                js["start_time_window"] = [rfc(s["windows"][0][0]), rfc(s["windows"][0][1])]
            else:
                js["start_time_window"] = [[rfc(a), rfc(b)] for a, b in s["windows"]]
        if s["max_wait"] is not None:
            js["max_wait"] = s["max_wait"]
        if s["penalty"] is not None:
            js["unplanned_penalty"] = s["penalty"]
        if s["attrs"]:
            js["compatibility_attributes"] = ["a%d" % a for a in s["attrs"]]
        if i in prec:
            js["precedes"] = prec[i] if len(prec[i]) > 1 or isinstance(prec[i][0], dict) else prec[i][0]
        stops.append(js)
    vehicles = []
    for v, ve in enumerate(m["vehicles"]):
        jv = {"id": "v%d" % v}
        if ve["has_start"]:
            jv["start_location"] = {"lon": 7.5 + 0.01 * v, "lat": 51.5}
        if ve["has_end"]:
            jv["end_location"] = {"lon": 7.6 + 0.01 * v, "lat": 51.6}
        if ve["capacity"] is not None:
            jv["capacity"] = res_json(m, ve["capacity"])
            if ve["start_level"]:
                jv["start_level"] = res_json(m, ve["start_level"])
        if ve["start_time"] is not None:
            jv["start_time"] = rfc(ve["start_time"])
        if ve.get("mult", (1, 1)) != (1, 1):
            jv["stop_duration_multiplier"] = ve["mult"][0] / ve["mult"][1]
        if ve.get("min_stops") or ve.get("min_stops_pen"):
            jv["min_stops"] = ve["min_stops"]
            jv["min_stops_penalty"] = float(ve["min_stops_pen"])
        if ve["end_time"] is not None:
            jv["end_time"] = rfc(ve["end_time"])
        for k, jk in (("max_duration", "max_duration"), ("max_stops", "max_stops"), ("max_distance", "max_distance"),
                      ("max_wait", "max_wait")):
            if ve[k] is not None:
                jv[jk] = ve[k]
        if ve["attrs"]:
            jv["compatibility_attributes"] = ["a%d" % a for a in ve["attrs"]]
        if ve["activation"] is not None:
            jv["activation_penalty"] = ve["activation"]
        vehicles.append(jv)
    for v, ve in enumerate(m["vehicles"]):
        if ve.get("initial"):
            vehicles[v]["initial_stops"] = [{"id": "s%d" % x, "fixed": bool(fx)} for x, fx in ve["initial"]]
    inp = {"stops": stops, "vehicles": vehicles, "duration_matrix": m["dur"], "distance_matrix": m["dist"]}
    if m.get("dgroups"):
        inp["duration_groups"] = [{"group": ["s%d" % x for x in g], "duration": d} for g, d in m["dgroups"]]
    if m.get("groups"):
        inp["stop_groups"] = [["s%d" % x for ui in g for x in m["units"][ui]["stops"]] for g in m["groups"]]
    o = m["opts"]
    gopt = {
        "constraints": {"disable": {
            "attributes": o["dis_attributes"], "capacity": o["dis_capacity"], "capacities": [],
            "distance_limit": o["dis_distance"], "groups": False, "maximum_duration": o["dis_max_duration"],
            "maximum_stops": o["dis_max_stops"], "maximum_wait_stop": o["dis_max_wait_stop"],
            "maximum_wait_vehicle": o["dis_max_wait_vehicle"], "mixing_items": False, "precedence": False,
            "vehicle_start_time": o["dis_start_time"], "vehicle_end_time": o["dis_end_time"],
            "start_time_windows": o["dis_windows"]}, "enable": {"cluster": False}},
        "objectives": {"capacities": ";".join("name=%s;factor=%d.0;offset=%d.0" % (res_names(m)[r], f, off) for r, f, off in o.get("cap_obj", [])),
                       "min_stops": float(o.get("f_min_stops", 0)), "early_arrival_penalty": float(o.get("f_early", 0)),
                       "late_arrival_penalty": float(o.get("f_late", 0)),
                       "vehicle_activation_penalty": float(o["f_activation"]), "travel_duration": float(o["f_travel"]),
                       "vehicles_duration": float(o["f_vehicles_duration"]), "unplanned_penalty": float(o["f_unplanned"]),
                       "cluster": 0.0, "stop_balance": float(o.get("f_stop_balance", 0))},
        "properties": {"disable": {"durations": o["dis_durations"], "stop_duration_multipliers": bool(o.get("dis_multipliers")),
                                   "duration_groups": bool(o.get("dis_dgroups")), "initial_solution": False}},
        "validate": {"disable": {"start_time": False, "resources": True},
                     "enable": {"matrix": False, "matrix_asymmetry_tolerance": 20}},
    }
    return inp, gopt


def opt_str(x):
    return "-" if x is None else str(x)


def to_lines(m):
    o = m["opts"]
    b = lambda x: "1" if x else "0"  # noqa: E731
    ls = ["user %s %d %s %s%s" % (u[0], u[1], b(u[2]), b(u[3]), " 1" if len(u) > 4 and u[4] else "") for u in m.get("user", [])] + \
         ["usol %s %d%s" % (u[0], u[1], " data" if len(u) > 2 and u[2] else "") for u in m.get("usol", [])] + ["nres %d" % m["nres"],
          "opt " + " ".join([b(o[k]) for k in ["dis_capacity", "dis_distance", "dis_max_duration", "dis_end_time",
                                               "dis_windows", "dis_max_stops", "dis_max_wait_stop", "dis_max_wait_vehicle",
                                               "dis_attributes", "dis_start_time", "dis_durations"]] +
                          [str(o[k]) for k in ["f_activation", "f_travel", "f_vehicles_duration", "f_unplanned"]])]
    for s in m["stops"]:
        q = s["quantity"]
        ws = s["windows"]
        ls.append("stop q %d %s d %d w %d %s mw %s p %d at %d %s" % (
            len(q), " ".join(map(str, q)), s["duration"], len(ws), " ".join("%d %d" % w for w in ws),
            opt_str(s["max_wait"]), 1000000 if s["penalty"] is None else s["penalty"],
            len(s["attrs"]), " ".join(map(str, s["attrs"]))))
    for ve in m["vehicles"]:
        cap = "-" if ve["capacity"] is None else "%d %s" % (len(ve["capacity"]), " ".join(map(str, ve["capacity"])))
        sl = ve["start_level"]
        ls.append("veh cap %s sl %d %s st %d et %s md %s ms %s mx %s mw %s at %d %s ac %d hs %s he %s" % (
            cap, len(sl), " ".join(map(str, sl)), 0 if ve["start_time"] is None else ve["start_time"],
            opt_str(ve["end_time"]), opt_str(ve["max_duration"]), opt_str(ve["max_stops"]), opt_str(ve["max_distance"]),
            opt_str(ve["max_wait"]), len(ve["attrs"]), " ".join(map(str, ve["attrs"])),
            0 if ve["activation"] is None else ve["activation"], b(ve["has_start"]), b(ve["has_end"])))
    for u in m["units"]:
        ls.append("unit %d %s arcs %d %s" % (len(u["stops"]), " ".join(map(str, u["stops"])), len(u["arcs"]),
                                             " ".join("%d %d %s" % (a, bb, b(d)) for a, bb, d in u["arcs"])))
        for od in u["orders"]:
            ls.append("uorder %d %d %s" % (min(u["stops"]), len(od), " ".join(map(str, od))))
    if m.get("triangle"):
        ls.append("triangle 1")
    if m["features"].get("objx"):
        ls.append("xopt %d %d %d %d" % (o["f_early"], o["f_late"], o["f_min_stops"], o["f_stop_balance"]))
        for i, s in enumerate(m["stops"]):
            if s.get("target") is not None:
                ls.append("xstop %d %d %d %d" % (i, s["target"], s["early_pen"], s["late_pen"]))
        for v, ve in enumerate(m["vehicles"]):
            if ve.get("min_stops") or ve.get("min_stops_pen"):
                ls.append("xveh %d %d %d" % (v, ve["min_stops"], ve["min_stops_pen"]))
    for r, f, off in o.get("cap_obj", []):
        ls.append("capobj %d %d %d" % (r, f, off))
    if m["features"].get("mult"):
        ls.append("xmopt %s" % b(o.get("dis_multipliers")))
        for v, ve in enumerate(m["vehicles"]):
            if ve.get("mult", (1, 1)) != (1, 1):
                ls.append("xmult %d %d %d" % (v, ve["mult"][0], ve["mult"][1]))
    if m.get("dgroups"):
        ls.append("dgopt %s" % b(o.get("dis_dgroups")))
        for g, d in m["dgroups"]:
            ls.append("dgroup %d %d %s" % (d, len(g), " ".join(map(str, g))))
    for g in m.get("groups", []):
        ls.append("group %d %s" % (len(g), " ".join(str(min(m["units"][ui]["stops"])) for ui in g)))
    for v, ve in enumerate(m["vehicles"]):
        if ve.get("initial"):
            ls.append("initial %d %d %s" % (v, len(ve["initial"]), " ".join("%d %s" % (x, b(fx)) for x, fx in ve["initial"])))
    for row in m["dur"]:
        ls.append("drow " + " ".join(map(str, row)))
    for row in m["dist"]:
        ls.append("xrow " + " ".join(map(str, row)))
    return ls


def gen_ops(rng, m, nops, mode="unchecked"):
    ops = []
    maxu = max(len(u["stops"]) for u in m["units"])
    for g in m.get("groups", []):
        maxu = max(maxu, sum(len(m["units"][ui]["stops"]) for ui in g))
    if mode == "copy_unplan":
        # what the solver does in every iteration: work on a COPY - plan, copy, go to the copy, un-plan there, plan again
        plan = lambda: "op planr %d %d %d %s" % (rng.randrange(1 << 20), rng.randrange(1 << 20), rng.randrange(1 << 20),  # noqa: E731
                                                 " ".join(str(rng.randrange(1 << 20)) for _ in range(maxu)))
        ops += [plan() for _ in range(rng.randint(3, 8))]
        ncopies = 0
        while len(ops) < nops:
            ops.append("op copy")
            ncopies += 1
            ops.append("op switch %d" % (ncopies if rng.random() < 0.8 else rng.randrange(0, ncopies + 1)))
            for _ in range(rng.randint(1, 4)):
                ops.append("op unplanr %d" % rng.randrange(1 << 20))
            for _ in range(rng.randint(0, 3)):
                ops.append(plan())
            ops.append("op snapall")
        return ops
    for _ in range(nops):
        r = rng.random()
        if mode == "plan_only":
            r = 0.0
        if mode == "checked_grow":
            r = r * 0.62 if r < 0.85 else 0.62 + (r - 0.85) / 0.15 * 0.38   # 85% plan operations: long routes
        if r < 0.62:
            kind = "planr" if mode in ("unchecked", "plan_only") or (mode == "checked" and rng.random() < 0.3) else "plancr"
            ops.append("op %s %d %d %d %s" % (kind, rng.randrange(1 << 20), rng.randrange(1 << 20), rng.randrange(1 << 20),
                                              " ".join(str(rng.randrange(1 << 20)) for _ in range(maxu))))
        elif r < 0.92:
            q = rng.random()
            if m.get("groups") and q < 0.3:
                ops.append("op munplanr %d" % rng.randrange(1 << 20))
            elif (m.get("groups") or m.get("usol") or any(ve.get("initial") for ve in m["vehicles"])) and q < 0.4:
                ops.append("op vunplanr %d" % rng.randrange(1 << 20))
            else:
                ops.append("op unplanr %d" % rng.randrange(1 << 20))
        elif r < 0.95:
            ops.append("op copy")
        elif r < 0.98:
            ops.append("op switch %d" % rng.randrange(0, 3))
        else:
            ops.append("op snapall")
    ops.append("op snapall")
    return ops


def case_lines(m, ops):
    inp, gopt = to_json(m)
    return (["json " + json.dumps(inp, separators=(",", ":")), "gopt " + json.dumps(gopt, separators=(",", ":"))] +
            to_lines(m) + ["build " + " ".join(res_names(m))] + ops)
