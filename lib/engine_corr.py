"""Engine correspondence: run generated (model, history) cases on /repo and on
the extracted Coq model and diff the per-step snapshots."""
import os
import random
import common as C
import gen_engine as G


def make_cases(seed, n, size="small", nops=25, mode="unchecked", feats=None):
    rng = random.Random(seed)
    cases = []
    for i in range(n):
        m = G.gen_model(rng, size, feats)
        ops = G.gen_ops(rng, m, nops, mode)
        cases.append({"id": str(i), "model": m, "ops": ops})
    return cases


def run_cases(cases, tag, timeout=1200):
    cf = os.path.join(C.BUILD, "engine_%s.case" % tag)
    C.write_cases(cf, [(c["id"], G.case_lines(c["model"], c["ops"])) for c in cases])
    (rc1, go_out, go_err), (rc2, ml_out, ml_err) = C.run_both("engine", cf, timeout=timeout)
    g, m = C.group_lines(go_out), C.group_lines(ml_out)
    res = []
    for c in cases:
        gl_all, ml_all = g.get(c["id"], []), m.get(c["id"], [])
        qg = [l for l in gl_all if " Q " in l]
        qm = [l for l in ml_all if " Q " in l]
        gl = [l for l in gl_all if " Q " not in l]
        ml = [l for l in ml_all if " Q " not in l]
        diff = None
        if gl != ml:
            for k, (a, b) in enumerate(zip(gl, ml)):
                if a != b:
                    diff = {"line": k, "impl": a, "model": b, "context": gl[max(0, k - 3):k]}
                    break
            if diff is None:
                diff = {"line": min(len(gl), len(ml)), "impl": "<%d lines>" % len(gl), "model": "<%d lines>" % len(ml),
                        "tail_impl": gl[-2:], "tail_model": ml[-2:]}
        res.append({"case": c, "impl": gl, "model": ml, "diff": diff, "q_impl": qg, "q_model": qm})
    return res, (rc1, go_err, rc2, ml_err)


if __name__ == "__main__":
    import sys, json
    seed = int(sys.argv[1]) if len(sys.argv) > 1 else 1
    n = int(sys.argv[2]) if len(sys.argv) > 2 else 50
    mode = sys.argv[3] if len(sys.argv) > 3 else "unchecked"
    res, st = run_cases(make_cases(seed, n, mode=mode), "dev")
    print("status", st[0], st[1][-300:], st[2], st[3][-300:])
    bad = [r for r in res if r["diff"]]
    kinds = {}
    for r in res:
        for l in r["impl"]:
            f = l.split()
            if len(f) >= 4 and f[1] == "move":
                k = "executable " + f[3]
                kinds[k] = kinds.get(k, 0) + 1
            if len(f) >= 3 and f[1] == "result" or (len(f) >= 2 and f[0] == "build"):
                k = " ".join(f[-2:]) if f[0] != "build" else "build " + f[-1]
                kinds[k] = kinds.get(k, 0) + 1
    print("cases", len(res), "mismatching", len(bad), kinds)
    for r in bad[:3]:
        print(r["case"]["id"], json.dumps(r["diff"])[:700])
