"""Property predicates evaluated on the CLI-format JSON output of the real
solver for full-feature inputs (lib/gen_full.py), recomputed from the input
alone.  Search tool only; covers features outside the Coq-modelled core
(groups, alternates, mixing items, initial stops, multipliers, duration
groups)."""
from datetime import datetime, timezone


def ts(s):
    if s is None:
        return None
    return int(datetime.fromisoformat(s.replace("Z", "+00:00")).timestamp())


def as_list(x):
    if x is None:
        return []
    return x if isinstance(x, list) else [x]


def quantity_of(stop, res):
    q = stop.get("quantity")
    if q is None:
        return 0
    if isinstance(q, dict):
        return q.get(res, 0)
    return q if res == "default" else 0


def resources_of(inp):
    names = set()
    for s in inp.get("stops", []) + inp.get("alternate_stops", []):
        q = s.get("quantity")
        if isinstance(q, dict):
            names |= set(q)
        elif q is not None:
            names.add("default")
    for v in inp["vehicles"]:
        c = v.get("capacity")
        if isinstance(c, dict):
            names |= set(c)
        elif c is not None:
            names.add("default")
    return sorted(names)


def cap_of(v, res, key="capacity"):
    c = v.get(key)
    if c is None:
        return 0
    if isinstance(c, dict):
        return c.get(res, 0)
    return c if res == "default" else 0


def precedence_arcs(inp):
    arcs = []
    for s in inp["stops"]:
        for tgt in as_list(s.get("precedes")):
            if isinstance(tgt, dict):
                arcs.append((s["id"], tgt["id"], bool(tgt.get("direct"))))
            else:
                arcs.append((s["id"], tgt, False))
        for src in as_list(s.get("succeeds")):
            if isinstance(src, dict):
                arcs.append((src["id"], s["id"], bool(src.get("direct"))))
            else:
                arcs.append((src, s["id"], False))
    return arcs


def check_output(inp, opts, out):
    """returns dict property -> list of failure strings"""
    F = {k: [] for k in ("C01", "C02", "C03", "C04", "C05", "C08", "C20")}
    dis = opts["constraints"]["disable"]
    stops = {s["id"]: s for s in inp["stops"]}
    alts = {a["id"]: a for a in inp.get("alternate_stops", [])}
    veh_in = {v["id"]: v for v in inp["vehicles"]}
    routes = {}
    where = {}
    for vo in out.get("vehicles", []):
        ids = [st["stop"]["id"] for st in vo.get("route", [])]
        routes[vo["id"]] = (ids, vo)
        for pos, sid in enumerate(ids):
            if sid.endswith("-start") or sid.endswith("-end"):
                continue
            where.setdefault(sid, []).append((vo["id"], pos))
    unplanned = [u["id"] for u in out.get("unplanned", [])]
    # ---- C03 / C20: every input stop exactly once
    for sid in stops:
        n = len(where.get(sid, [])) + unplanned.count(sid)
        if n != 1:
            F["C03"].append("stop %s appears %d times in the output (routes %s, unplanned %d)" % (sid, n, where.get(sid, []), unplanned.count(sid)))
            F["C20"].append("stop %s listed %d times" % (sid, n))
    # ---- C08: unplanned never mentions a stop on a route
    for sid in unplanned:
        if sid in where:
            F["C08"].append("stop %s is listed unplanned and is on route %s" % (sid, where[sid]))
    # ---- C03: precedence, direct, groups, alternates, fixed
    if not dis["precedence"]:
        for a, b, d in precedence_arcs(inp):
            wa, wb = where.get(a), where.get(b)
            if (wa is None) != (wb is None):
                F["C03"].append("precedence pair %s -> %s half planned" % (a, b))
            elif wa and wb:
                if wa[0][0] != wb[0][0]:
                    F["C03"].append("%s and %s tied by precedence are on different vehicles" % (a, b))
                elif not wa[0][1] < wb[0][1]:
                    F["C03"].append("%s must precede %s" % (a, b))
                elif d and wb[0][1] != wa[0][1] + 1:
                    F["C03"].append("%s must directly precede %s (positions %d, %d)" % (a, b, wa[0][1], wb[0][1]))
    if not dis["groups"]:
        for g in inp.get("stop_groups", []) or []:
            on = [s for s in g if s in where]
            if on and (len(on) != len(g) or len({where[s][0][0] for s in g}) != 1):
                F["C03"].append("stop group %s split: on routes %s" % (g, {s: where.get(s) for s in g}))
    for vid, (ids, vo) in routes.items():
        used = [sid for sid in ids if sid in alts]
        own = set(veh_in[vid].get("alternate_stops") or [])
        if len(used) > 1:
            F["C03"].append("vehicle %s uses %d alternate stops %s" % (vid, len(used), used))
        for a in used:
            if a not in own:
                F["C03"].append("alternate %s on vehicle %s which does not list it" % (a, vid))
    if not opts["properties"]["disable"]["initial_solution"]:
        for v in inp["vehicles"]:
            for ini in v.get("initial_stops") or []:
                if ini.get("fixed") and (where.get(ini["id"]) or [(None,)])[0][0] != v["id"]:
                    F["C03"].append("fixed initial stop %s is not on its vehicle %s (is %s)" % (ini["id"], v["id"], where.get(ini["id"])))
    # ---- C01 on routes
    for vid, (ids, vo) in routes.items():
        v = veh_in[vid]
        inner = [sid for sid in ids if not (sid.endswith("-start") or sid.endswith("-end"))]
        if not dis["capacity"]:
            for res in resources_of(inp):
                if res in (dis.get("capacities") or []):
                    continue
                cap = cap_of(v, res)
                lvl = cap_of(v, res, "start_level") if v.get("capacity") is not None else 0
                for sid in inner:
                    src = stops.get(sid) or alts.get(sid)
                    lvl -= quantity_of(src, res)
                    if lvl < 0 or lvl > cap:
                        F["C01"].append("vehicle %s resource %s level %s outside [0,%s] after %s" % (vid, res, lvl, cap, sid))
                        break
        if v.get("max_stops") is not None and not dis["maximum_stops"] and len(inner) > v["max_stops"]:
            F["C01"].append("vehicle %s has %d stops > max_stops %d" % (vid, len(inner), v["max_stops"]))
        if not dis["attributes"]:
            for sid in inner:
                at = (stops.get(sid) or {}).get("compatibility_attributes")
                if at and not set(at) & set(v.get("compatibility_attributes") or []):
                    F["C01"].append("stop %s attributes %s not offered by vehicle %s" % (sid, at, vid))
        if not dis["mixing_items"]:
            onboard = {}
            for sid in inner:
                mi = (stops.get(sid) or {}).get("mixing_items")
                if mi:
                    for res, it in mi.items():
                        cur = onboard.setdefault(res, {})
                        cur[it["name"]] = cur.get(it["name"], 0) + it["quantity"]
                        if cur[it["name"]] == 0:
                            del cur[it["name"]]
                        if len(cur) > 1 or any(q < 0 for q in cur.values()):
                            F["C01"].append("vehicle %s mixes items %s after %s" % (vid, cur, sid))
        if v.get("max_distance") is not None and not dis["distance_limit"] and vo.get("route_travel_distance", 0) > v["max_distance"]:
            F["C01"].append("vehicle %s travels %s > max_distance %s" % (vid, vo.get("route_travel_distance"), v["max_distance"]))
        # ---- C02 from reported times
        for st in vo.get("route", []):
            sid = st["stop"]["id"]
            src = stops.get(sid) or alts.get(sid)
            if src is None or "start_time" not in st:
                continue
            s_, a_ = ts(st["start_time"]), ts(st["arrival_time"])
            if s_ < a_:
                F["C02"].append("stop %s starts before it arrives" % sid)
            w = src.get("start_time_window")
            if w and not dis["start_time_windows"]:
                ws = [w] if isinstance(w[0], str) else w
                if not any(ts(x[0]) <= s_ <= ts(x[1]) for x in ws):
                    F["C02"].append("stop %s starts at %s outside its windows %s" % (sid, st["start_time"], ws))
            if src.get("max_wait") is not None and not dis["maximum_wait_stop"] and st.get("waiting_duration", 0) > src["max_wait"]:
                F["C02"].append("stop %s waits %s > max_wait %s" % (sid, st.get("waiting_duration"), src["max_wait"]))
        rt = vo.get("route", [])
        if rt and "end_time" in rt[-1]:
            if v.get("end_time") and not dis["vehicle_end_time"] and ts(rt[-1]["end_time"]) > ts(v["end_time"]):
                F["C02"].append("vehicle %s ends %s after end_time %s" % (vid, rt[-1]["end_time"], v["end_time"]))
        if v.get("max_duration") is not None and not dis["maximum_duration"] and vo.get("route_duration", 0) > v["max_duration"]:
            F["C02"].append("vehicle %s duration %s > max_duration %s" % (vid, vo.get("route_duration"), v["max_duration"]))
        if v.get("max_wait") is not None and not dis["maximum_wait_vehicle"] and vo.get("route_waiting_duration", 0) > v["max_wait"]:
            F["C02"].append("vehicle %s waits %s > max_wait %s" % (vid, vo.get("route_waiting_duration"), v["max_wait"]))
    # ---- C04: service duration = stop duration x the serving vehicle's multiplier (+ group surcharge on entry)
    pd = opts["properties"]["disable"]
    dflt_dur = ((inp.get("defaults") or {}).get("stops") or {}).get("duration")
    group_of, group_dur = {}, {}
    if not pd["duration_groups"]:
        for gi, g in enumerate(inp.get("duration_groups") or []):
            for sid in g["group"]:
                group_of[sid] = gi
            group_dur[gi] = g.get("duration", 0)
    for vid, (ids, vo) in routes.items():
        v = veh_in[vid]
        mult = 1.0 if pd["stop_duration_multipliers"] or v.get("stop_duration_multiplier") is None else v["stop_duration_multiplier"]
        prev = None
        for st in vo.get("route", []):
            sid = st["stop"]["id"]
            src = stops.get(sid) or alts.get(sid)
            if src is not None:
                d0 = 0 if pd["durations"] else src.get("duration", dflt_dur if (dflt_dur is not None and sid in stops) else 0)
                exp = int(d0 * mult)
                if sid in group_of and group_of.get(prev) != group_of[sid]:
                    exp += int(group_dur[group_of[sid]] * mult)
                if st.get("duration", 0) != exp:
                    F["C04"].append("stop %s on vehicle %s (multiplier %s) reports duration %s, input gives %s" % (sid, vid, mult, st.get("duration", 0), exp))
            prev = sid
    # ---- C04: travel duration of every leg recomputed from the duration matrix (plain or time dependent: frames with a
    # scaling factor or an own matrix, blended across frame boundaries) at the reported departure; arrival = departure + travel
    dm = inp.get("duration_matrix")
    per_vehicle = isinstance(dm, list) and bool(dm) and isinstance(dm[0], dict)
    if dm is not None and (isinstance(dm, dict) or per_vehicle or (isinstance(dm, list) and dm and isinstance(dm[0], list))):
        from fractions import Fraction as Fr
        nst, nal = len(inp["stops"]), len(inp.get("alternate_stops", []))
        sidx = {x["id"]: k for k, x in enumerate(inp["stops"])}
        aidx = {x["id"]: nst + k for k, x in enumerate(inp.get("alternate_stops", []))}
        vidx = {v["id"]: k for k, v in enumerate(inp["vehicles"])}
        # a list of time-dependent matrices: one per set of vehicles (vehicle_ids)
        by_vehicle = {}
        if per_vehicle:
            for one in dm:
                for v_ in one.get("vehicle_ids") or []:
                    by_vehicle[v_] = one
        default, frames = None, []

        def select(vid_):
            nonlocal default, frames
            one = by_vehicle.get(vid_) if per_vehicle else dm
            if one is None:
                default, frames = None, []
                return False
            default = one["default_matrix"] if isinstance(one, dict) else one
            frames = []
            if isinstance(one, dict):
                for fr in one.get("matrix_time_frames") or []:
                    frames.append((ts(fr["start_time"]), ts(fr["end_time"]), fr))
                frames.sort(key=lambda x: x[0])
            return True

        def leg(fr, i, j):
            if fr is None:
                return Fr(default[i][j])
            if fr.get("matrix") is not None:
                return Fr(fr["matrix"][i][j])
            return Fr(default[i][j]) * Fr(str(fr.get("scaling_factor", 1.0)))

        def segments():
            segs, cur = [], 0
            for a, b, fr in frames:
                if a > cur:
                    segs.append((cur, a, None))
                segs.append((a, b, fr))
                cur = b
            segs.append((cur, None, None))
            return segs

        def travel(dep, i, j):
            if not frames:
                return Fr(default[i][j])
            segs = segments()
            k = max(x for x in range(len(segs)) if segs[x][0] <= dep)
            d = leg(segs[k][2], i, j)
            if d == 0:
                return Fr(0)
            if segs[k][1] is None:
                return d
            fc = (Fr(segs[k][1]) - dep) / d
            if fc >= 1:
                return d
            acc = fc * d
            for a, b, fr in segs[k + 1:]:
                req = (1 - fc) * leg(fr, i, j)
                if req == 0:
                    return acc
                if b is None:
                    return acc + req
                can = Fr(b - a) / req
                if can >= 1:
                    return acc + req
                acc += can * req
                fc += can * (1 - fc)
            return acc

        def index_of(sid, vid):
            if sid in sidx:
                return sidx[sid]
            if sid in aidx:
                return aidx[sid]
            if sid == vid + "-start":
                return nst + nal + 2 * vidx[vid] if veh_in[vid].get("start_location") else None
            if sid == vid + "-end":
                return nst + nal + 2 * vidx[vid] + 1 if veh_in[vid].get("end_location") else None
            return None
        for vid, (ids, vo) in routes.items():
            rt = vo.get("route", [])
            if not select(vid):
                continue
            for a, b in zip(rt, rt[1:]):
                i, j = index_of(a["stop"]["id"], vid), index_of(b["stop"]["id"], vid)
                if i is None or j is None:
                    continue
                if frames and "end_time" not in a:
                    continue
                dep = Fr(ts(a["end_time"])) if "end_time" in a else Fr(0)
                try:
                    exp = travel(dep, i, j)
                except (IndexError, TypeError):
                    continue
                got = b.get("travel_duration", 0)
                # the departure is reported in whole seconds: the true one lies within [dep, dep + 1)
                lo, hi = min(exp, travel(dep + 1, i, j) if frames else exp), max(exp, travel(dep + 1, i, j) if frames else exp)
                if not (lo - 2 <= got <= hi + 2):
                    F["C04"].append("leg %s -> %s on vehicle %s: reported travel duration %s, the matrix gives %s at departure %s"
                                    % (a["stop"]["id"], b["stop"]["id"], vid, got, float(exp), a.get("end_time")))
                if "arrival_time" in b and "end_time" in a and abs(ts(b["arrival_time"]) - ts(a["end_time"]) - got) > 2:
                    F["C04"].append("stop %s on vehicle %s arrives %s, departure %s + travel %s" % (b["stop"]["id"], vid, b["arrival_time"], a["end_time"], got))
    # ---- C05 / C20 objective
    ob = out.get("objective", {})
    terms = {t["name"]: t for t in ob.get("objectives", [])}
    tot = sum(t.get("value", 0) for t in terms.values())
    if abs(tot - ob.get("value", 0)) > 1e-6 * max(1.0, abs(tot)):
        F["C05"].append("objective value %s != sum of terms %s" % (ob.get("value"), tot))
        F["C20"].append("objective value %s != sum of terms %s" % (ob.get("value"), tot))
    if "vehicles_duration" in terms:
        exp = sum(vo.get("route_duration", 0) for _, vo in routes.values())
        if abs(terms["vehicles_duration"].get("base", 0) - exp) > len(routes) + 1e-9 * exp:
            F["C05"].append("vehicles_duration base %s, sum of route durations %s" % (terms["vehicles_duration"].get("base"), exp))
    if "unplanned_penalty" in terms:
        dflt = ((inp.get("defaults") or {}).get("stops") or {}).get("unplanned_penalty")
        exp = 0
        for sid in set(unplanned):
            src = stops.get(sid)
            if src is not None:
                p = src.get("unplanned_penalty", dflt if dflt is not None else 1000000)
                exp += p
        # alternates: a vehicle's alternates count as one unit (penalty of the unit = sum over its members) when none is used
        got = terms["unplanned_penalty"].get("base", 0)
        if not inp.get("alternate_stops"):
            if abs(got - exp) > 1e-6:
                F["C05"].append("unplanned_penalty base %s, penalties of the unplanned stops %s" % (got, exp))
        else:
            # the alternates of a vehicle are one plan-one-of unit: it costs the average penalty of its members while
            # none of them is on the vehicle's route, nothing once one is used
            exp_alt = 0.0
            for vid, (ids, vo) in routes.items():
                va = veh_in[vid].get("alternate_stops") or []
                if va and not any(a in ids for a in va):
                    exp_alt += sum(alts[a].get("unplanned_penalty", dflt if dflt is not None else 1000000) for a in va if a in alts) / len(va)
            if abs(got - (exp + exp_alt)) > 1e-6:
                kind = "[alternates overcharged]" if got > exp + exp_alt else "[alternates]"
                F["C05"].append("%s unplanned_penalty base %s, expected %s (unplanned stops %s + unused alternates %s)"
                                % (kind, got, exp + exp_alt, exp, exp_alt))
    if "travel_duration" in terms:
        exp = sum(vo.get("route_travel_duration", 0) for _, vo in routes.values())
        if abs(terms["travel_duration"].get("base", 0) - exp) > len(routes) + 1e-9 * exp:
            F["C05"].append("travel_duration base %s, sum of route travel durations %s" % (terms["travel_duration"].get("base"), exp))
    # early / late arrival: the output carries target and arrival per stop; durations and penalties follow from them
    exp_early = exp_late = 0.0
    unanchored = False
    tol_early = tol_late = 1e-6
    for vid, (ids, vo) in routes.items():
        for st in vo.get("route", []):
            sid = st["stop"]["id"]
            src = stops.get(sid) or alts.get(sid)
            # the output repeats the target of a stop; for an alternate stop it does not: take it from the input
            target = st.get("target_arrival_time") or (src or {}).get("target_arrival_time")
            if src is not None and target and not st.get("arrival_time"):
                unanchored = True        # vehicle without start_time: no absolute timeline in the output to recompute from
            if src is None or not target or not st.get("arrival_time"):
                continue
            tgt, arr = ts(target), ts(st["arrival_time"])
            early, late = max(0, tgt - arr), max(0, arr - tgt)
            # the output reports a duration only for stops that carry the corresponding penalty (factory/format.go)
            if sid in stops:
                if src.get("early_arrival_time_penalty") is not None and abs(st.get("early_arrival_duration", 0) - early) > 1:
                    F["C20"].append("stop %s: early_arrival_duration %s, target and arrival give %s" % (sid, st.get("early_arrival_duration", 0), early))
                if src.get("late_arrival_time_penalty") is not None and abs(st.get("late_arrival_duration", 0) - late) > 1:
                    F["C20"].append("stop %s: late_arrival_duration %s, target and arrival give %s" % (sid, st.get("late_arrival_duration", 0), late))
            fe, fl = src.get("early_arrival_time_penalty") or 0, src.get("late_arrival_time_penalty") or 0
            exp_early += fe * early
            exp_late += fl * late
            tol_early += fe
            tol_late += fl
    if "early_arrival_penalty" in terms and not unanchored and abs(terms["early_arrival_penalty"].get("base", 0) - exp_early) > tol_early:
        F["C05"].append("early_arrival_penalty base %s, penalties x early durations of the routes %s" % (terms["early_arrival_penalty"].get("base"), exp_early))
    if "late_arrival_penalty" in terms and not unanchored and abs(terms["late_arrival_penalty"].get("base", 0) - exp_late) > tol_late:
        F["C05"].append("late_arrival_penalty base %s, penalties x late durations of the routes %s" % (terms["late_arrival_penalty"].get("base"), exp_late))
    if "vehicle_activation_penalty" in terms:
        exp = sum((veh_in[vid].get("activation_penalty") or 0) for vid, (ids, vo) in routes.items()
                  if any(not (s.endswith("-start") or s.endswith("-end")) for s in ids))
        if abs(terms["vehicle_activation_penalty"].get("base", 0) - exp) > 1e-6:
            F["C05"].append("activation base %s, penalties of non-empty vehicles %s" % (terms["vehicle_activation_penalty"].get("base"), exp))
    nstops_of = {vid: sum(1 for s in ids if not (s.endswith("-start") or s.endswith("-end"))) for vid, (ids, vo) in routes.items()}
    if "stop_balance" in terms:
        exp = max(list(nstops_of.values()) + [0])
        if abs(terms["stop_balance"].get("base", 0) - exp) > 1e-6:
            F["C05"].append("stop_balance base %s, largest number of stops on a route %s" % (terms["stop_balance"].get("base"), exp))
    if "min_stops" in terms:
        dv = ((inp.get("defaults") or {}).get("vehicles") or {})
        exp = 0.0
        for vid, n in nstops_of.items():
            v = veh_in[vid]
            mn = v.get("min_stops") if v.get("min_stops") is not None else dv.get("min_stops")
            pen = v.get("min_stops_penalty") if v.get("min_stops_penalty") is not None else dv.get("min_stops_penalty")
            if not mn or not pen or n == 0:
                continue
            if n < int(mn):
                exp += pen * (int(mn) - n) ** 2
        if abs(terms["min_stops"].get("base", 0) - exp) > 1e-6 * max(1.0, exp):
            F["C05"].append("min_stops base %s, penalties of the vehicles below their minimum %s" % (terms["min_stops"].get("base"), exp))
    for tname, term in terms.items():
        if not tname.startswith("capacity_"):
            continue
        res = tname[len("capacity_"):]
        offset = 0.0
        toks = (opts["objectives"].get("capacities") or "").split(";")
        for k in range(0, len(toks) - 2, 3):
            if toks[k] == "name=" + res:
                offset = float(toks[k + 2].split("=")[1])
        allsrc = list(inp["stops"]) + list(inp.get("alternate_stops", []))
        no_negative = all(quantity_of(x, res) <= 0 for x in allsrc) and all(cap_of(v, res, "start_level") >= 0 for v in inp["vehicles"])
        exp = 0.0
        for v in inp["vehicles"]:
            ids = routes.get(v["id"], ([], None))[0]
            cap = cap_of(v, res)
            cum = cap_of(v, res, "start_level")
            seq = [cum]                       # first stop of the vehicle
            for sid in ids:
                if sid.endswith("-start") or sid.endswith("-end"):
                    continue
                cum -= quantity_of(stops.get(sid) or alts.get(sid), res)
                seq.append(cum)
            seq.append(cum)                   # last stop of the vehicle
            if no_negative:
                exp += max(0.0, seq[-1] - cap)
            else:
                exp += sum(max(0.0, c - cap) for c in seq)
        if exp > 0:
            exp += offset
        if abs(term.get("base", 0) - exp) > 1e-6 * max(1.0, exp):
            F["C05"].append("%s base %s, excess over the capacities recomputed from the routes %s" % (tname, term.get("base"), exp))
    # ---- C20 custom data pass-through
    for vo in out.get("vehicles", []):
        if veh_in[vo["id"]].get("custom_data") != vo.get("custom_data"):
            F["C20"].append("vehicle %s custom_data %s != input %s" % (vo["id"], vo.get("custom_data"), veh_in[vo["id"]].get("custom_data")))
        for st in vo.get("route", []):
            sid = st["stop"]["id"]
            if sid in stops and stops[sid].get("custom_data") != st["stop"].get("custom_data"):
                F["C20"].append("stop %s custom_data changed" % sid)
            if sid in alts and alts[sid].get("custom_data") != st["stop"].get("custom_data"):
                F["C20"].append("alternate stop %s: custom_data %s in the input, %s in the output" % (sid, alts[sid].get("custom_data"), st["stop"].get("custom_data")))
            if sid in alts and alts[sid].get("target_arrival_time") and not st.get("target_arrival_time"):
                F["C20"].append("alternate stop %s has a target_arrival_time in the input, none in the output" % sid)
        rt = vo.get("route", [])
        if rt:
            w = sum(st.get("waiting_duration", 0) for st in rt)
            if abs(w - vo.get("route_waiting_duration", 0)) > len(rt):
                F["C20"].append("vehicle %s route_waiting_duration %s, sum of stop waits %s" % (vo["id"], vo.get("route_waiting_duration"), w))
    return {k: v for k, v in F.items() if v}
