"""Shared driver of the engine-level properties (C01-C05, C07, C08):
proof obligations + engine correspondence on generated histories + the
property's oracle on the implementation's own snapshots (histories and real
solver output)."""
import random
import re

import common as C
import engine_corr as E
import framework as FW
import gen_engine as G
import oracles as O
import solver_runs as S
import json
import crash_runs as CR
import gen_full as GF
import oracles_full as OF


def full_stage(chk, pid, tier, seed):
    """property predicates on the CLI output of the real solver for full-feature inputs
    (groups, alternates, mixing, initial stops, multipliers, duration groups, ...)"""
    rng = random.Random(seed * 3001 + int(pid[1:]))
    n = 100 if tier == "quick" else 3000
    blocks, meta = [], {}
    for k, cc in enumerate(FW.load_corpus(pid)):
        if cc.get("kind") == "full":
            cid = "corpus%d" % k
            meta[cid] = (cc["input"], cc["options"])
            blocks.append((cid, GF.case_lines(cc["input"], cc["options"], {"iterations": 120, "duration_ms": 2500, "runs": 1, "starts": 1, "output": 2})))
    for i in range(n):
        inp, opts, feats = GF.gen_full(rng, "small" if i % 3 else "medium")
        meta[str(i)] = (inp, opts)
        blocks.append((str(i), GF.case_lines(inp, opts, {"iterations": 100, "duration_ms": 2500, "runs": 1 + (i % 5 == 0), "starts": 1 + (i % 4 == 0), "output": 2})))
    if pid == "C04":
        # time-dependent duration matrices with departures around the frame boundaries, off the minute
        for i in range(80 if tier == "quick" else 2500):
            inp, opts, feats = GF.gen_full(rng, "small" if i % 3 else "medium", force={"td": True, "windows": (i % 2 == 0), "per_vehicle_matrix": 0.6})
            meta["t%d" % i] = (inp, opts)
            # every third input is handed over the way a Go program would build it: typed matrices (the factory has separate branches)
            blocks.append(("t%d" % i, GF.case_lines(inp, opts, {"iterations": 60, "duration_ms": 2500, "runs": 1, "starts": 1, "output": 2,
                                                                "typed": 1 if i % 3 == 1 else 0})))
    if pid == "C02":
        # alternates that carry the temporal fields of a stop, some of them only
        for i in range(80 if tier == "quick" else 2500):
            inp, opts, feats = GF.gen_full(rng, "small" if i % 3 else "medium", force={"alternates": True, "windows": True})
            opts["constraints"]["disable"]["start_time_windows"] = False
            meta["t%d" % i] = (inp, opts)
            blocks.append(("t%d" % i, GF.case_lines(inp, opts, {"iterations": 60, "duration_ms": 2500, "runs": 1, "starts": 1, "output": 2})))
    if pid == "C01":
        # alternates that carry quantities, listed by several vehicles (each vehicle gets its own copy of an alternate)
        for i in range(80 if tier == "quick" else 2500):
            inp, opts, feats = GF.gen_full(rng, "small" if i % 3 else "medium",
                                           force={"alternates": True, "capacity": True, "alt_quantity_p": 0.9, "alt_vehicle_p": 0.9, "mixing": False})
            opts["constraints"]["disable"]["capacity"] = False
            opts["constraints"]["disable"]["capacities"] = []
            meta["t%d" % i] = (inp, opts)
            blocks.append(("t%d" % i, GF.case_lines(inp, opts, {"iterations": 60, "duration_ms": 2500, "runs": 1, "starts": 1, "output": 2})))
    if pid == "C03":
        # relations declared from the successor's side (succeeds), most of them direct, in chains and in DAGs
        for i in range(80 if tier == "quick" else 2500):
            inp, opts, feats = GF.gen_full(rng, "small" if i % 3 else "medium",
                                           force={"precedence": True, "dag": i % 2 == 0, "direct_p": 0.6, "succ_p": 0.8, "mixing": False})
            meta["t%d" % i] = (inp, opts)
            blocks.append(("t%d" % i, GF.case_lines(inp, opts, {"iterations": 60, "duration_ms": 2500, "runs": 1, "starts": 1, "output": 2})))
    if pid == "C20":
        # vehicles whose route starts at the model epoch (no start_time at all, or the start-time constraint switched off) while stops
        # have windows: absolute times are left out of the output for them, the durations are not
        for i in range(80 if tier == "quick" else 2500):
            inp, opts, feats = GF.gen_full(rng, "small" if i % 3 else "medium",
                                           force={"windows": True, "alternates": i % 2 == 0, "initial": False, "custom": True, "targets": i % 2 == 0})
            if i % 2:
                opts["constraints"]["disable"]["vehicle_start_time"] = True
            else:
                opts["validate"]["disable"]["start_time"] = True
                for ve in inp["vehicles"]:
                    ve.pop("start_time", None)
                    ve.pop("end_time", None)
            opts["constraints"]["disable"]["start_time_windows"] = False
            meta["t%d" % i] = (inp, opts)
            blocks.append(("t%d" % i, GF.case_lines(inp, opts, {"iterations": 60, "duration_ms": 2500, "runs": 1, "starts": 1, "output": 2})))
    if pid in ("C03", "C20"):
        # ids used where they do not belong: an initial stop naming an alternate the vehicle does not list, a relation naming an
        # alternate, a stop and an alternate sharing an id - rejected since the repairs b0cd388 / 26a9936 / e1d68a9; before, the model
        # was built with the FIRST stop of the input in that place
        for i in range(45 if tier == "quick" else 900):
            base, opts, feats = GF.gen_full(rng, "small", force={"alternates": False, "groups": False, "mixing": False})
            inp, kind = GF.mutate(rng, base, only=["initial_foreign_alternate", "precedes_alternate", "stop_alt_same_id"][i % 3])
            meta["m%d" % i] = (inp, opts)
            blocks.append(("m%d" % i, GF.case_lines(inp, opts, {"iterations": 30, "duration_ms": 1500, "runs": 1, "starts": 1, "output": 2})))
    if pid == "C05":
        # objective terms that the general stream seldom switches on: capacity excess as an objective (constraint off for one or
        # all resources), min-stops shortfall, stop balance
        for i in range(80 if tier == "quick" else 2500):
            force = {"capacity": True, "capacity_objective": 0.8, "minstops": True}
            if i % 2:
                # more picked up than dropped, small vehicles, the constraint off: routes that END above the capacity
                force.update(overload=True, capacity_objective=1.0, alternates=False)
            inp, opts, feats = GF.gen_full(rng, "small" if i % 3 else "medium", force=force)
            opts["objectives"]["min_stops"] = 1.0
            opts["objectives"]["stop_balance"] = rng.choice([0.0, 1.0, 2.5])
            meta["t%d" % i] = (inp, opts)
            blocks.append(("t%d" % i, GF.case_lines(inp, opts, {"iterations": 100, "duration_ms": 2500, "runs": 1, "starts": 1, "output": 2})))
    if pid == "C05":
        # ... and plain inputs on which every stop gets planned and routes END above the capacity (excess at every position of the
        # route, the vehicle's own start and end included)
        for i in range(60 if tier == "quick" else 1500):
            inp, opts = GF.gen_overload(rng)
            meta["o%d" % i] = (inp, opts)
            blocks.append(("o%d" % i, GF.case_lines(inp, opts, {"iterations": 60, "duration_ms": 2500, "runs": 1, "starts": 1, "output": 2})))
    res = CR.run_crash(blocks, "%s_full_%s" % (pid.lower(), tier), timeout=3000)
    nout = nviol = 0
    for cid, r in res.items():
        inp, opts = meta[cid]
        for js in r["output"]:
            nout += 1
            fails = OF.check_output(inp, opts, json.loads(js)).get(pid)
            if fails:
                obj = {"kind": "input", "what": fails[0], "failures": fails[:6], "input": inp, "options": opts,
                       "how_to_replay": "bin/check --property %s --replay <this file>" % pid}
                # solutions in which only members of a stop group are lost / split / double-booked: the solver's un-plan
                # operators un-plan MEMBER units (finding N1), the group can then never be completed again
                members = {x for g in (inp.get("stop_groups") or []) for x in g}
                # a member unit is the whole precedence component of a listed stop
                grew = True
                while grew:
                    grew = False
                    for a, b, _d in OF.precedence_arcs(inp):
                        if (a in members) != (b in members):
                            members |= {a, b}
                            grew = True
                ids = [set(re.findall(r"\b(?:s|alt)\d+\b", f)) for f in fails]
                if members and all(i and i <= members for i in ids):
                    obj["finding_shape"] = {"kind": "solver_output", "symptom": "group_members", "oracle": pid}
                elif all(f.startswith("[alternates overcharged]") for f in fails):
                    obj["finding_shape"] = {"kind": "solver_output", "symptom": "alternates_overcharged", "oracle": pid}
                if chk.match_known(obj) is None:
                    nviol += 1
                chk.violation(obj)
                break
    chk.ob("property predicate on the CLI output of every delivered solution for %d full-feature inputs (%d outputs)" % (len(blocks), nout), nviol == 0)
    chk.ev.cov["full_feature_inputs"] = len(blocks)
    chk.ev.cov["full_feature_outputs"] = nout


def change_detail(prev_raw, cur_raw):
    cats = set()
    for a, b in zip(prev_raw, cur_raw):
        if a != b:
            k = a.split()[0]
            cats.add("routes" if k in ("route", "cell") else "collections" if k in ("planned", "unplanned", "fixed") else "score")
    if len(prev_raw) != len(cur_raw):
        cats.add("routes")
    for c in ("routes", "collections", "score"):
        if c in cats:
            return c
    return None


def first_taint_step(r):
    """step number of the first operation after which the nested bookkeeping can be corrupted, or None"""
    ops = r["case"]["ops"]
    tg = {}
    for l in r["impl"]:
        f = l.split()
        if len(f) >= 3 and f[0].isdigit() and f[1] == "target":
            tg[int(f[0])] = int(f[2]) if f[2].lstrip("-").isdigit() else 0
        if len(f) >= 3 and f[0].isdigit() and f[1] == "result":
            k = int(f[0])
            if k < 1 or k > len(ops):
                continue
            op = ops[k - 1].split()[1]
            grp = tg.get(k, 0) >= 1000
            if op in ("munplanr", "vunplanr") or (op == "unplanr" and grp) or (op in ("planr", "plancr") and grp and f[2] != "done"):
                return k
    return None


def diff_until_taint(r):
    t = first_taint_step(r)
    if t is None or not r["diff"]:
        return r["diff"]
    def keep(lines):
        out = []
        for l in lines:
            f = l.split()
            if f and f[0].isdigit() and int(f[0]) > t:
                break
            out.append(l)
        return out
    gl, ml = keep(r["impl"]), keep(r["model"])
    if gl == ml:
        return None
    for k, (a, b) in enumerate(zip(gl, ml)):
        if a != b:
            return {"line": k, "impl": a, "model": b, "context": gl[max(0, k - 3):k]}
    return {"line": min(len(gl), len(ml)), "impl": "<%d lines>" % len(gl), "model": "<%d lines>" % len(ml)}


def fixed_group_in(m, msg):
    """does the message speak about a stop group one of whose stops carries the fixed flag (initial stops)?  The code never
    removes anything from such a group while it builds the initial solution, so finding N6 cannot be what is seen."""
    fixed = {x for ve in m["vehicles"] for x, fx in ve.get("initial", []) if fx}
    groups = [[x for ui in g for x in m["units"][ui]["stops"]] for g in m.get("groups", [])]
    hit = []
    mm = re.search(r"unit (1\d\d\d)\b", msg)
    if mm:
        key = int(mm.group(1)) - 1000
        hit = [g for g in groups if min(g) == key]
    mm = re.search(r"stop group \[([0-9, ]+)\]", msg)
    if mm:
        ids = {int(x) for x in mm.group(1).split(",")}
        hit += [g for g in groups if set(g) == ids]
    return any(x in fixed for g in hit for x in g)


def nested_stage(chk, pid, tier, seed, names, check_c07):
    """histories on models with stop groups and initial/fixed stops: correspondence with
    Model/Units.v, property oracles on the implementation's snapshots with finding shapes"""
    n = 120 if tier == "quick" else 3000
    rng = random.Random(seed * 4001 + int(pid[1:]))
    cases = []
    for i in range(n):
        feats = {"groups": True, "initial": rng.random() < 0.5}
        m = G.gen_model(rng, "small", feats)
        cases.append({"id": str(i), "model": m, "ops": G.gen_ops(rng, m, 25, "unchecked")})
    # short histories: a few plans, then ONE un-plan of a member / a group / a vehicle, then one more plan - so that the
    # first nested event of a history is as varied as possible (later events of a history are tainted, N5)
    for i in range(n):
        feats = {"groups": True, "initial": rng.random() < 0.2}
        m = G.gen_model(rng, "small", feats)
        plan = lambda: G.gen_ops(rng, m, 1, "plan_only")[0]  # noqa: E731
        ops = [plan() for _ in range(rng.randint(2, 6))]
        ops.append(rng.choice(["op munplanr %d", "op munplanr %d", "op unplanr %d", "op vunplanr %d"]) % rng.randrange(1 << 20))
        ops += [plan(), "op snapall"]
        cases.append({"id": "s%d" % i, "model": m, "ops": ops})
    # initial / fixed stops WITHOUT groups: vehicle-level un-plan with fixed stops in the way (can be rejected and rolled back)
    for i in range(max(40, n // 3)):
        m = G.gen_model(rng, "small", {"groups": False, "initial": True, "windows": rng.random() < 0.7, "maxwait_stop": rng.random() < 0.5,
                                        "precedence": i % 2 == 0})
        if i % 2:
            m = G.force_fixed_dependency(m, rng)       # a fixed stop that depends on a removable one: rejected un-plans
        plan = lambda: G.gen_ops(rng, m, 1, "plan_only")[0]  # noqa: E731
        ops = []
        for _ in range(rng.randint(2, 8)):
            ops.append(plan() if rng.random() < 0.6 else rng.choice(["op vunplanr %d", "op unplanr %d"]) % rng.randrange(1 << 20))
        ops.append("op snapall")
        cases.append({"id": "i%d" % i, "model": m, "ops": ops})
    # multi-stop units given as initial stops with the fixed flag on SOME of their stops only, then vehicle / unit un-plans
    for i in range(max(40, n // 3)):
        m = G.gen_model(rng, "small", {"groups": False, "initial": True, "precedence": True, "fixed_p": 1.0, "windows": rng.random() < 0.3,
                                        "capacity": rng.random() < 0.3})
        ops = []
        for _ in range(rng.randint(1, 5)):
            ops.append(rng.choice(["op vunplanr %d", "op vunplanr %d", "op unplanr %d"]) % rng.randrange(1 << 20) if rng.random() < 0.6
                       else G.gen_ops(rng, m, 1, "plan_only")[0])
        ops.append("op snapall")
        cases.append({"id": "f%d" % i, "model": m, "ops": ops})
    # a member of a planned group whose own un-plan is rejected by the capacity check (constructed: the member picks up
    # what a later stop drops off): the group has to stay booked as planned
    for i in range(max(60, n // 4)):
        m, ops = G.member_unplan_rejected(rng)
        cases.append({"id": "r%d" % i, "model": m, "ops": ops})
    # a group with the fixed flag on one member only as initial stops of a vehicle whose maximum duration the route exceeds
    for i in range(max(40, n // 6)):
        m, ops = G.initial_group_mixed_fixed(rng)
        cases.append({"id": "x%d" % i, "model": m, "ops": ops})
    n = len(cases)
    res, st = E.run_cases(cases, "%s_nested_%s" % (pid.lower(), tier), timeout=3000)
    # implementation and model are compared up to AND INCLUDING the first step that corrupts the bookkeeping of nested
    # units (findings N1-N4, N7: the step itself shows the finding); what either side does with a corrupted state is
    # not part of the tie (N5)
    for r in res:
        r["diff"] = diff_until_taint(r)
    bad = [r for r in res if r["diff"]]
    chk.ob("nested units (stop groups, initial/fixed stops): %d histories identical to Model/Units.v" % n, not bad and st[0] == 0 and st[2] == 0,
           str(bad[0]["diff"])[:500] if bad else (st[1] + st[3])[-300:])
    if bad and chk.mismatch is None:
        chk.mismatch = {"diff": bad[0]["diff"], "case": G.case_lines(bad[0]["case"]["model"], bad[0]["case"]["ops"])}
    nviol = 0
    for r in res:
        m = r["case"]["model"]
        ctx = O.Ctx(m)
        lines = [l for l in r["impl"] if not l.startswith("S")]
        targets = {}
        for l in lines:
            f = l.split()
            if len(f) >= 3 and f[1] == "target":
                targets[int(f[0])] = int(f[2])
        steps = O.parse_steps([l for l in lines if " target " not in l])
        ops = r["case"]["ops"]
        tainted = False
        prev = None
        reported = False
        for st_ in steps:
            k = st_["step"]
            op = ops[k - 1].split()[1] if k >= 1 and k - 1 < len(ops) else "build"
            group = targets.get(k, 0) >= 1000
            fails = []
            if st_["routes"]:
                for name in names:
                    fl = O.ALL[name](ctx, st_)
                    if fl:
                        fails.append((name, "score" if name == "C05" else "collections" if name == "C08" else "routes", fl[0]))
                if check_c07 and prev is not None and st_["result"] in ("notdone", "noop") and st_["raw"] != prev["raw"]:
                    fails.append(("C07", change_detail(prev["raw"], st_["raw"]), "operation reported failure but the solution changed"))
                if check_c07 and prev is not None and st_["raw"] != prev["raw"]:
                    # cached values are a function of the routes: an operation after which every route is what it was
                    # (a rolled-back un-plan, whatever it answers) must leave every cached value what it was
                    rl = lambda raw: [x for x in raw if x.startswith("route ")]  # noqa: E731
                    cl = lambda raw: [x for x in raw if x.startswith("cell ")]  # noqa: E731
                    if rl(st_["raw"]) == rl(prev["raw"]) and cl(st_["raw"]) != cl(prev["raw"]):
                        fails.append(("C07", "routes", "the routes are what they were but cached values of stops changed"))
                if check_c07 and st_["result"] == "error":
                    fails.append(("C07", "error", "operation returned an engine error"))
            if fails and not reported:
                name, detail, msg = fails[0]
                reported = True
                nviol += 1
                chk.violation({"kind": "history", "what": msg, "oracle": name, "step": k,
                               "finding_shape": {"kind": "nested", "oracle": name, "op": op, "result": st_["result"],
                                                 "group": group, "detail": detail, "tainted": tainted, "has_groups": bool(m.get("groups")),
                                                 "fixed_group": fixed_group_in(m, msg),
                                                 "symptom": "planned_and_fixed" if "is in ['planned', 'fixed']" in msg else "other"},
                               "case": G.case_lines(m, ops[:k])})
            if op in ("munplanr", "vunplanr") or (op == "unplanr" and group) or (op in ("planr", "plancr") and group and st_["result"] != "done") \
                    or (op == "build" and fails):
                tainted = True
            prev = st_
    chk.ob("property predicates on nested-unit histories (violations matching a listed finding are reported as KNOWN-FINDING)", not chk.violations)
    chk.ev.cov["nested_histories"] = n
    chk.ev.cov["nested_oracle_hits"] = nviol


def solver_settings(rng, m):
    return {"iterations": rng.choice([30, 150, 500]), "duration_ms": 4000, "runs": rng.choice([1, 2]),
            "starts": rng.choice([0, 1, 2]), "det": 1, "repeat": 1, "snap": 1}


def oracle_on_steps(ctx, steps, names, estimate_only):
    out = []
    for st in steps:
        if not st["routes"]:
            continue
        for n in names:
            f = O.ALL[n]
            fails = f(ctx, st, estimate_only) if n == "C01" else f(ctx, st)
            if fails:
                out.append((st["step"], n, fails))
    return out


def all_or_nothing(steps):
    """C07 on the implementation's output: a call that reported failure leaves the snapshot unchanged"""
    out = []
    prev = None
    for st in steps:
        if prev is not None and st["result"] in ("notdone", "noop") and st["raw"] != prev["raw"]:
            diff = [(a, b) for a, b in zip(prev["raw"], st["raw"]) if a != b][:3]
            out.append((st["step"], "C07", ["operation reported failure but the solution changed: %s" % diff]))
        if st["result"] == "error":
            out.append((st["step"], "C07", ["operation returned an engine error"]))
        prev = st
    return out


def run(pid, tier, seed, oracle_names, title, feats=None, check_c07=False, extra=None, solver_feats=None, mode="unchecked"):
    chk = FW.Check(pid, tier, seed)
    if not chk.builds(model=True, harness=True):
        return chk.finish()
    chk.proofs()
    if pid == "C03":
        chk.proofs("Order")     # order and direct adjacency of a unit's stops are kept by order-respecting moves (and by the generators' moves)
    if pid == "C19":
        chk.proofs("SolUser")   # third level: rules with a per-solution exact check as a guard around the engine (never violated, rejection restores, genuine, conservative)
    if pid in ("C03", "C05", "C07", "C08"):
        chk.proofs("Units")     # nested units: conservative extension, defect witnesses N1/N2/N4/N7, units-move rollback
        chk.proofs("FixedInv")  # inputs with initial / fixed stops (mixed flags included), no groups: fixed units never leave their vehicle, never split; bookkeeping consistent on every history
        chk.proofs("GroupInv")  # positive counterpart: with groups and no initial stops the collections/scores/output stay consistent under succeeding group-level operations
    nh, ns = (150, 25) if tier == "quick" else (4000, 600)
    nops = 30 if tier == "quick" else 60
    size = "small" if tier == "quick" else "medium"
    cases = E.make_cases(seed * 1009 + int(pid[1:]), nh, size=size, nops=nops, feats=feats, mode=mode)
    if pid == "C04":
        # the solver's own cycle - copy, then un-plan on the copy - on units with several stops and several allowed orders; half of
        # the histories on one long route with nothing that rejects a move, so that a unit's stops end up apart and out of model order
        long_route = dict(one_vehicle=True, capacity=False, windows=False, maxstops=False, maxdist=False, attrs=False,
                          maxwait_stop=False, maxwait_veh=False, endtime=False, maxdur=False)
        cu = E.make_cases(seed * 1009 + 4044, nh // 2, size=size, nops=nops, mode="copy_unplan",
                          feats=dict(feats or {}, precedence=True, groups=False, initial=False))
        cu += E.make_cases(seed * 1009 + 4045, nh, size="medium", nops=40, mode="copy_unplan",
                           feats=dict(feats or {}, precedence=True, groups=False, initial=False, **long_route))
        for k, c in enumerate(cu):
            c["id"] = "cu%d" % k
        cases += cu
    if pid == "C05":
        # capacity excess as an objective (Engine.v cap_obj_terms): the capacity constraint switched off, factor and offset per resource
        co = E.make_cases(seed * 1009 + 5055, nh // 2, size=size, nops=nops, feats=dict(feats or {}, capobj=True, capacity=True), mode=mode)
        for k, c in enumerate(co):
            c["id"] = "co%d" % k
        cases += co
    if pid == "C19":
        # the third level: user rules with a per-SOLUTION exact check (Model/SolUser.v: a guard around the engine's operations);
        # whole-vehicle un-plans included; no groups, no initial stops
        us = E.make_cases(seed * 1009 + 1920, nh, size=size, nops=nops, mode=mode,
                          feats=dict(feats or {}, user_sol=True, groups=False, initial=False))
        for c in us:
            c["id"] = "us" + c["id"]
        cases += us
    if pid == "C19":
        # the caller may declare that travel durations satisfy the triangle inequality (API only; the latest-start / latest-end
        # exact checks are then switched off and the estimates trusted): metric models without duration groups / multipliers, where
        # the declaration is true, and moves that go through the estimates - the exact checks of the USER constraints must still decide
        tf = dict(feats or {}, user=True, user_wait=True, nonmetric=False, dgroups=False, mult=False, windows=True, maxwait_stop=False,
                  maxwait_veh=False, capacity=False, maxstops=False, attrs=False, maxdist=False, endtime=False, maxdur=False)
        tri = E.make_cases(seed * 1009 + 1919, nh, size=size, nops=35, feats=tf, mode="checked_only")
        for c in tri:
            c["id"] = "tri" + c["id"]
            c["model"]["triangle"] = True
        cases += tri
    if pid == "C02":
        # the same declaration on models with windows, end times and units of several stops, moves through the estimates only:
        # with the exact latest-start / latest-end check switched off the estimate is the only guard of the windows
        # (no vehicle end time / maximum duration: with the declaration NewSolution does not check the empty vehicle's own trip
        # against them either - API-only configuration, see DESIGN section 10)
        tf = dict(feats or {}, nonmetric=False, dgroups=False, mult=False, windows=True, precedence=True, endtime=False, maxdur=False,
                  maxwait_stop=False, maxwait_veh=False, capacity=False, maxstops=False, attrs=False, maxdist=False, tight=True)
        tri = E.make_cases(seed * 1009 + 202, nh, size=size, nops=35, feats=tf, mode="checked_only")
        tri += E.make_cases(seed * 1009 + 203, nh // 2, size="medium", nops=45, feats=dict(tf, one_vehicle=True), mode="checked_only")
        for k, c in enumerate(tri):
            c["id"] = "tri%d" % k
            c["model"]["triangle"] = True
        cases += tri
    res, st = E.run_cases(cases, "%s_%s" % (pid.lower(), tier), timeout=3000)
    chk.ob("harness and model runner exit normally", st[0] == 0 and st[2] == 0, (st[1] + st[3])[-300:])
    bad = [r for r in res if r["diff"]]
    nsteps = sum(len(r["case"]["ops"]) for r in res)
    rejected = sum(1 for r in res for l in r["impl"] if l.endswith("result notdone"))
    chk.ob("engine correspondence: %d histories / %d operations (%d rejected and rolled back) identical snapshots" % (nh, nsteps, rejected),
           not bad, str(bad[0]["diff"])[:500] if bad else "")
    if bad:
        chk.mismatch = {"diff": bad[0]["diff"], "case": G.case_lines(bad[0]["case"]["model"], bad[0]["case"]["ops"])}
    # oracle on the implementation's snapshots
    nviol = 0
    for r in res:
        ctx = O.Ctx(r["case"]["model"])
        steps = O.parse_steps([l for l in r["impl"] if not l.startswith("S")])
        found = oracle_on_steps(ctx, steps, oracle_names, estimate_only=False)
        if check_c07:
            found += all_or_nothing(steps)
        for stepno, name, fails in found[:1]:
            nviol += 1
            chk.violation({"kind": "history", "what": fails[0], "failures": fails[:6], "oracle": name, "step": stepno,
                           "case": G.case_lines(r["case"]["model"], r["case"]["ops"][:stepno])})
    chk.ob("%s on every intermediate state of the histories (implementation's snapshots, recomputed from the input)" % title, nviol == 0)
    # real solver output
    sc = S.make_solve_cases(seed * 2003 + int(pid[1:]), ns, solver_settings, size=size, feats=solver_feats or feats)
    if pid == "C03":
        # join shapes (a -> c direct, b -> c): the only allowed order is b a c; a cheap geometry for a b c tempts the search
        import p_c10
        jr = random.Random(seed * 2003 + 303)
        joins = S.make_solve_cases(seed * 2003 + 3030, max(10, ns // 2), solver_settings, size=size,
                                   feats={"precedence": True, "capacity": False, "windows": False, "maxstops": False, "maxdist": False})
        for c in joins:
            c["id"] = "j" + c["id"]
            c["model"] = p_c10.add_joins(jr, c["model"])
        sc += joins
    for k, cc in enumerate(FW.load_corpus(pid)):
        if cc.get("kind") == "solve":
            m = cc["model"]
            m["arcs"] = [tuple(a) for a in m["arcs"]]
            for u in m["units"]:
                u["arcs"] = [tuple(a) for a in u["arcs"]]
            for st_ in m["stops"]:
                st_["windows"] = [tuple(w) for w in st_["windows"]]
            sc.insert(0, {"id": "corpus%d" % k, "model": m, "settings": cc["settings"]})
    runs, rc, err = S.run_solve(sc, "%s_solve_%s" % (pid.lower(), tier), timeout=3000)
    chk.ob("harness solve exits normally", rc == 0, err[-300:])
    byid = {c["id"]: c for c in sc}
    nsol, sviol = 0, 0
    for (cid, rep), rr in runs.items():
        ctx = O.Ctx(byid[cid]["model"])
        steps = O.parse_steps(rr["snap"])
        nsol += len(steps)
        for f in rr["flags"]:
            if f.startswith(("PANIC", "solerror")):
                sviol += 1
                chk.violation({"kind": "input", "what": "solver " + f[:200], "settings": byid[cid]["settings"], "model": byid[cid]["model"]})
        found = oracle_on_steps(ctx, steps, oracle_names, estimate_only=True)
        for stepno, name, fails in found[:1]:
            sviol += 1
            chk.violation({"kind": "input", "what": fails[0], "failures": fails[:6], "oracle": name, "solution_index": stepno,
                           "settings": byid[cid]["settings"], "model": byid[cid]["model"]})
    chk.ob("%s on every solution delivered by the real solver (%d solutions of %d runs)" % (title, nsol, len(runs)), sviol == 0)
    feats_count = {}
    for c in cases:
        for k, v in c["model"]["features"].items():
            if v:
                feats_count[k] = feats_count.get(k, 0) + 1
    chk.ev.cov.update({
        "evaluations": nsteps + nsol, "distinct_nontrivial": len({tuple(c["ops"]) for c in cases}),
        "rule": "generated JSON-level models (lib/gen_engine.py: 2-%d stops, 1-%d vehicles, features on independently) x histories of %d relative plan/unplan/copy ops executed through the public API "
                "(moves built without the estimates so that the exact checks and the rollback decide); plus real solver runs with a snapshot of every delivered solution; "
                "distinct = distinct histories" % (7 if size == "small" else 14, 3 if size == "small" else 5, nops),
        "histories": nh, "operations": nsteps, "rolled_back": rejected, "solver_runs": len(runs), "solver_solutions": nsol,
        "feature_counts": feats_count, "traces_validated_against_impl": nh,
        "samples": [{"ops": cases[0]["ops"][:6], "features": cases[0]["model"]["features"]}],
        "search_description": "the property's predicate recomputed from the input on every implementation snapshot (histories + solver output)",
    })
    chk.ev.assume("integer-valued inputs (float64 exact); stops units only in the modelled core so far (groups/alternates/no-mix/initial stops/duration groups pending)")
    if pid in ("C01", "C02", "C03", "C04", "C05", "C08", "C20"):
        full_stage(chk, pid, tier, seed)
    if pid in ("C03", "C05", "C07", "C08"):
        nested_stage(chk, pid, tier, seed, [x for x in oracle_names if x in ("C03", "C05", "C08")], check_c07)
    if extra:
        extra(chk, res)
    return chk.finish()
