"""C01 - see DESIGN.md section 6.  Proof: coq/Props/C01.v; tie: engine
correspondence; search: oracle ['C01'] on the implementation's snapshots."""
import engine_props


def run(tier, seed, replay=None):
    return engine_props.run("C01", tier, seed, ['C01'], "capacity / distance (and, for solver output, max_stops / attributes)", check_c07=False)
