"""C08 - see DESIGN.md section 6.  Proof: coq/Props/C08.v; tie: engine
correspondence; search: oracle ['C08'] on the implementation's snapshots."""
import engine_props


def run(tier, seed, replay=None):
    return engine_props.run("C08", tier, seed, ['C08'], "bookkeeping matches the routes", check_c07=False)
