"""C17 — time-dependent travel: non-negative, FIFO, frame-consistent.

Proof: coq/Props/C17.v (theorems about Model/TimeDep.v for all layouts, all
rational departures).  Tie: correspondence of SetExpression / ValueAtValue /
ExpressionAtValue between /repo (harness `timedep`) and the extracted model on
generated layouts and dense departure grids.  Search: the four predicates
evaluated on the implementation's own values."""
import json
import os
import random
from fractions import Fraction as F

import common as C

PID = "C17"
TOL_REL = F(1, 2 ** 40)
TOL_ABS = F(1, 2 ** 20)

DUR_CHOICES = ["0", "1", "30", "59", "60", "600", "601", "3600", "7200", "86400", "100000", "75/2", "1/4", "12345/8"]
LEN_MIN = [1, 1, 5, 30, 60, 180, 600, 1440]
GAP_MIN = [0, 0, 0, 1, 15, 60, 300, 1440]


def gen_layout(rng, malformed=False):
    n = rng.choice([0, 1, 1, 2, 2, 3, 3, 4, 5, 7])
    base = 60 * rng.choice([0, 0, 1, 60 * 24, rng.randrange(0, 30_000_000)])
    frames = []
    t = base + 60 * rng.choice(GAP_MIN)
    for i in range(n):
        ln = 60 * rng.choice(LEN_MIN)
        if rng.random() < 0.04:
            ln = 0
        if t + ln - (frames[0][0] if frames else t) > 7 * 86400:
            break
        frames.append([t, t + ln, i + 1])
        # an empty frame sharing its start with another frame is outside the compared domain
        # (factory validation rejects empty frames; see DESIGN.md C17): keep a gap after it
        t = t + ln + 60 * (rng.choice(GAP_MIN) if ln > 0 else rng.choice([1, 15, 60]))
    if rng.random() < 0.2 and len(frames) >= 2:
        # reuse one expression in two frames
        frames[-1][2] = frames[0][2]
    kind = "valid"
    if malformed and [f for f in frames if f[1] > f[0]]:
        kind = rng.choice(["overlap_right", "overlap_left", "contain", "inside", "unaligned_s", "unaligned_e",
                           "reversed", "too_long", "dup", "default_as_frame", "before_epoch"])
        s, e, k = rng.choice([f for f in frames if f[1] > f[0]])
        nk = len(frames) + 1
        if kind == "overlap_right":
            frames.append([e - 60 * rng.choice([1, 5]), e + 60 * rng.choice([1, 30, 600]), nk])
        elif kind == "overlap_left":
            frames.append([max(0, s - 60 * rng.choice([1, 30, 600])), s + 60, nk])
        elif kind == "contain":
            frames.append([max(0, s - 600), e + 600, nk])
        elif kind == "inside":
            frames.append([s + 60, max(s + 60, e - 60), nk])
        elif kind == "unaligned_s":
            frames.append([e + 61, e + 120, nk])
        elif kind == "unaligned_e":
            frames.append([e + 60, e + 121, nk])
        elif kind == "reversed":
            frames.append([e + 600, e + 60, nk])
        elif kind == "too_long":
            frames.append([e + 8 * 86400, e + 8 * 86400 + 60, nk])
        elif kind == "dup":
            frames.append([s, e, nk])
        elif kind == "default_as_frame":
            frames.append([e + 60, e + 660, 0])
        elif kind == "before_epoch":
            frames.append([-60, 0, nk])
    order = list(frames)
    rng.shuffle(order)
    nvals = max([f[2] for f in frames] + [0]) + 1
    vals = [rng.choice(DUR_CHOICES) for _ in range(nvals)]
    if rng.random() < 0.5:
        # scaled copies of the default (what the factory's scaling factors produce)
        d0 = F(rng.choice(["600", "3600", "100000", "30"]))
        vals = [str(d0)] + [str(d0 * F(rng.choice(["1/2", "1", "3/2", "2", "1/4", "3", "0"]))) for _ in range(nvals - 1)]
    # departures
    deps = set()
    bounds = sorted({b for f in frames for b in f[:2]})
    for b in bounds:
        for d in ("-1", "-1/8", "0", "1/8", "1", "-60", "60", "-601", "-3599"):
            deps.add(F(b) + F(d))
    for a, b in zip(bounds, bounds[1:]):
        deps.add(F(a + b, 2))
    lo = (bounds[0] if bounds else base) - 7200
    hi = (bounds[-1] if bounds else base) + 7200
    for _ in range(12):
        deps.add(F(rng.randrange(lo * 8, hi * 8 + 1), 8))
    deps.add(F(0))
    deps.add(F(10 ** 9))
    # late departures: around and beyond the end of the last element (model MaxTime = epoch + 200 years)
    for late in (6307200000 - 3600, 6307200000 - 1, 6307200000, 6307200000 + 61, 7683828987):
        if rng.random() < 0.5:
            deps.add(F(late))
    if rng.random() < 0.1:
        deps.add(F(-5))
    deps = sorted(d for d in deps if d >= -10)
    return dict(frames=order, vals=vals, deps=[str(d) for d in deps], kind=kind)


def case_lines(lay):
    ls = ["vals " + " ".join(lay["vals"])]
    for s, e, k in lay["frames"]:
        ls.append("frame %d %d %d" % (s, e, k))
    for d in lay["deps"]:
        ls.append("dep " + d)
    return ls


def in_compared_domain(lay):
    """two frames at one instant, one of them empty, are outside the compared domain (DESIGN.md C17; the factory rejects empty
    frames): the malformed kinds can produce them by accident"""
    fs = lay["frames"]
    for i, a in enumerate(fs):
        for b in fs[i + 1:]:
            if a[0] == b[0] and (a[0] == a[1] or b[0] == b[1]):
                return False
    return True


def gen_compared(rng, malformed=False):
    while True:
        lay = gen_layout(rng, malformed)
        if in_compared_domain(lay):
            return lay


def is_valid_layout(lay):
    fs = sorted(lay["frames"])
    for s, e, k in fs:
        if s < 0 or e < s or s % 60 or e % 60 or k == 0:
            return False
    for (s1, e1, _), (s2, e2, _) in zip(fs, fs[1:]):
        if e1 > s2:
            return False
        if s1 == s2:      # two frames at one instant (one of them empty): outside "disjoint"
            return False
    if fs and fs[-1][1] - fs[0][0] > 7 * 86400:
        return False
    return True


def close(a, b):
    return abs(a - b) <= TOL_ABS + TOL_REL * max(abs(a), abs(b))


def compare(go_lines, ml_lines):
    """returns list of mismatch descriptions"""
    mism = []
    if len(go_lines) != len(ml_lines):
        mism.append("line count %d vs %d" % (len(go_lines), len(ml_lines)))
    for g, m in zip(go_lines, ml_lines):
        if g == m:
            continue
        gf, mf = g.split(), m.split()
        if gf[0] == "val" and mf[0] == "val" and gf[1] == mf[1] and "/" in gf[2] and "/" in mf[2]:
            if close(F(gf[2]), F(mf[2])):
                continue
        mism.append("impl: %s | model: %s" % (g, m))
    return mism


def oracle(lay, go_lines):
    """The property's four predicates on the implementation's values (valid layouts only)."""
    fails = []
    if not is_valid_layout(lay):
        # "for any set of time frames": a layout with OVERLAPPING non-empty frames that the library nevertheless accepts
        # (every SetExpression call answered ok) is a set of time frames too - the two predicates that do not depend on which
        # frame is in force (travel time never negative, leaving later never arrives earlier) are judged on it
        sets = [l for l in go_lines if l.startswith("set ")]
        ne = sorted(f for f in lay["frames"] if f[1] > f[0] and f[0] >= 0 and f[0] % 60 == 0 and f[1] % 60 == 0)
        overlapping = any(a[1] > b[0] for a, b in zip(ne, ne[1:]))
        if not overlapping or not sets or any(not l.endswith("ok") for l in sets):
            return fails
        deps = [F(d) for d in lay["deps"]]
        got = {}
        for l in go_lines:
            fs = l.split()
            if fs[0] == "val" and fs[2] != "panic" and "nonfinite" not in fs[2]:
                got[int(fs[1])] = F(fs[2])
        prev = None
        for i, t in enumerate(deps):
            if i not in got or t < 0:
                continue
            v = got[i]
            if v < 0:
                fails.append("overlapping frames accepted: negative travel %s at departure %s" % (v, t))
            if prev is not None and prev[0] + prev[1] > t + v + TOL_ABS:
                fails.append("overlapping frames accepted: FIFO: depart %s arrive %s, depart %s arrive %s" % (prev[0], prev[0] + prev[1], t, t + v))
            prev = (t, v)
        return fails[:3]
    sets = [l for l in go_lines if l.startswith("set ")]
    if any(not l.endswith("ok") for l in sets):
        fails.append("valid disjoint minute-aligned layout rejected: %s" % sets)
        return fails
    vals = [F(v) for v in lay["vals"]]
    deps = [F(d) for d in lay["deps"]]
    got = {}
    exprs = {}
    for l in go_lines:
        fs = l.split()
        if fs[0] == "val":
            if fs[2] == "panic" or "nonfinite" in fs[2]:
                fails.append("ValueAtValue(%s) panicked/non-finite" % deps[int(fs[1])])
            else:
                got[int(fs[1])] = F(fs[2])
        elif fs[0] == "expr":
            exprs[int(fs[1])] = int(fs[2])
    frames = sorted(f for f in lay["frames"])
    nonempty = [f for f in frames if f[1] > f[0]]
    prev = None
    for i, t in enumerate(deps):
        if i not in got or t < 0:       # departures before the epoch are outside the property (and the theorems: 0 <= v)
            continue
        v = got[i]
        if v < 0:
            fails.append("negative travel %s at departure %s" % (v, t))
        if prev is not None:
            pt, pv = prev
            if pt + pv > t + v + TOL_ABS:
                fails.append("FIFO: depart %s arrive %s, depart %s arrive %s" % (pt, pt + pv, t, t + v))
        prev = (t, v)
        if not frames:
            if not close(v, vals[0]):
                fails.append("no frames: travel %s != default %s at %s" % (v, vals[0], t))
            continue
        inside = [f for f in nonempty if f[0] <= t < f[1]]
        if inside:
            s, e, k = inside[0]
            if t + vals[k] <= e and not close(v, vals[k]):
                fails.append("trip inside frame [%d,%d) at %s: travel %s != frame duration %s" % (s, e, t, v, vals[k]))
            if exprs.get(i) != k:
                fails.append("ExpressionAtValue(%s) = %s, frame expression is %s" % (t, exprs.get(i), k))
        else:
            # the next frame: an EMPTY frame [x, x) sitting exactly at the departure counts as well (C17_outside_frames: the
            # trip has to end before every frame that starts at or after the departure)
            nxt = [f[0] for f in frames if f[0] > t or (f[0] == f[1] and f[0] >= t)]
            gap_end = min(nxt) if nxt else None
            if (gap_end is None or t + vals[0] <= gap_end) and not close(v, vals[0]):
                fails.append("outside all frames at %s: travel %s != default %s" % (t, v, vals[0]))
            if exprs.get(i) != 0:
                fails.append("ExpressionAtValue(%s) = %s outside all frames" % (t, exprs.get(i)))
    return fails


def load_corpus():
    out = []
    d = os.path.join(C.CORPUS, PID)
    if os.path.isdir(d):
        for fn in sorted(os.listdir(d)):
            if fn.endswith(".json"):
                out.append(json.load(open(os.path.join(d, fn))))
    return out


def run_layouts(layouts, tag):
    cf = os.path.join(C.BUILD, "c17_%s.case" % tag)
    C.write_cases(cf, [(str(i), case_lines(l)) for i, l in enumerate(layouts)])
    (rc1, go_out, go_err), (rc2, ml_out, ml_err) = C.run_both("timedep", cf)
    g, m = C.group_lines(go_out), C.group_lines(ml_out)
    mism, orc = [], []
    if rc1 != 0:
        mism.append((None, ["harness exited %d: %s" % (rc1, go_err[-500:])]))
    if rc2 != 0:
        mism.append((None, ["model runner exited %d: %s" % (rc2, ml_err[-500:])]))
    for i, lay in enumerate(layouts):
        gl, ml = g.get(str(i), []), m.get(str(i), [])
        if lay.get("kind") == "default_as_frame":
            # the DEFAULT expression object itself registered as a frame (API misuse, the factory never does it): the code
            # cannot tell such a frame from the gaps between frames and accepts later frames on top of it; only the
            # accept / reject answers are compared, the values are outside the modelled domain
            gl = [l for l in gl if l.startswith("set ")]
            ml = [l for l in ml if l.startswith("set ")]
        mm = compare(gl, ml)
        if mm:
            mism.append((i, mm))
        of = oracle(lay, gl)
        if of:
            orc.append((i, of))
    return mism, orc


def run(tier, seed, replay=None):
    ev = C.Evidence(PID, tier, seed, "proof")
    rng = random.Random(seed * 1000003 + 17)
    okc, logc = C.build_coq()
    okm, logm = C.build_model()
    okh, logh = C.build_harness()
    ev.obligation("coq development builds (make, full .vo)", okc, "" if okc else logc[-1500:])
    ev.obligation("model extraction + OCaml runner build", okm, "" if okm else logm[-1500:])
    ev.obligation("harness builds against /repo working tree with -tags verif", okh, "" if okh else logh[-1500:])
    hy = C.hygiene()
    ev.obligation("hygiene: no Admitted/admit/Axiom/Parameter/guard switches in coq/", not hy, "; ".join(hy[:5]))
    po = C.prop_obligations(PID)
    for th in po["theorems"]:
        ev.obligation("theorem " + th, po["ok"])
    if not po["theorems"]:
        ev.obligation("Props/%s.v present" % PID, False, po["log"])
    ev.cov["assumptions_reported"] = {"closed_under_global_context": po.get("closed", 0), "axioms": po.get("axioms", [])}
    proofs_ok = okc and po["ok"] and not hy and bool(po["theorems"]) and not po.get("axioms")

    if replay:
        rp = json.load(open(replay))
        layouts = [rp["layout"]]
    else:
        n_valid, n_bad = (300, 100) if tier == "quick" else (6000, 2000)
        layouts = load_corpus()
        ncorp = len(layouts)
        layouts += [gen_compared(rng) for _ in range(n_valid)]
        layouts += [gen_compared(rng, malformed=True) for _ in range(n_bad)]
    if not (okm and okh):
        C.report_violation(PID, {"property": PID, "kind": "obligation", "what": "build failed", "log": (logm + logh)[-3000:]}, False)
        ev.d["violations"] = 1
        ev.write()
        return 1
    mism, orc = run_layouts(layouts, tier)
    kinds = {}
    for l in layouts:
        kinds[l["kind"]] = kinds.get(l["kind"], 0) + 1
    neval = sum(len(l["deps"]) for l in layouts)
    distinct = len({json.dumps([l["frames"], l["vals"]]) for l in layouts if l["frames"]})
    ev.cov.update({
        "evaluations": neval,
        "distinct_nontrivial": distinct,
        "rule": "generated frame layouts (0-7 frames, adjacent/gapped/zero-length, random insertion order, reused expressions, "
                "integer and dyadic durations incl. 0 and trips longer than frames) x departure grid (every boundary +-{0,1/8,1,60,601,3599}, "
                "midpoints, 12 random eighths, 0, 1e9); plus a malformed stream (overlaps, unaligned, reversed, > 1 week, default reused); "
                "non-trivial = layout with at least one frame; distinct by (frames, values)",
        "layouts": len(layouts), "layout_kinds": kinds,
        "traces_validated_against_impl": len(layouts),
        "comparison": "SetExpression outcome (ok / error class), ExpressionAtValue exactly; ValueAtValue: Go float64 (as exact rational) vs model Q within rel 2^-40 + abs 2^-20",
        "samples": [layouts[i] for i in range(min(2, len(layouts)))],
        "correspondence_mismatches": len(mism), "oracle_failures_on_impl": len(orc),
    })
    ev.obligation("correspondence impl vs extracted model on %d layouts / %d departures" % (len(layouts), neval), not mism,
                  json.dumps(mism[:2])[:600] if mism else "")
    ev.obligation("property predicates (non-negative, FIFO, inside-frame, outside-default) on the implementation's values", not orc,
                  json.dumps(orc[:2])[:600] if orc else "")
    ev.assume("IEEE-754 rounding inside ValueAtValue is modelled (exact Q), compared within tolerance")
    ev.assume("domain of the theorems: pairwise disjoint, minute-aligned frames within one week, inserted in any order; non-negative durations")
    rc = 0
    if orc:
        i, fails = orc[0]
        C.report_violation(PID, {"property": PID, "kind": "input", "layout": layouts[i], "predicate_failures": fails[:10],
                                 "how_to_replay": "bin/check --property C17 --replay <this file>"})
        rc = 1
    elif mism or not proofs_ok:
        # broken tie or proof and no failing input among the compared cases: enlarge the search
        extra = [gen_layout(random.Random(seed + 7919 * j)) for j in range(3000)]
        m2, o2 = run_layouts(extra, "search")
        if o2:
            i, fails = o2[0]
            C.report_violation(PID, {"property": PID, "kind": "input", "layout": extra[i], "predicate_failures": fails[:10]})
        else:
            what = ("correspondence TimeDep.v <-> model_expression_time_dependent.go" if mism else
                    "proof obligations of coq/Props/C17.v")
            C.report_violation(PID, {"property": PID, "kind": "obligation", "broken": what,
                                     "first_mismatch": ({"layout": layouts[mism[0][0]] if mism[0][0] is not None else None,
                                                         "diff": mism[0][1][:10]} if mism else None),
                                     "coq_log": None if proofs_ok else (po["log"] + logc)[-2000:],
                                     "searched": "oracle on %d + %d layouts" % (len(layouts), len(extra))}, False)
        rc = 1
    ev.d["violations"] = rc
    ev.write()
    return rc
