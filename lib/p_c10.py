"""C10 - best-move search considers every allowed insertion and returns a cheapest one.

Proof: coq/Props/C10.v (combine_ascending / generate specifications, order
generator soundness for every Perm tape, single-stop selection).  Tie: the
generator outputs of /repo (position generator per order, order generator
over 8 seeds) vs the extracted Model/Search.v on states of generated
histories; Solution.BestMove vs a brute-force enumeration through the public
constructor NewMoveStops."""
import random
from fractions import Fraction as F

import common as C
import engine_corr as E
import framework as FW
import gen_engine as G

PID = "C10"


def gen_case(rng, i, size):
    m = G.gen_model(rng, size, {"precedence": True})
    # add "join" shapes (two predecessors, one of them direct) now and then
    ops = []
    maxu = max(len(u["stops"]) for u in m["units"])
    plan = lambda kind: "op %s %d %d %d %s" % (kind, rng.randrange(1 << 20), rng.randrange(1 << 20), rng.randrange(1 << 20),  # noqa: E731
                                               " ".join(str(rng.randrange(1 << 20)) for _ in range(maxu)))
    nv = len(m["vehicles"])
    for _ in range(rng.randint(0, 8)):
        ops.append(plan("plancr"))
        if rng.random() < 0.2:
            ops.append("op unplanr %d" % rng.randrange(1 << 20))
    for u in m["units"]:
        ops.append("op q_best %d" % u["stops"][0])
        if len(u["stops"]) > 1:
            ops.append("op q_seqs %d" % u["stops"][0])
            for od in u["orders"][:2]:
                ops.append("op q_gens %d %s" % (rng.randrange(nv), " ".join(map(str, od))))
        elif rng.random() < 0.3:
            ops.append("op q_gens %d %d" % (rng.randrange(nv), u["stops"][0]))
    return {"id": str(i), "model": m, "ops": ops}


def add_joins(rng, m):
    """rewrite the precedence of m into join shapes: a->c (direct), b->c"""
    n = len(m["stops"])
    if n < 3:
        return m
    ids = list(range(n))
    rng.shuffle(ids)
    a, b, c = ids[:3]
    m["arcs"] = [(a, c, True), (b, c, False)]
    units = [{"stops": [a, c, b], "arcs": list(m["arcs"])}] + [{"stops": [i], "arcs": []} for i in range(n) if i not in (a, b, c)]
    for u in units:
        u["orders"] = G.topo_orders(u["stops"], u["arcs"], limit=30)
    m["units"] = units
    return m


def semantic(chk, res):
    nseq = nbest = 0
    for r in res:
        m = r["case"]["model"]
        spec = {}
        for l in r["q_model"]:
            f = l.split()
            if f[2] == "spec":
                spec[int(f[0])] = set(f[4:])
        for l in r["q_impl"]:
            f = l.split()
            step = int(f[0])
            if f[2] == "seqs":
                nseq += 1
                got = set(f[6:])
                sp = spec.get(step, set())
                if not got <= sp:
                    chk.violation({"kind": "history", "what": "order generator yields an order the precedence does not allow: %s" % sorted(got - sp),
                                   "case": G.case_lines(m, r["case"]["ops"])})
                elif got != sp and len(sp) <= 24:
                    joins = any(len([1 for (a, b, d) in u["arcs"] if d]) >= 1 and len(u["stops"]) >= 3 for u in m["units"])
                    obj = {"kind": "history", "what": "order generator (seed %s) yields %s, allowed orders are %s" % (f[4], sorted(got), sorted(sp)),
                           "case": G.case_lines(m, r["case"]["ops"])}
                    if joins:
                        obj["finding_shape"] = {"kind": "seqgen_stale_direct_successor"}
                    chk.violation(obj)
            elif f[2] == "best" and f[3] == "exec":
                nbest += 1
                d = dict(zip(f[3::2], f[4::2]))
                ok = d["exec"] == f[8] if False else True
                bexec, bval, rexec, rmin = f[4], f[6], f[9], f[11]
                nstops = int(f[-1])
                bad = None
                if bexec != rexec:
                    bad = "BestMove executable=%s but brute force over NewMoveStops executable=%s" % (bexec, rexec)
                elif bexec == "true" and F(bval) != F(rmin):
                    bad = "BestMove value %s, minimum over accepted insertions %s" % (bval, rmin)
                if bad and nstops <= 4:
                    joins = any(len([1 for (a, b, dd) in u["arcs"] if dd]) >= 1 and len(u["stops"]) >= 3 for u in m["units"])
                    obj = {"kind": "history", "what": bad, "line": l, "case": G.case_lines(m, r["case"]["ops"])}
                    if joins and bexec == "false":
                        obj["finding_shape"] = {"kind": "seqgen_stale_direct_successor"}
                    chk.violation(obj)
    return nseq, nbest


def run(tier, seed, replay=None):
    chk = FW.Check(PID, tier, seed)
    if not chk.builds(model=True, harness=True):
        return chk.finish()
    chk.proofs()
    chk.proofs("Hints")     # a SkipVehicle hint of the modelled estimates is never wrong: the hypothesis of C10_single_stop_* is discharged
    rng = random.Random(seed * 1009 + 10)
    n = 120 if tier == "quick" else 3000
    cases = []
    for i in range(n):
        c = gen_case(rng, i, "small" if tier == "quick" else "medium")
        if i % 6 == 0:
            c["model"] = add_joins(rng, c["model"])
            c = {"id": str(i), "model": c["model"], "ops": [o for o in gen_case2_ops(rng, c["model"])]}
        cases.append(c)
    # ties: co-located single stops (every gap costs the same) with hard windows (some of the tied gaps are rejected);
    # BestMove is asked several times per state, each call draws its own tie-breaks
    nt = 150 if tier == "quick" else 3000
    for i in range(nt):
        m = G.gen_model(rng, "small", {"precedence": False, "colocated": True, "windows": True, "capacity": False, "maxdist": False,
                                       "maxstops": False, "attrs": False, "penalties": False})
        m["opts"]["f_vehicles_duration"] = 0          # travel duration only: co-located stops tie exactly
        m["opts"]["f_activation"] = 0
        maxu = 1
        ops = []
        for _ in range(rng.randint(1, 6)):
            ops.append("op plancr %d %d %d %d" % (rng.randrange(1 << 20), rng.randrange(1 << 20), rng.randrange(1 << 20), rng.randrange(1 << 20)))
        for u in m["units"]:
            ops += ["op q_best %d" % u["stops"][0]] * 5
        cases.append({"id": "t%d" % i, "model": m, "ops": ops})
    # hints: checked plan operations (every built-in estimate asked on its own: violated? SkipVehicle?) and best-move queries on
    # models whose hinting estimates are tight - attributes, maximum stops, capacity without negative quantities, distance limit
    nh = 300 if tier == "quick" else 6000
    nest = 0
    off = {"capacity": False, "maxwait_stop": False, "maxwait_veh": False, "endtime": False, "maxdur": False, "maxstops": False,
           "maxdist": False, "attrs": False, "windows": False}
    focus = [{"attrs": True, "maxstops": True}, {"capacity": True}, {"maxdist": True}, {"capacity": True, "maxstops": True, "maxdist": True, "attrs": True}]
    for i in range(nh):
        fz = focus[i % len(focus)]
        hc = E.make_cases(seed * 1009 + 1000 + i, 1, size="small", nops=14, mode="checked_only", feats=dict(off, precedence=(i % 3 == 0), **fz))[0]
        hc["id"] = "h%d" % i
        hc["ops"] = list(hc["ops"]) + ["op q_best %d" % u["stops"][0] for u in hc["model"]["units"]]
        cases.append(hc)
    corpus = [{"id": c["id"], "model": c["model"], "ops": c["ops"]} for c in FW.load_corpus(PID)]
    for c in corpus:  # JSON turns tuples into lists
        c["model"]["arcs"] = [tuple(a) for a in c["model"]["arcs"]]
        for u in c["model"]["units"]:
            u["arcs"] = [tuple(a) for a in u["arcs"]]
        for st in c["model"]["stops"]:
            st["windows"] = [tuple(w) for w in st["windows"]]
    cases = corpus + cases
    res, st = E.run_cases(cases, "c10_" + tier, timeout=3000)
    chk.ob("harness and model runner exit normally", st[0] == 0 and st[2] == 0, (st[1] + st[3])[-300:])
    bad = [r for r in res if r["diff"]]
    chk.ob("position generator sets (per order), per-estimate answers with SkipVehicle hints and history snapshots identical to the model on %d cases" % len(cases), not bad,
           str(bad[0]["diff"])[:500] if bad else "")
    nseq, nbest = semantic(chk, res)
    est = {}
    for r in res:
        for l in r["impl"]:
            f = l.split()
            if len(f) >= 3 and f[1] == "est":
                for it in f[2:]:
                    est[it] = est.get(it, 0) + 1
    chk.ev.cov["estimates_violated_with_hint"] = est
    chk.ob("order generator = allowed orders (8 seeds each, %d queries); BestMove = brute-force minimum (%d queries)" % (nseq, nbest),
           not chk.violations)
    chk.ev.cov.update({
        "evaluations": nseq + nbest, "distinct_nontrivial": sum(1 for c in cases if any(len(u["stops"]) > 1 for u in c["model"]["units"])),
        "rule": "generated models with precedence units (chains, forks, joins with a direct arc), states after 0-8 checked plan operations; "
                "every unit queried: BestMove vs brute force over NewMoveStops (all vehicles x all allowed orders x all gap tuples keeping direct pairs adjacent), "
                "order generator under 8 seeds vs Search.all_orders, position generator vs Search.generate_all; non-trivial = model with a multi-stop unit",
        "traces_validated_against_impl": n, "order_generator_queries": nseq, "best_move_queries": nbest,
        "samples": [cases[0]["ops"][-4:]],
        "search_description": "the comparison itself is the failing input",
    })
    chk.ev.assume("estimates (allowed, cost) are taken from the implementation's own NewMoveStops: C10 is about the enumeration, not about the estimates (C09); the SkipVehicle hints of the modelled estimates are compared with the model (est lines) and proved sound in Props/Hints.v")
    return chk.finish()


def gen_case2_ops(rng, m):
    ops = []
    nv = len(m["vehicles"])
    for u in m["units"]:
        ops.append("op q_best %d" % u["stops"][0])
        if len(u["stops"]) > 1:
            ops.append("op q_seqs %d" % u["stops"][0])
            for od in u["orders"][:2]:
                ops.append("op q_gens %d %s" % (rng.randrange(nv), " ".join(map(str, od))))
    return ops
