"""C06 - the solver never hands back a worse solution.

Proof: coq/Props/C06.v (single solver loop, aggregator, parallel LTS: all
operator-result oracles, all schedules).  Tie: regenerated skeleton of
solve_solver.go / solve_solver_parallel.go projected on best-solution tracking
(Oblig/O_C06.v) + the score sequences delivered by the real solver under many
option sets.  Search: monotonicity of the recorded channels."""
import framework as FW
import solver_runs as S

PID = "C06"


def settings(rng, m):
    return {"iterations": rng.choice([0, 1, 20, 150, 600]), "duration_ms": rng.choice([300, 1500]),
            "runs": rng.choice([1, 1, 2, 3, 4]), "starts": rng.choice([0, 1, 2, 3]),
            "det": rng.choice([0, 1]), "repeat": 1, "snap": 0}


def check_runs(chk, runs, cases):
    bad = 0
    byid = {c["id"]: c for c in cases}
    for (cid, rep), r in sorted(runs.items()):
        sc = r["scores"]
        fails = []
        for a, b in zip(sc, sc[1:]):
            if not b < a:
                fails.append("scores on the channel not strictly decreasing: %s then %s" % (a, b))
        if sc and sc[-1] > sc[0]:
            fails.append("last delivered %s worse than first %s" % (sc[-1], sc[0]))
        if fails:
            bad += 1
            chk.violation({"kind": "input", "what": fails[0], "failures": fails[:5], "settings": byid[cid]["settings"],
                           "model": byid[cid]["model"], "scores": [str(x) for x in sc]})
    return bad


def run(tier, seed, replay=None):
    chk = FW.Check(PID, tier, seed)
    if not chk.builds(model=False, harness=True, skeletons=True):
        return chk.finish()
    chk.proofs()
    chk.oblig("O_C06")
    n = 40 if tier == "quick" else 600
    cases = S.make_solve_cases(seed * 31 + 6, n, settings, size="small" if tier == "quick" else "medium")
    runs, rc, err = S.run_solve(cases, "c06_" + tier)
    chk.ob("harness solve exits normally", rc == 0, err[-400:])
    bad = check_runs(chk, runs, cases)
    nsol = sum(len(r["scores"]) for r in runs.values())
    improving = sum(1 for r in runs.values() if len(r["scores"]) >= 2)
    chk.ob("delivered score sequences strictly decreasing on %d solver runs" % len(runs), bad == 0)
    chk.ev.cov.update({
        "evaluations": len(runs), "distinct_nontrivial": improving,
        "rule": "generated JSON inputs (lib/gen_engine.py) x option sets (iterations 0..600, runs 1-4, starts 0-3, deterministic on/off); "
                "non-trivial = run that delivered at least one improvement after the start solution",
        "solutions_seen": nsol, "traces_validated_against_impl": len(runs),
        "samples": [{"settings": cases[0]["settings"], "scores": [str(x) for x in list(runs.values())[0]["scores"]][:8]}] if runs else [],
        "search_description": "monotonicity of every recorded channel; on a broken obligation 4x more runs",
    })
    chk.ev.assume("NaN scores and user-written operators are outside the model; Solver.Reset with a better solution than the best is excluded by hypothesis `benign` (C06_single_last_is_best)")

    def search():
        more = S.make_solve_cases(seed * 77 + 1, n * 4, settings)
        r2, _, _ = S.run_solve(more, "c06_search")
        c2 = FW.Check(PID, tier, seed)
        check_runs(c2, r2, more)
        return c2.violations[0] if c2.violations else None
    return chk.finish(search)
