"""C06 - the solver never hands back a worse solution.

Proof: coq/Props/C06.v (single solver loop, aggregator, parallel LTS: all
operator-result oracles, all schedules).  Tie: regenerated skeleton of
solve_solver.go / solve_solver_parallel.go projected on best-solution tracking
(Oblig/O_C06.v) + the score sequences delivered by the real solver under many
option sets.  Search: monotonicity of the recorded channels."""
import framework as FW
import solver_runs as S

PID = "C06"


def settings(rng, m):
    return {"iterations": rng.choice([0, 1, 20, 150, 600]), "duration_ms": rng.choice([300, 1500]),
            "runs": rng.choice([1, 1, 2, 3, 4]), "starts": rng.choice([0, 1, 2, 3]),
            "det": rng.choice([0, 1]), "repeat": 1, "snap": 0}


def check_runs(chk, runs, cases):
    bad = 0
    byid = {c["id"]: c for c in cases}
    for (cid, rep), r in sorted(runs.items()):
        sc = r["scores"]
        fails = []
        for a, b in zip(sc, sc[1:]):
            if not b < a:
                fails.append("scores on the channel not strictly decreasing: %s then %s" % (a, b))
        if sc and sc[-1] > sc[0]:
            fails.append("last delivered %s worse than first %s" % (sc[-1], sc[0]))
        if fails:
            bad += 1
            chk.violation({"kind": "input", "what": fails[0], "failures": fails[:5], "settings": byid[cid]["settings"],
                           "model": byid[cid]["model"], "scores": [str(x) for x in sc]})
    return bad


def gen_sloop(rng):
    """one scripted run of the single solver: start score, operator invocations (resets, work score, can-improve)"""
    K = 1023
    start = rng.randint(1, K)
    lines = ["start %d" % start]
    low = start
    best = start          # the solver's best score as Model/SolverLoop.v srun computes it
    for _ in range(rng.randint(1, 25)):
        resets = []
        toks = []
        if rng.random() < 0.35:
            for _ in range(rng.randint(1, 2)):
                if rng.random() < 0.35:
                    # what the restart operator does: Reset(Solver().BestSolution()); the score is for the model side
                    toks.append("b%d" % best)
                    continue
                x = rng.choice([rng.randint(0, K), rng.randint(low, K), max(0, low - rng.randint(0, 40))])
                resets.append(x)
                toks.append(str(x))
                best = min(best, x)
        r = rng.random()
        w = rng.randint(0, max(0, low - 1)) if r < 0.4 else (low if r < 0.5 else rng.randint(0, K))
        ci = 1 if rng.random() < 0.8 else 0
        lines.append("exec %d %d %s" % (ci, w, " ".join(toks)))
        if ci and w < best:
            best = w
        low = min([low, w] + resets)
    return lines


def scripted_stage(chk, tier, seed):
    """the REAL solver loop (NewSkeletonSolver.Solve / invoke / Reset) driven by a scripted operator
    vs Model/SolverLoop.v srun: scores sent on the channel, best and work score at the end"""
    import random
    import common as C
    import os
    rng = random.Random(seed * 131 + 6)
    n = 400 if tier == "quick" else 20000
    blocks = [(str(i), gen_sloop(rng)) for i in range(n)]
    cf = os.path.join(C.BUILD, "c06_sloop_%s.case" % tier)
    C.write_cases(cf, blocks)
    (rc1, go_out, go_err), (rc2, ml_out, ml_err) = C.run_both("sloop", cf)
    chk.ob("scripted solver: harness and model runner exit normally", rc1 == 0 and rc2 == 0, (go_err + ml_err)[-300:])
    g, m = C.group_lines(go_out), C.group_lines(ml_out)
    bad = []
    nres = nworse = 0
    for cid, lines in blocks:
        gl, ml = g.get(cid, []), m.get(cid, [])
        nres += sum(1 for l in lines if len(l.split()) > 3)
        if gl != ml and len(bad) < 5:
            bad.append({"case": lines, "impl": gl, "model": ml})
        sent = [int(x) for l in gl if l.startswith("sent") for x in l.split()[1:]]
        fails = [("scores on the channel not strictly decreasing: %d then %d" % (a, b)) for a, b in zip(sent, sent[1:]) if not b < a]
        if not sent:
            fails.append("nothing sent: %s" % gl[:2])
        if fails:
            nworse += 1
            chk.violation({"kind": "history", "what": fails[0], "sent": sent, "case": lines,
                           "how_to_replay": "nrharness sloop <file with: case x / these lines / end>"})
    chk.ob("scripted solver loop = SolverLoop.srun on %d scripted runs (%d with Solver.Reset calls)" % (n, nres), not bad,
           str(bad[0])[:600] if bad else "")
    if bad and chk.mismatch is None:
        chk.mismatch = bad[0]
    chk.ob("scripted solver loop: channel strictly decreasing on the implementation", nworse == 0)
    chk.ev.cov["scripted_runs"] = n
    chk.ev.cov["scripted_runs_with_reset"] = nres


def aggregator_stage(chk, tier, seed):
    """the REAL parallel solver handed K scripted start solutions and exactly K sequential runs with scripted operators vs
    Model/SolverLoop.v ainit / arecv / arun over the runs' srun outputs: the scores delivered on the result channel"""
    import os
    import random
    import common as C
    rng = random.Random(seed * 131 + 66)
    n = 300 if tier == "quick" else 10000
    blocks = []
    for i in range(n):
        k = rng.choice([1, 2, 3, 3, 4, 5])
        starts = [rng.randint(1, 1023) for _ in range(k)]
        lines = ["astarts " + " ".join(map(str, starts))]
        low = min(starts)
        for _ in range(k):
            ws = []
            for _ in range(rng.randint(1, 5)):
                r = rng.random()
                ws.append(rng.randint(0, max(0, low - 1)) if r < 0.35 else rng.randint(0, 1023))
            low = min([low] + ws)
            lines.append("arun " + " ".join(map(str, ws)))
        blocks.append((str(i), lines))
    cf = os.path.join(C.BUILD, "c06_aloop_%s.case" % tier)
    C.write_cases(cf, blocks)
    (rc1, go_out, go_err), (rc2, ml_out, ml_err) = C.run_both("aloop", cf, timeout=3000)
    chk.ob("scripted start solutions: harness and model runner exit normally", rc1 == 0 and rc2 == 0, (go_err + ml_err)[-300:])
    g, m = C.group_lines(go_out), C.group_lines(ml_out)
    bad, nworse = [], 0
    for cid, lines in blocks:
        gl, ml = g.get(cid, []), m.get(cid, [])
        if gl != ml and len(bad) < 5:
            bad.append({"case": lines, "impl": gl, "model": ml})
        sent = [int(x) for l in gl if l.startswith("delivered") for x in l.split()[1:]]
        starts = [int(x) for x in lines[0].split()[1:]]
        fails = [("scores on the channel not strictly decreasing: %d then %d" % (a, b)) for a, b in zip(sent, sent[1:]) if not b < a]
        if not sent:
            fails.append("nothing delivered: %s" % gl[:2])
        elif sent[0] != min(starts):
            fails.append("first delivered solution has score %d, the best start solution has %d" % (sent[0], min(starts)))
        if fails:
            nworse += 1
            chk.violation({"kind": "history", "what": fails[0], "delivered": sent, "case": lines,
                           "how_to_replay": "nrharness aloop <file with: case x / these lines / end>"})
    chk.ob("parallel solver with scripted start solutions = SolverLoop.arun on %d cases" % n, not bad, str(bad[0])[:600] if bad else "")
    if bad and chk.mismatch is None:
        chk.mismatch = bad[0]
    chk.ob("scripted start solutions: delivered scores start at the best start solution and strictly decrease (implementation)", nworse == 0)
    chk.ev.cov["scripted_start_solution_cases"] = n


def antipodal_stage(chk, tier, seed):
    """vehicles whose start and end lie on opposite sides of the globe (haversine travel, no matrix): rounding used to make the
    haversine term exceed 1, the distance NaN and with it every score - and a NaN score passes both 'is it better' tests
    (defect repaired in /repo: the term is capped).  Scores must be finite and the channel strictly decreasing."""
    import random
    rng = random.Random(seed * 131 + 606)
    n = 12 if tier == "quick" else 300
    blocks, meta = [], {}
    for i in range(n):
        lon, lat = rng.randint(-179, 0), rng.randint(-60, 60)
        if i == 0:
            lon, lat = -179, 6           # the reproduction of the finding
        ve = {"id": "v0", "speed": 20, "start_location": {"lon": lon, "lat": lat}, "end_location": {"lon": lon + 180, "lat": -lat}}
        stops = [{"id": "s%d" % k, "location": {"lon": rng.uniform(-170, 170), "lat": rng.uniform(-60, 60)}} for k in range(rng.randint(2, 5))]
        inp = {"stops": stops, "vehicles": [ve] + ([{"id": "v1", "speed": 20, "start_location": {"lon": 0.5, "lat": 0.5}}] if rng.random() < 0.5 else [])}
        st = {"iterations": 120, "duration_ms": 5000, "runs": rng.choice([1, 2]), "starts": rng.choice([0, 2]), "det": 1, "repeat": 1, "snap": 0}
        blocks.append(S.raw_block("ap%d" % i, inp, st))
        meta["ap%d" % i] = (inp, st)
    runs, rc, err = S.run_solve_raw(blocks, "c06_antipodal_" + tier, timeout=3000)
    chk.ob("antipodal endpoints: harness solve exits normally", rc == 0, err[-300:])
    bad = 0
    for (cid, rep), r in sorted(runs.items()):
        sc = r["scores"]
        fails = [f for f in r["flags"] if f.startswith(("score not a finite", "PANIC", "HANG"))]
        fin = [x for x in sc if x is not None]
        fails += ["scores on the channel not strictly decreasing: %s then %s" % (a, b) for a, b in zip(fin, fin[1:]) if not b < a]
        if fails:
            bad += 1
            chk.violation({"kind": "input", "what": fails[0], "failures": fails[:5], "input": meta[cid][0], "settings": meta[cid][1],
                           "scores": [str(x) for x in sc][:10], "how": "harness solve with this JSON input (json / gopt / build / solve lines)"})
    chk.ob("finite, strictly decreasing scores on %d inputs with (nearly) antipodal vehicle endpoints (%d solutions)"
           % (len(runs), sum(len(r["scores"]) for r in runs.values())), bad == 0)
    chk.ev.cov["antipodal_inputs"] = len(runs)


def run(tier, seed, replay=None):
    chk = FW.Check(PID, tier, seed)
    if not chk.builds(model=True, harness=True, skeletons=True):
        return chk.finish()
    chk.proofs()
    chk.oblig("O_C06")
    scripted_stage(chk, tier, seed)
    aggregator_stage(chk, tier, seed)
    antipodal_stage(chk, tier, seed)
    n = 40 if tier == "quick" else 600
    cases = S.make_solve_cases(seed * 31 + 6, n, settings, size="small" if tier == "quick" else "medium")
    runs, rc, err = S.run_solve(cases, "c06_" + tier)
    chk.ob("harness solve exits normally", rc == 0, err[-400:])
    bad = check_runs(chk, runs, cases)
    nsol = sum(len(r["scores"]) for r in runs.values())
    improving = sum(1 for r in runs.values() if len(r["scores"]) >= 2)
    chk.ob("delivered score sequences strictly decreasing on %d solver runs" % len(runs), bad == 0)
    chk.ev.cov.update({
        "evaluations": len(runs), "distinct_nontrivial": improving,
        "rule": "generated JSON inputs (lib/gen_engine.py) x option sets (iterations 0..600, runs 1-4, starts 0-3, deterministic on/off); "
                "non-trivial = run that delivered at least one improvement after the start solution",
        "solutions_seen": nsol, "traces_validated_against_impl": len(runs),
        "samples": [{"settings": cases[0]["settings"], "scores": [str(x) for x in list(runs.values())[0]["scores"]][:8]}] if runs else [],
        "search_description": "monotonicity of every recorded channel; on a broken obligation 4x more runs",
    })
    chk.ev.assume("NaN scores and user-written operators are outside the model; Solver.Reset with a better solution than the best is excluded by hypothesis `benign` (C06_single_last_is_best)")

    def search():
        more = S.make_solve_cases(seed * 77 + 1, n * 4, settings)
        r2, _, _ = S.run_solve(more, "c06_search")
        c2 = FW.Check(PID, tier, seed)
        check_runs(c2, r2, more)
        return c2.violations[0] if c2.violations else None
    return chk.finish(search)
