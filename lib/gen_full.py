"""Full-feature JSON inputs (everything the schema offers, including features
outside the Coq-modelled core) for the crash stream (C16) and for the
property oracles on real solver output; plus a malformed stream."""
import copy
import json

from gen_engine import T0, rfc


def as_list(x):
    if x is None:
        return []
    return list(x) if isinstance(x, list) else [x]


def gen_full(rng, size="small", force=None):
    p = lambda x: rng.random() < x  # noqa: E731
    n = rng.randint(1, 8 if size == "small" else 16)
    if force and force.get("dag"):
        n = rng.randint(5, 12)
    if force and force.get("mixing_heavy"):
        n, nv = 2 * rng.randint(4, 6), 1
    nv = rng.randint(1, 3 if size == "small" else 5)
    use_matrix = p(0.8)
    td = use_matrix and p(0.25)
    if force and force.get("td"):
        use_matrix = td = True
    N = n + 2 * nv
    F = {k: p(q) for k, q in dict(capacity=.6, windows=.5, precedence=.4, groups=.3, alternates=.25, mixing=.3, initial=.3,
                                  dur_groups=.3, multipliers=.4, targets=.3, minstops=.25, limits=.5, attrs=.3,
                                  defaults=.15, custom=.3, sparse=.5, dag=.35, mixing_heavy=0, overload=0).items()}
    if force:
        F.update(force)
    direct_p, succ_p = F.get("direct_p"), F.get("succ_p", 0.5)
    stops = []
    for i in range(n):
        s = {"id": "s%d" % i, "location": {"lon": 7.0 + 0.01 * i, "lat": 51.0 + 0.005 * (i % 4)}}
        if p(0.7):
            s["duration"] = rng.choice([0, 60, 120, 300])
        if F["capacity"] and p(0.8):
            s["quantity"] = rng.choice([-2, -1, -1, -1, 1] if F["overload"] else [-2, -1, -1, 1, 1, 2]) if p(0.6) else {"a": rng.choice([-1, 1]), "b": rng.choice([-2, 0, 1])}
        if F["windows"] and p(0.5):
            a = T0 + 60 * rng.randint(0, 90)
            w = [rfc(a), rfc(a + 60 * rng.choice([10, 30, 90]))]
            s["start_time_window"] = w if p(0.6) else [w, [rfc(a + 7200), rfc(a + 9000)]]
            if p(0.4):
                s["max_wait"] = rng.choice([0, 300, 1800])
        if p(0.4):
            s["unplanned_penalty"] = rng.choice([0, 100, 50000])
        if F["attrs"] and p(0.4):
            s["compatibility_attributes"] = rng.sample(["x", "y", "z"], rng.randint(1, 2))
        if F["mixing"] and (p(0.6) or F["mixing_heavy"]):
            s["mixing_items"] = {"m": {"name": rng.choice(["A", "B"]), "quantity": rng.choice([1, 1, 2])}}
        if F["targets"] and p(0.5):
            s["target_arrival_time"] = rfc(T0 + 60 * rng.randint(0, 120))
            if p(0.7):
                s["early_arrival_time_penalty"] = rng.choice([0.5, 1.0, 2.0])
            if p(0.7):
                s["late_arrival_time_penalty"] = rng.choice([0.5, 1.0, 4.0])
        if F["custom"] and p(0.5):
            s["custom_data"] = {"k": i, "tag": "t%d" % i}
        stops.append(s)
    # mixing: make pickups/deliveries come in pairs so that inputs are mostly plannable
    if F["mixing"]:
        mixed = [s for s in stops if "mixing_items" in s]
        for a, b in zip(mixed[::2], mixed[1::2]):
            b["mixing_items"]["m"]["name"] = a["mixing_items"]["m"]["name"]
            b["mixing_items"]["m"]["quantity"] = -a["mixing_items"]["m"]["quantity"]
            if "precedes" not in a:
                a["precedes"] = b["id"]
        if len(mixed) % 2 == 1:
            del mixed[-1]["mixing_items"]
    if F["precedence"] and n >= 3 and F["dag"]:
        # precedence DAG over a random order: chains, forks and joins, relations listed in an order that
        # makes the factory open several chains first and merge them later; precedes/succeeds mixed, lists
        ids = [i for i in range(n) if "precedes" not in stops[i]]
        rng.shuffle(ids)
        edges = []
        for _ in range(rng.randint(2, max(2, min(len(ids), 8)))):
            if len(ids) < 2:
                break
            i, j = sorted(rng.sample(range(len(ids)), 2))
            if (ids[i], ids[j]) not in edges:
                edges.append((ids[i], ids[j]))
        for a, b in edges:
            direct = p(0.15 if direct_p is None else direct_p)
            if not p(succ_p):
                tgt = {"id": stops[b]["id"], "direct": True} if direct else stops[b]["id"]
                cur = stops[a].get("precedes")
                stops[a]["precedes"] = tgt if cur is None and p(0.6) and not direct else as_list(cur) + [tgt]
            else:
                src = {"id": stops[a]["id"], "direct": True} if direct else stops[a]["id"]
                cur = stops[b].get("succeeds")
                stops[b]["succeeds"] = src if cur is None and p(0.6) and not direct else as_list(cur) + [src]
    elif F["precedence"] and n >= 2:
        ids = list(range(n))
        rng.shuffle(ids)
        k = 0
        while k + 1 < len(ids) and p(0.6):
            a, b = stops[ids[k]], stops[ids[k + 1]]
            if "precedes" not in a and "precedes" not in b:
                tgt = [{"id": b["id"], "direct": True}] if p(0.3 if direct_p is None else direct_p) else b["id"]
                if not p(succ_p):
                    a["precedes"] = tgt
                else:
                    b["succeeds"] = [{"id": a["id"], "direct": True}] if isinstance(tgt, list) else a["id"]
            k += 2
    vehicles = []
    anywin = any("start_time_window" in s for s in stops)
    for v in range(nv):
        ve = {"id": "v%d" % v}
        if p(0.85):
            ve["start_location"] = {"lon": 7.5 + 0.01 * v, "lat": 51.5}
        if p(0.8):
            ve["end_location"] = {"lon": 7.6 + 0.01 * v, "lat": 51.6}
        if not use_matrix or p(0.3):
            ve["speed"] = rng.choice([5, 10, 20])
        if anywin or p(0.5):
            ve["start_time"] = rfc(T0 + rng.choice([0, 600, 3600]))
        sparse = F["sparse"]
        if F["capacity"] and (v == 0 or p(0.8)):
            if any(isinstance(s.get("quantity"), dict) for s in stops):
                ve["capacity"] = {"a": rng.randint(0, 4), "b": rng.randint(0, 4)}
                if p(0.4):
                    ve["start_level"] = {"a": rng.randint(0, ve["capacity"]["a"])}
            else:
                ve["capacity"] = rng.randint(0, 2 if F["overload"] else 5)
                if p(0.4):
                    ve["start_level"] = rng.randint(0, ve["capacity"])
            if any(isinstance(s.get("quantity"), dict) for s in stops) and any(isinstance(s.get("quantity"), int) for s in stops):
                ve["capacity"]["default"] = 3
        if F["limits"]:
            for key, vals in (("max_stops", [0, 1, 2, 5]), ("max_distance", [1000, 20000, 200000]), ("max_duration", [600, 3600, 14400]),
                              ("max_wait", [0, 600, 3600])):
                if p(0.4 if sparse else 0.9):
                    ve[key] = rng.choice(vals)
            if p(0.4) and "start_time" in ve:
                ve["end_time"] = rfc(T0 + rng.choice([3600, 7200, 20000]))
        if F["attrs"] and p(0.6):
            ve["compatibility_attributes"] = rng.sample(["x", "y", "z"], rng.randint(1, 3))
        if F["multipliers"] and p(0.7):
            ve["stop_duration_multiplier"] = rng.choice([0.5, 1.0, 2.0, 3.0])
        if F["minstops"] and p(0.6):
            ve["min_stops"] = rng.randint(0, 3)
            ve["min_stops_penalty"] = rng.choice([1.0, 10.0])
        if p(0.4):
            ve["activation_penalty"] = rng.choice([0, 10, 1000])
        if F["custom"] and p(0.5):
            ve["custom_data"] = {"driver": "d%d" % v}
        vehicles.append(ve)
    inp = {"stops": stops, "vehicles": vehicles}
    if F["groups"] and n >= 2:
        ids = [s["id"] for s in stops]
        rng.shuffle(ids)
        inp["stop_groups"] = [ids[:rng.randint(2, min(3, n))]]
    nalt = 0
    if F["alternates"]:
        nalt = rng.randint(1, 3)
        alts = []
        for a in range(nalt):
            al = {"id": "alt%d" % a, "location": {"lon": 7.3 + 0.01 * a, "lat": 51.3}}
            if p(0.5):
                al["duration"] = 120
            if F["capacity"] and p(F.get("alt_quantity_p", 0.4)) and not any(isinstance(s.get("quantity"), dict) for s in stops):
                al["quantity"] = -1 if "alt_quantity_p" not in F else rng.choice([-2, -1, -3])
            # alternates carry the temporal fields of a stop as well - some of them only
            if F["windows"] and p(0.5):
                a0 = T0 + 60 * rng.randint(0, 90)
                al["start_time_window"] = [rfc(a0), rfc(a0 + rng.choice([600, 1800, 3600]))]
                if p(0.4):
                    al["max_wait"] = rng.choice([0, 300, 1800])
            if F["targets"] and p(0.4):
                al["target_arrival_time"] = rfc(T0 + 60 * rng.randint(0, 120))
                al["early_arrival_time_penalty"] = rng.choice([0.5, 1.0])
                al["late_arrival_time_penalty"] = rng.choice([0.5, 2.0])
            if F["custom"] and p(0.5):
                al["custom_data"] = {"alt": a}
            alts.append(al)
        inp["alternate_stops"] = alts
        if any("start_time_window" in a for a in alts):
            for ve in vehicles:
                ve.setdefault("start_time", rfc(T0 + rng.choice([0, 600, 3600])))
        for ve in vehicles:
            if p(F.get("alt_vehicle_p", 0.6)):
                ve["alternate_stops"] = rng.sample([a["id"] for a in alts], rng.randint(1, nalt))
    if F["initial"]:
        tied = set()
        for s in stops:
            for t in as_list(s.get("precedes")) + as_list(s.get("succeeds")):
                tied.add(t["id"] if isinstance(t, dict) else t)
        free = [s["id"] for s in stops if "precedes" not in s and "succeeds" not in s and (s["id"] not in tied or p(0.5)) and
                not any(s["id"] in g for g in inp.get("stop_groups", []))]
        rng.shuffle(free)
        for ve in vehicles:
            if free and p(0.5):
                k = rng.randint(1, min(2, len(free)))
                ve["initial_stops"] = [{"id": x, "fixed": p(0.4)} if p(0.7) else {"id": x} for x in free[:k]]
                free = free[k:]
    if F["dur_groups"] and n >= 2:
        ids = [s["id"] for s in stops]
        rng.shuffle(ids)
        inp["duration_groups"] = [{"group": ids[:rng.randint(1, min(3, n))], "duration": rng.choice([60, 300])}]
    M = N + nalt  # stops, alternates, then vehicle start/end
    if use_matrix:
        mat = [[0 if i == j else rng.randint(0, 900) for j in range(M)] for i in range(M)]
        if td:
            inp["duration_matrix"] = {"default_matrix": mat, "matrix_time_frames": [
                {"start_time": rfc(T0 + 1800), "end_time": rfc(T0 + 5400), "scaling_factor": rng.choice([0.5, 1.5, 2.0])},
                {"start_time": rfc(T0 + 5400), "end_time": rfc(T0 + 9000),
                 "matrix": [[0 if i == j else rng.randint(0, 1200) for j in range(M)] for i in range(M)]}][:rng.randint(1, 2)]}
            if p(F.get("per_vehicle_matrix", 0.3)):
                # a list of time-dependent matrices, each for its own vehicles (every vehicle in exactly one)
                frames2 = lambda: [{"start_time": rfc(T0 + 1200), "end_time": rfc(T0 + 4800),  # noqa: E731
                                    "scaling_factor": rng.choice([0.5, 1.25, 3.0])}][:rng.randint(0, 1)]
                vids = [ve["id"] for ve in vehicles]
                rng.shuffle(vids)
                cut = rng.randint(1, len(vids))
                parts = [vids[:cut]] + ([vids[cut:]] if vids[cut:] else [])
                lst = [dict(inp["duration_matrix"], vehicle_ids=parts[0])]
                for part in parts[1:]:
                    lst.append({"vehicle_ids": part, "matrix_time_frames": frames2(),
                                "default_matrix": [[0 if i == j else rng.randint(0, 900) for j in range(M)] for i in range(M)]})
                inp["duration_matrix"] = lst
        else:
            inp["duration_matrix"] = mat
        if p(0.8):
            inp["distance_matrix"] = [[0 if i == j else rng.randint(0, 5000) for j in range(M)] for i in range(M)]
    if F["defaults"]:
        inp["defaults"] = {"stops": {"duration": 90, "unplanned_penalty": 2000}, "vehicles": {"speed": 10}}
        if anywin:
            inp["defaults"]["vehicles"]["start_time"] = rfc(T0)
    if F["custom"]:
        inp["custom_data"] = {"run": "verif"}
    for ve in vehicles:
        if "speed" not in ve and not use_matrix and "defaults" not in inp:
            ve["speed"] = 10
    if force and force.get("td"):
        # departures in the first minute of a frame, off the minute: vehicle start times and stop durations with odd seconds
        for ve in vehicles:
            ve["start_time"] = rfc(T0 + rng.choice([1800, 5400]) + rng.choice([0, 1, 17, 30, 59, 60, -1, -30]))
        for st_ in stops:
            if "duration" in st_ and rng.random() < 0.5:
                st_["duration"] = st_["duration"] + rng.choice([1, 7, 31, 59])
    opts = gen_options(rng)
    if F["capacity"] and rng.random() < (force or {}).get("capacity_objective", 0.2):
        # capacity as an objective: the constraint of one resource (or of all) switched off, its excess penalised instead
        names = set()
        for x in stops + vehicles:
            for key in ("quantity", "capacity"):
                q = x.get(key)
                if isinstance(q, dict):
                    names |= set(q)
                elif q is not None:
                    names.add("default")
        if names:
            res = rng.choice(sorted(names))
            if rng.random() < 0.5:
                opts["constraints"]["disable"]["capacity"] = True
            else:
                opts["constraints"]["disable"]["capacities"] = [res]
            opts["objectives"]["capacities"] = "name=%s;factor=%s;offset=%s" % (res, rng.choice(["1.0", "10.0", "0.5"]), rng.choice(["0.0", "5.0"]))
    return inp, opts, {k: bool(v) for k, v in F.items()} | {"matrix": use_matrix, "time_dependent": td}


def gen_overload(rng):
    """capacity as an objective on a plain input: one or two vehicles that are too small for what is picked up, drop-offs in
    between, the capacity constraint off - every stop gets planned and routes end above the capacity"""
    n = rng.randint(3, 7)
    named = rng.random() < 0.4
    res = "a" if named else "default"
    stops = []
    for i in range(n):
        q = rng.choice([-3, -2, -2, -1, -1, 1, 1, 2])
        if i == 0:
            q = -rng.randint(1, 3)
        if i == 1:
            q = rng.randint(1, 2)
        stops.append({"id": "s%d" % i, "location": {"lon": 7.0 + 0.01 * i, "lat": 51.0 + 0.005 * (i % 3)},
                      "quantity": {res: q} if named else q, "duration": rng.choice([0, 60])})
    vehicles = []
    for v in range(rng.randint(1, 2)):
        cap = rng.randint(0, 2)
        ve = {"id": "v%d" % v, "start_location": {"lon": 7.5, "lat": 51.5}, "speed": 10, "capacity": {res: cap} if named else cap}
        if rng.random() < 0.7:
            ve["end_location"] = {"lon": 7.6, "lat": 51.6}
        if rng.random() < 0.4:
            ve["start_level"] = {res: rng.randint(0, cap)} if named else rng.randint(0, cap)
        vehicles.append(ve)
    opts = gen_options(random_const())
    if rng.random() < 0.5:
        opts["constraints"]["disable"]["capacity"] = True
    else:
        opts["constraints"]["disable"]["capacities"] = [res]
    opts["objectives"]["capacities"] = "name=%s;factor=%s;offset=%s" % (res, rng.choice(["1.0", "10.0", "0.5"]), rng.choice(["0.0", "5.0"]))
    return {"stops": stops, "vehicles": vehicles}, opts


class random_const:
    """gen_options with every coin on its first side: nothing disabled, every standard objective at its first choice"""
    def random(self):
        return 1.0

    def choice(self, xs):
        return xs[-1]


def gen_options(rng):
    p = lambda x: rng.random() < x  # noqa: E731
    dis = lambda: p(0.05)  # noqa: E731
    return {
        "constraints": {"disable": {
            "attributes": dis(), "capacity": dis(), "capacities": [], "distance_limit": dis(), "groups": dis(),
            "maximum_duration": dis(), "maximum_stops": dis(), "maximum_wait_stop": dis(), "maximum_wait_vehicle": dis(),
            "mixing_items": dis(), "precedence": dis(), "vehicle_start_time": False, "vehicle_end_time": dis(),
            "start_time_windows": dis()}, "enable": {"cluster": p(0.05)}},
        "objectives": {"capacities": "", "min_stops": rng.choice([0.0, 1.0]), "early_arrival_penalty": rng.choice([0.0, 1.0]),
                       "late_arrival_penalty": rng.choice([0.0, 1.0]), "vehicle_activation_penalty": rng.choice([0.0, 1.0]),
                       "travel_duration": rng.choice([0.0, 1.0]), "vehicles_duration": rng.choice([0.0, 1.0, 1.0]),
                       "unplanned_penalty": rng.choice([0.0, 1.0, 1.0]), "cluster": rng.choice([0.0, 0.0, 1.0]),
                       "stop_balance": rng.choice([0.0, 0.0, 1.0])},
        "properties": {"disable": {"durations": dis(), "stop_duration_multipliers": dis(), "duration_groups": dis(),
                                   "initial_solution": dis()}},
        "validate": {"disable": {"start_time": p(0.1), "resources": p(0.7)}, "enable": {"matrix": False, "matrix_asymmetry_tolerance": 20}},
    }


def mutate_kind(rng, m, k):
    """second pass of one of the kinds that add an alternate stop, on an input without matrices"""
    m2, _ = mutate(rng, m, only=k)
    return m2, k


def mutate(rng, inp, only=None):
    """malformed stream: one structural mutation of a valid-looking input"""
    m = copy.deepcopy(inp)
    kinds = ["drop_stop_id", "dup_stop_id", "dangling_precedes", "self_precedes", "cyclic_precedes", "bad_window", "reversed_window",
             "empty_vehicles", "empty_stops", "neg_duration", "neg_capacity", "bad_quantity_type", "group_unknown", "alt_unknown",
             "initial_unknown", "initial_twice", "dup_vehicle_id", "no_location", "string_speed", "zero_speed", "huge_numbers",
             "window_overlap", "start_level_gt_capacity", "mixing_bad", "dur_group_unknown", "matrix_frames_overlap", "max_stops_negative",
             "matrix_vehicle_ghost", "matrix_vehicle_missing", "matrix_vehicle_twice", "null_in_resource_map", "empty_duration_groups",
             "null_scalars", "negative_matrix_entry", "negative_matrix_entry", "window_junk", "time_before_epoch", "huge_max_duration",
             "far_future_window", "huge_penalty", "initial_foreign_alternate", "precedes_alternate", "stop_alt_same_id"]
    k = only or rng.choice(kinds)
    st, ve = m["stops"], m["vehicles"]
    s0 = rng.choice(st) if st else None
    v0 = rng.choice(ve) if ve else None
    if k == "drop_stop_id" and s0:
        s0.pop("id", None)
    elif k == "dup_stop_id" and len(st) > 1:
        st[1]["id"] = st[0]["id"]
    elif k == "dangling_precedes" and s0:
        s0["precedes"] = "nope"
    elif k == "self_precedes" and s0:
        s0["precedes"] = s0.get("id", "s0")
    elif k == "cyclic_precedes" and len(st) > 1:
        st[0]["precedes"] = st[1]["id"]
        st[1]["precedes"] = st[0]["id"]
    elif k == "bad_window" and s0:
        s0["start_time_window"] = ["yesterday", "tomorrow"]
    elif k == "reversed_window" and s0:
        s0["start_time_window"] = [rfc(T0 + 3600), rfc(T0)]
    elif k == "empty_vehicles":
        m["vehicles"] = []
    elif k == "empty_stops":
        m["stops"] = []
    elif k == "neg_duration" and s0:
        s0["duration"] = -5
    elif k == "neg_capacity" and v0:
        v0["capacity"] = -3
    elif k == "bad_quantity_type" and s0:
        s0["quantity"] = "many"
    elif k == "group_unknown":
        m["stop_groups"] = [["s0", "ghost"]]
    elif k == "alt_unknown" and v0:
        v0["alternate_stops"] = ["ghost"]
    elif k == "initial_unknown" and v0:
        v0["initial_stops"] = [{"id": "ghost"}]
    elif k == "initial_twice" and len(ve) > 1 and st:
        ve[0]["initial_stops"] = [{"id": st[0]["id"]}]
        ve[1]["initial_stops"] = [{"id": st[0]["id"]}]
    elif k == "dup_vehicle_id" and len(ve) > 1:
        ve[1]["id"] = ve[0]["id"]
    elif k == "no_location" and s0:
        s0.pop("location", None)
    elif k == "string_speed" and v0:
        v0["speed"] = "fast"
    elif k == "zero_speed" and v0:
        v0["speed"] = 0
    elif k == "huge_numbers" and s0:
        s0["duration"] = 10 ** 15
        if v0:
            v0["max_distance"] = 10 ** 17
    elif k == "window_overlap" and s0:
        s0["start_time_window"] = [[rfc(T0), rfc(T0 + 3600)], [rfc(T0 + 1800), rfc(T0 + 7200)]]
    elif k == "start_level_gt_capacity" and v0:
        v0["capacity"] = 2
        v0["start_level"] = 5
    elif k == "mixing_bad" and s0:
        s0["mixing_items"] = {"m": {"name": 7, "quantity": 1.5}}
    elif k == "dur_group_unknown":
        m["duration_groups"] = [{"group": ["ghost"], "duration": 60}]
    elif k == "matrix_frames_overlap" and isinstance(m.get("duration_matrix"), dict):
        fr = m["duration_matrix"]["matrix_time_frames"]
        fr.append({"start_time": rfc(T0 + 2400), "end_time": rfc(T0 + 6000), "scaling_factor": 1.2})
    elif k == "max_stops_negative" and v0:
        v0["max_stops"] = -1
    elif k == "null_in_resource_map" and s0 and v0:
        # a JSON null where a number is expected inside a resource map
        which = rng.choice(["quantity", "capacity", "start_level"])
        if which == "quantity":
            s0["quantity"] = {"a": None} if rng.random() < 0.5 else {"a": 1, "b": None}
            v0.setdefault("capacity", {"a": 2, "b": 2})
        else:
            s0["quantity"] = {"a": -1}
            v0["capacity"] = {"a": None} if which == "capacity" else {"a": 2}
            if which == "start_level":
                v0["start_level"] = {"a": None}
    elif k == "empty_duration_groups":
        # more duration groups than the expression has room for, all of them empty / one of them empty
        m["duration_groups"] = [{"group": [], "duration": 5} for _ in range(rng.choice([1, 2, len(st) + 2 * len(ve) + 1, 40]))]
    elif k == "null_scalars" and s0 and v0:
        # nulls in places where the schema has pointers or plain values
        tgt, key = rng.choice([(s0, "duration"), (s0, "unplanned_penalty"), (s0, "max_wait"), (s0, "start_time_window"), (s0, "precedes"),
                               (s0, "compatibility_attributes"), (s0, "mixing_items"), (v0, "speed"), (v0, "capacity"), (v0, "max_stops"),
                               (v0, "start_time"), (v0, "initial_stops"), (v0, "alternate_stops"), (s0, "quantity")])
        tgt[key] = None
    elif k == "window_junk" and s0:
        w = [rfc(T0), rfc(T0 + 3600)]
        s0["start_time_window"] = rng.choice([[w, 5], [w, True], [5, w], [w, None], [[w], w], [w, "x"], [w, {}]])
    elif k == "time_before_epoch" and s0 and v0:
        old_t = "1969-12-31T23:00:00Z"
        which = rng.choice(["target", "start", "end", "start_maxdur"])
        if which == "target":
            s0["target_arrival_time"] = old_t
            s0["late_arrival_time_penalty"] = 1.0
            s0["early_arrival_time_penalty"] = 1.0
        elif which == "start":
            v0["start_time"] = "1960-01-01T00:00:00Z"
        elif which == "end":
            v0["end_time"] = old_t
        else:
            v0["start_time"] = "1960-01-01T00:00:00Z"
            v0["max_duration"] = 60
    elif k == "huge_max_duration" and v0:
        v0.setdefault("start_time", rfc(T0))
        v0["max_duration"] = rng.choice([1099511627776, 2 ** 62, 9223372036, 6307200001])
    elif k == "far_future_window" and s0:
        y = rng.choice(["2262-04-12", "2300-01-01", "9999-01-01"])
        s0["start_time_window"] = [y + "T00:00:00Z", y + "T01:00:00Z"]
    elif k == "huge_penalty" and s0 and v0:
        v0.setdefault("start_time", rfc(T0))
        v0["end_time"] = rfc(T0 + 8 * 3600)
        s0["target_arrival_time"] = rfc(T0)
        s0["late_arrival_time_penalty"] = rng.choice([1e308, 1e300])
    elif k in ("initial_foreign_alternate", "precedes_alternate", "stop_alt_same_id") and m.get("alternate_stops") is None and \
            (m.get("duration_matrix") is not None or m.get("distance_matrix") is not None):
        # these kinds add an alternate stop: the matrices of the input have no row for it - inputs stay well-dimensioned
        # (documented precondition), so the matrices go and the vehicles travel by speed
        m.pop("duration_matrix", None)
        m.pop("distance_matrix", None)
        for v in ve:
            v["speed"] = 10
        return mutate_kind(rng, m, k)
    elif k == "initial_foreign_alternate" and len(ve) >= 2 and st:
        m["alternate_stops"] = [{"id": "altx", "location": {"lon": 7.3, "lat": 51.3}}]
        ve[0]["alternate_stops"] = ["altx"]
        ve[1].pop("alternate_stops", None)
        ve[1]["initial_stops"] = [{"id": "altx", "fixed": True}]      # fixed: whatever takes its place stays visible in every solution
    elif k == "precedes_alternate" and len(st) >= 2:
        m.setdefault("alternate_stops", [{"id": "altx", "location": {"lon": 7.3, "lat": 51.3}}])
        ve[0]["alternate_stops"] = [m["alternate_stops"][0]["id"]]
        st[-1]["precedes" if rng.random() < 0.5 else "succeeds"] = m["alternate_stops"][0]["id"]
    elif k == "stop_alt_same_id" and st:
        m["alternate_stops"] = [{"id": st[0]["id"], "location": {"lon": 7.3, "lat": 51.3}}]
        ve[0]["alternate_stops"] = [st[0]["id"]]
    elif k == "negative_matrix_entry":
        # one negative entry in a duration matrix (plain, time-dependent default, a frame's own matrix, per-vehicle); inputs without a
        # matrix get a time-dependent one
        dm = m.get("duration_matrix")
        n_ = len(st) + len(m.get("alternate_stops", [])) + 2 * len(ve)
        if dm is None:
            dm = m["duration_matrix"] = {"default_matrix": [[0 if i == j else 60 for j in range(n_)] for i in range(n_)],
                                         "matrix_time_frames": [{"start_time": rfc(T0 + 1800), "end_time": rfc(T0 + 5400), "scaling_factor": 2.0}]}
        if isinstance(dm, dict):
            mats = [dm["default_matrix"]] + [fr["matrix"] for fr in dm.get("matrix_time_frames", []) if fr.get("matrix")]
        elif dm and isinstance(dm[0], dict):
            mats = [d_["default_matrix"] for d_ in dm]
        else:
            mats = [dm]
        mat = rng.choice(mats)
        if len(mat) >= 2:
            i, j = rng.sample(range(len(mat)), 2)
            mat[i][j] = -rng.choice([1, 50, 5000])
    elif k.startswith("matrix_vehicle_") and ve:
        # per-vehicle duration matrices whose vehicle ids do not cover the vehicles exactly
        dm = m.get("duration_matrix")
        if not (isinstance(dm, list) and dm and isinstance(dm[0], dict)):
            n_ = len(st) + len(m.get("alternate_stops", [])) + 2 * len(ve)
            one = dm if isinstance(dm, dict) else {"default_matrix": dm if isinstance(dm, list) and dm else
                                                   [[0 if i == j else 60 for j in range(n_)] for i in range(n_)]}
            dm = [dict(one, vehicle_ids=[v["id"] for v in ve])]
            m["duration_matrix"] = dm
        ids = dm[rng.randrange(len(dm))]["vehicle_ids"]
        if k == "matrix_vehicle_ghost" and ids:
            ids[rng.randrange(len(ids))] = "ghost"       # same number of ids, one real vehicle without a matrix
        elif k == "matrix_vehicle_missing" and ids:
            del ids[rng.randrange(len(ids))]
        else:
            ids.append(ve[0]["id"])
        if rng.random() < 0.7:
            for v in ve:
                v.pop("speed", None)                     # no fallback for the vehicle that lost its matrix
    return m, k


def case_lines(inp, opts, settings):
    return ["json " + json.dumps(inp, separators=(",", ":")), "gopt " + json.dumps(opts, separators=(",", ":")),
            "crash " + " ".join("%s=%d" % kv for kv in sorted(settings.items()))]
