"""Driving the real parallel solver (harness `solve`) on generated inputs."""
import os
import random
from fractions import Fraction as F

import common as C
import gen_engine as G


def make_solve_cases(seed, n, settings_fn, size="small", feats=None):
    rng = random.Random(seed)
    cases = []
    for i in range(n):
        m = G.gen_model(rng, size, feats)
        st = settings_fn(rng, m)
        cases.append({"id": str(i), "model": m, "settings": st})
    return cases


def settings_str(st):
    return "solve " + " ".join("%s=%d" % kv for kv in sorted(st.items()))


def run_solve(cases, tag, timeout=1800, race=False):
    cf = os.path.join(C.BUILD, "solve_%s.case" % tag)
    blocks = []
    for c in cases:
        inp_lines = G.case_lines(c["model"], [])
        # keep json/gopt/build lines only
        keep = [l for l in inp_lines if l.startswith(("json ", "gopt ", "build", "user "))]
        blocks.append((c["id"], keep + [settings_str(c["settings"])]))
    C.write_cases(cf, blocks)
    binary = C.HARNESS_RACE if race else C.HARNESS
    env = dict(C.GOENV)
    if race:
        env["GORACE"] = "halt_on_error=0 log_path=%s" % os.path.join(C.BUILD, "race_%s" % tag)
    rc, out, err = C.run([binary, "solve", cf], timeout=timeout, env=env)
    runs = {}
    for line in out.splitlines():
        fs = line.split()
        if len(fs) < 3:
            continue
        key = (fs[0], fs[1])
        r = runs.setdefault(key, {"scores": [], "done": None, "flags": [], "snap": []})
        if fs[2] == "sol":
            r["scores"].append(F(fs[5]))
        elif fs[2] == "done":
            r["done"] = dict(zip(fs[3::2], map(int, fs[4::2])))
        elif fs[2] in ("PANIC", "HANG", "solerror", "build", "solver", "solve"):
            r["flags"].append(" ".join(fs[2:])[:300])
        else:
            r["snap"].append(" ".join(fs[2:]))
    return runs, rc, err
