"""Driving the real parallel solver (harness `solve`) on generated inputs."""
import os
import random
from fractions import Fraction as F

import common as C
import gen_engine as G


def make_solve_cases(seed, n, settings_fn, size="small", feats=None):
    rng = random.Random(seed)
    cases = []
    for i in range(n):
        m = G.gen_model(rng, size, feats)
        st = settings_fn(rng, m)
        cases.append({"id": str(i), "model": m, "settings": st})
    return cases


def settings_str(st):
    return "solve " + " ".join("%s=%d" % kv for kv in sorted(st.items()))


def run_solve(cases, tag, timeout=1800, race=False):
    cf = os.path.join(C.BUILD, "solve_%s.case" % tag)
    blocks = []
    for c in cases:
        inp_lines = G.case_lines(c["model"], [])
        # keep json/gopt/build lines only
        keep = [l for l in inp_lines if l.startswith(("json ", "gopt ", "build", "user "))]
        blocks.append((c["id"], keep + [settings_str(c["settings"])]))
    C.write_cases(cf, blocks)
    binary = C.HARNESS_RACE if race else C.HARNESS
    env = dict(C.GOENV)
    if race:
        env["GORACE"] = "halt_on_error=0 log_path=%s" % os.path.join(C.BUILD, "race_%s" % tag)
    rc, out, err = C.run([binary, "solve", cf], timeout=timeout, env=env)
    return parse_solve_output(out), rc, err


def run_solve_raw(blocks, tag, timeout=1800):
    """blocks: [(id, [json line, gopt line, build line, solve line])] - inputs written by hand rather than generated models"""
    cf = os.path.join(C.BUILD, "solve_%s.case" % tag)
    C.write_cases(cf, blocks)
    rc, out, err = C.run([C.HARNESS, "solve", cf], timeout=timeout, env=dict(C.GOENV))
    return parse_solve_output(out), rc, err


def parse_solve_output(out):
    runs = {}
    for line in out.splitlines():
        fs = line.split()
        if len(fs) < 3:
            continue
        key = (fs[0], fs[1])
        r = runs.setdefault(key, {"scores": [], "done": None, "flags": [], "snap": []})
        if fs[2] == "sol":
            try:
                r["scores"].append(F(fs[5]))
            except (ValueError, ZeroDivisionError):
                r["scores"].append(None)          # a score that is not a finite number
                r["flags"].append("score not a finite number: %s" % fs[5])
        elif fs[2] == "done":
            r["done"] = dict(zip(fs[3::2], map(int, fs[4::2])))
        elif fs[2] in ("PANIC", "HANG", "solerror", "build", "solver", "solve"):
            r["flags"].append(" ".join(fs[2:])[:300])
        else:
            r["snap"].append(" ".join(fs[2:]))
    return runs


DEFAULT_GOPT = {
    "constraints": {"disable": {"attributes": False, "capacity": False, "capacities": [], "distance_limit": False, "groups": False,
                                "maximum_duration": False, "maximum_stops": False, "maximum_wait_stop": False, "maximum_wait_vehicle": False,
                                "mixing_items": False, "precedence": False, "vehicle_start_time": False, "vehicle_end_time": False,
                                "start_time_windows": False}, "enable": {"cluster": False}},
    "objectives": {"capacities": "", "min_stops": 1.0, "early_arrival_penalty": 1.0, "late_arrival_penalty": 1.0,
                   "vehicle_activation_penalty": 1.0, "travel_duration": 0.0, "vehicles_duration": 1.0, "unplanned_penalty": 1.0,
                   "cluster": 0.0, "stop_balance": 0.0},
    "properties": {"disable": {"durations": False, "stop_duration_multipliers": False, "duration_groups": False, "initial_solution": False}},
    "validate": {"disable": {"start_time": False, "resources": True}, "enable": {"matrix": False, "matrix_asymmetry_tolerance": 20}},
}


def raw_block(cid, inp, settings, gopt=None):
    import json
    return (cid, ["json " + json.dumps(inp, separators=(",", ":")), "gopt " + json.dumps(gopt or DEFAULT_GOPT, separators=(",", ":")),
                  "build", settings_str(settings)])
