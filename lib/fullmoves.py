"""C09 on full-feature inputs (lib/gen_full.py): harness `fullmoves` performs random best-move queries, per-vehicle
best-move queries, explicit moves (NewMoveStops at random positions in an order the sequence generator allows) and
un-plans on models built by factory.NewModel; judged on the implementation's lines alone: a move reported
executable must execute, nothing may end in an error or panic."""
import os
import random

import common as C
import gen_full as GF

FOCUS = [None, {"td": True, "windows": True}, {"dur_groups": True, "windows": True, "limits": True, "multipliers": True},
         {"mixing": True, "precedence": True}, {"alternates": True, "groups": True, "windows": True}, {"capacity": True, "limits": True, "attrs": True}]


def run_blocks(blocks, tag, timeout=1800):
    cf = os.path.join(C.BUILD, "fullmoves_%s.case" % tag)
    C.write_cases(cf, blocks)
    rc, out, err = C.run([C.HARNESS, "fullmoves", cf], timeout=timeout, env=C.GOENV)
    os.remove(cf)
    return rc, C.group_lines(out), err


def judge(lines):
    """returns (counts, list of (what, line))"""
    cnt, bad = {}, []
    for l in lines:
        f = l.split()
        if f and f[0] == "panic":
            bad.append(("panic", l[:300]))
        elif len(f) >= 2 and f[1] in ("best", "vbest", "explicit") and "executable" in f:
            k = f.index("executable")
            ex, res = f[k + 1], f[k + 3]
            key = "%s %s %s" % (f[1], f[2].split("[")[0], "executable" if ex == "true" else "not executable")
            cnt[key] = cnt.get(key, 0) + 1
            if res == "error":
                bad.append(("error", l[:300]))
            elif ex == "true" and res != "done":
                bad.append(("executable_not_done", l[:300]))
        elif len(f) >= 2 and f[1] == "unplan":
            cnt["unplan"] = cnt.get("unplan", 0) + 1
            if "error" in f:
                bad.append(("error", l[:300]))
    return cnt, bad


def stage(chk, seed, n):
    rng = random.Random(seed)
    blocks, meta = [], {}
    for i in range(n):
        force = FOCUS[i % len(FOCUS)]
        inp, opts, feats = GF.gen_full(rng, "small" if i % 3 else "medium", force=force)
        mv = "moves steps=%d seed=%d" % (40, rng.randint(1, 10 ** 6))
        blocks.append((str(i), GF.case_lines(inp, opts, {"iterations": 1})[:2] + [mv]))
        meta[str(i)] = (inp, opts, mv)
    rc, g, err = run_blocks(blocks, "%s_%s" % (chk.pid.lower(), chk.tier))
    chk.ob("full-feature moves: harness exits normally", rc == 0, err[-300:])
    total, built, nbad = {}, 0, 0
    for cid, (inp, opts, mv) in meta.items():
        lines = g.get(cid, [])
        if lines and lines[0] == "build ok":
            built += 1
        cnt, bad = judge(lines)
        for k, v in cnt.items():
            total[k] = total.get(k, 0) + v
        for what, line in bad[:1]:
            nbad += 1
            chk.violation({"kind": "fullmoves", "what": "full-feature model: %s: %s" % (what, line), "input": inp, "options": opts, "moves": mv,
                           "symptom": what})
    nexec = sum(v for k, v in total.items() if k.endswith(" executable"))
    chk.ob("full-feature models (%d of %d built): every move reported executable executes (%d executable best / per-vehicle best / explicit moves), "
           "no error or panic" % (built, n, nexec), nbad == 0)
    chk.ev.cov["fullmoves"] = {"inputs": n, "built": built, "counts": total}
