"""Shared machinery of /verif/bin/check: builds, proof-obligation status,
evidence, replays, violations, known findings."""
import fcntl
import hashlib
import json
import os
import re
import subprocess
import sys
import time

VERIF = os.path.dirname(os.path.dirname(os.path.abspath(__file__)))
REPO = os.environ.get("VERIF_REPO", "/repo")
COQ = os.path.join(VERIF, "coq")
BUILD = os.path.join(VERIF, "_build")
EVID = os.path.join(VERIF, "evidence")
REPLAYS = os.path.join(VERIF, "replays")
CORPUS = os.path.join(VERIF, "corpus")
HARNESS = os.path.join(BUILD, "nrharness")
HARNESS_RACE = os.path.join(BUILD, "nrharness_race")
MODEL = os.path.join(BUILD, "nrmodel")

GOENV = dict(os.environ)
GOENV.update({
    "GOFLAGS": "-mod=mod", "GOPROXY": "off", "GOSUMDB": "off",
    "GOTOOLCHAIN": "local", "CGO_ENABLED": os.environ.get("CGO_ENABLED", "0"),
})

TRUSTED_BASE = [
    "Coq 8.16.1 kernel (coqc; vm_compute used for witnesses and regenerated-skeleton obligations; native_compute not used)",
    "axioms: none declared; per-theorem Print Assumptions output recorded under coverage.assumptions_reported",
    "extraction: ExtrOcamlBasic only (Extract Inductive bool/option/unit/list/prod/sumbool/sumor as declared there), no Extract Constant; OCaml 4.13.1; OCaml glue ocaml/{conv,cmds,driver,engine_run,sloop_run}.ml: case parser, printers, resolution of relative operations to concrete moves, derived observables (slack), canonical schedule of the parallel LTS",
    "Go harness /verif/harness built with -tags verif against /repo working tree; Python generators, differ and projection in /verif/lib",
    "translator /verif/translator (go/ast) for regenerated skeleton/table obligations",
]


def log(*a):
    print(*a, file=sys.stderr, flush=True)


def run(cmd, timeout=600, cwd=None, env=None, stdin=None):
    """Run a command; returns (rc, stdout, stderr). rc=124 on timeout."""
    try:
        p = subprocess.run(cmd, cwd=cwd, env=env, input=stdin, timeout=timeout,
                           stdout=subprocess.PIPE, stderr=subprocess.PIPE,
                           text=True, shell=isinstance(cmd, str))
        return p.returncode, p.stdout, p.stderr
    except subprocess.TimeoutExpired as e:
        so = e.stdout.decode() if isinstance(e.stdout, bytes) else (e.stdout or "")
        se = e.stderr.decode() if isinstance(e.stderr, bytes) else (e.stderr or "")
        return 124, so, se + "\nTIMEOUT"


class Lock:
    def __init__(self, name="lock"):
        os.makedirs(BUILD, exist_ok=True)
        self.path = os.path.join(BUILD, name)

    def __enter__(self):
        self.f = open(self.path, "w")
        fcntl.flock(self.f, fcntl.LOCK_EX)
        return self

    def __exit__(self, *a):
        fcntl.flock(self.f, fcntl.LOCK_UN)
        self.f.close()


def tree_hash(paths, exts):
    h = hashlib.sha256()
    for root in paths:
        if os.path.isfile(root):
            with open(root, "rb") as f:
                h.update(root.encode()); h.update(f.read())
            continue
        for d, dirs, files in sorted(os.walk(root)):
            dirs.sort()
            if "/." in d or "_build" in d:
                continue
            for fn in sorted(files):
                if fn.endswith(exts):
                    p = os.path.join(d, fn)
                    h.update(p.encode())
                    with open(p, "rb") as f:
                        h.update(f.read())
    return h.hexdigest()


def _stamp(name):
    p = os.path.join(BUILD, name + ".stamp")
    return open(p).read().strip() if os.path.exists(p) else ""


def _set_stamp(name, v):
    with open(os.path.join(BUILD, name + ".stamp"), "w") as f:
        f.write(v)


HYGIENE_RE = re.compile(
    r"\b(Admitted|admit|Axiom|Axioms|Parameter|Parameters|Conjecture|Conjectures|Abort All|"
    r"Unset\s+Guard|Unset\s+Positivity|Unset\s+Universe|bypass_check|Admit\s+Obligations|"
    r"native_compute|type-in-type|impredicative-set)\b")


def strip_coq_comments(src):
    out, depth, i = [], 0, 0
    while i < len(src):
        if src.startswith("(*", i):
            depth += 1; i += 2
        elif src.startswith("*)", i) and depth > 0:
            depth -= 1; i += 2
        else:
            if depth == 0:
                out.append(src[i])
            i += 1
    return "".join(out)


def hygiene():
    """Scan the hand-written development for forbidden vernacular (outside comments)."""
    bad = []
    for d, _, files in os.walk(COQ):
        for fn in files:
            if fn.endswith(".v") or fn == "_CoqProject":
                p = os.path.join(d, fn)
                src = strip_coq_comments(open(p).read())
                for n, line in enumerate(src.splitlines(), 1):
                    # Variable/Hypothesis are only allowed inside sections; we use Context/Variable
                    # inside Section blocks only — checked by Print Assumptions as well.
                    if HYGIENE_RE.search(line):
                        bad.append("%s:%d: %s" % (os.path.relpath(p, VERIF), n, line.strip()))
    return bad


def build_coq(timeout=3000):
    """Full .vo build of the hand-written development (make -k, all cores)."""
    with Lock("coq.lock"):
        hv = tree_hash([COQ], (".v", "_CoqProject"))
        if _stamp("coq") == hv and os.path.exists(os.path.join(BUILD, "coq.ok")):
            return True, "cached"
        t0 = time.time()
        okf = os.path.join(BUILD, "coq.ok")
        if os.path.exists(okf):
            os.remove(okf)
        rc, so, se = run("coq_makefile -f _CoqProject -o Makefile > /dev/null && timeout %d make -k -j16 2>&1" % timeout,
                         cwd=COQ, timeout=timeout + 30)
        with open(os.path.join(BUILD, "coq.log"), "w") as f:
            f.write(so + se)
        ok = rc == 0
        if ok:
            open(okf, "w").write("ok")
            _set_stamp("coq", hv)
        log("[build] coq make rc=%d in %.1fs" % (rc, time.time() - t0))
        return ok, so[-4000:] + se[-2000:]


def build_model(timeout=900):
    """Extraction + OCaml driver."""
    with Lock("ml.lock"):
        hv = tree_hash([COQ, os.path.join(VERIF, "ocaml")], (".v", ".ml", "_CoqProject"))
        if _stamp("ml") == hv and os.path.exists(MODEL):
            return True, "cached"
        ex = os.path.join(BUILD, "extract")
        os.makedirs(ex, exist_ok=True)
        for fn in os.listdir(ex):
            os.remove(os.path.join(ex, fn))
        t0 = time.time()
        rc, so, se = run("coqc -Q %s NR %s/Extract/Extract.v" % (COQ, COQ), cwd=ex, timeout=timeout)
        if rc != 0:
            return False, so + se
        mls = sorted(f for f in os.listdir(os.path.join(VERIF, "ocaml")) if f.endswith(".ml"))
        for f in mls:
            with open(os.path.join(VERIF, "ocaml", f)) as src, open(os.path.join(ex, f), "w") as dst:
                dst.write(src.read())
        order = ["conv.ml", "cmds.ml"] + [f for f in mls if f not in ("conv.ml", "cmds.ml", "driver.ml")] + ["driver.ml"]
        rc, so, se = run(["ocamlfind", "ocamlopt", "-w", "-a", "model.mli", "model.ml"] + order + ["-o", MODEL],
                         cwd=ex, timeout=timeout)
        if rc != 0:
            return False, so + se
        _set_stamp("ml", hv)
        log("[build] extraction+ocaml in %.1fs" % (time.time() - t0))
        return True, ""


def build_harness(race=False, timeout=900):
    """Go harness against /repo's working tree, hooks enabled (-tags verif)."""
    with Lock("go.lock"):
        hdir = os.path.join(VERIF, "harness")
        t0 = time.time()
        with open(os.path.join(REPO, "go.sum")) as src, open(os.path.join(hdir, "go.sum"), "w") as dst:
            dst.write(src.read())
        env = dict(GOENV)
        target = HARNESS_RACE if race else HARNESS
        cmd = ["go", "build", "-tags", "verif", "-o", target]
        if race:
            env["CGO_ENABLED"] = "1"
            cmd.insert(2, "-race")
        rc, so, se = run(cmd + ["."], cwd=hdir, env=env, timeout=timeout)
        log("[build] go harness%s rc=%d in %.1fs" % (" (race)" if race else "", rc, time.time() - t0))
        return rc == 0, so + se


def build_skeletons(timeout=600):
    """Translator: /repo working tree -> coq/Gen/Skeleton_*.v, compiled.  Returns (ok, log)."""
    with Lock("skel.lock"):
        tdir = os.path.join(VERIF, "translator")
        tbin = os.path.join(BUILD, "translator")
        rc, so, se = run(["go", "build", "-o", tbin, "."], cwd=tdir, env=GOENV, timeout=timeout)
        if rc != 0:
            return False, "translator build failed: " + so + se
        gen = os.path.join(COQ, "Gen")
        os.makedirs(gen, exist_ok=True)
        for d in (gen, os.path.join(COQ, "Oblig")):
            for fn in os.listdir(d):
                if fn.endswith((".vo", ".vok", ".vos", ".glob")) or (d == gen and fn.endswith(".v")):
                    os.remove(os.path.join(d, fn))
        rc, so, se = run([tbin, REPO, gen], timeout=timeout)
        log_ = so + se
        if rc != 0:
            return False, "translator failed: " + log_
        for fn in sorted(os.listdir(gen)):
            if fn.endswith(".v"):
                rc, so, se = run("coqc -Q . NR Gen/%s" % fn, cwd=COQ, timeout=timeout)
                if rc != 0:
                    return False, "Gen/%s does not compile: %s" % (fn, (so + se)[-1500:])
        return True, log_


def run_oblig(name, timeout=600):
    """Compile coq/Oblig/<name>.v against the freshly generated skeletons.
    Returns dict(ok, lemmas, failed_lemma, log, evals)."""
    src = os.path.join(COQ, "Oblig", name + ".v")
    text = strip_coq_comments(open(src).read())
    lemmas = re.findall(r"\bLemma\s+([A-Za-z0-9_']+)", text)
    with Lock("skel.lock"):
        rc, so, se = run("coqc -Q . NR Oblig/%s.v" % name, cwd=COQ, timeout=timeout)
    failed = None
    if rc != 0:
        m = re.search(r"line (\d+), characters", se + so)
        if m:
            ln = int(m.group(1))
            upto = "\n".join(open(src).read().splitlines()[:ln])
            prev = re.findall(r"\bLemma\s+([A-Za-z0-9_']+)", strip_coq_comments(upto))
            failed = prev[-1] if prev else None
    evals = {}
    flat = " ".join(so.split())
    for m in re.finditer(r'= \("(\w+)", (.*?)\) : ', flat):
        evals[m.group(1)] = m.group(2)
    return dict(ok=(rc == 0), lemmas=lemmas, failed_lemma=failed, log=(so + se)[-2500:], evals=evals)


def prop_obligations(pid):
    """Compile coq/Props/<pid>.v on its own and collect theorem names and
    Print Assumptions output.  Returns dict(ok, theorems, assumptions, log)."""
    src = os.path.join(COQ, "Props", pid + ".v")
    if not os.path.exists(src):
        return dict(ok=False, theorems=[], assumptions={}, log="missing " + src)
    text = strip_coq_comments(open(src).read())
    theorems = re.findall(r"\b(?:Theorem|Corollary|Lemma|Example)\s+([A-Za-z0-9_']+)", text)
    with Lock("coq.lock"):
        rc, so, se = run("coqc -Q . NR Props/%s.v" % pid, cwd=COQ, timeout=900)
    assumptions = {}
    # output of Print Assumptions: either "Closed under the global context" or "Axioms:\n name : type..."
    chunks = re.split(r"(?=Closed under the global context|Axioms:)", so)
    closed = so.count("Closed under the global context")
    axioms = re.findall(r"Axioms:\n((?:.+\n?)+?)(?=\n\S|\Z)", so)
    return dict(ok=(rc == 0), theorems=theorems, closed=closed,
                axioms=[a.strip() for a in axioms], log=(so + se)[-3000:])


class Evidence:
    def __init__(self, pid, tier, seed, level="proof"):
        self.t0 = time.time()
        self.d = {
            "property_id": pid, "tier": tier, "seed": seed, "level": level,
            "coverage": {
                "obligations": 0, "discharged": 0,
                "checker_cmd": "cd /verif/coq && coq_makefile -f _CoqProject -o Makefile && make -j16  (full .vo build) ; coqc -Q . NR Props/%s.v" % pid,
                "trusted_base": list(TRUSTED_BASE),
                "evaluations": 0, "distinct_nontrivial": 0, "rule": "", "samples": [],
                "obligation_list": [],
            },
            "assumptions": [], "wall_s": 0.0, "violations": 0,
        }
        self.pid = pid

    @property
    def cov(self):
        return self.d["coverage"]

    def obligation(self, name, ok, detail=""):
        self.cov["obligations"] += 1
        if ok:
            self.cov["discharged"] += 1
        self.cov["obligation_list"].append({"name": name, "discharged": bool(ok), "detail": detail})

    def assume(self, text):
        self.d["assumptions"].append(text)

    def write(self):
        self.d["wall_s"] = round(time.time() - self.t0, 2)
        os.makedirs(EVID, exist_ok=True)
        with open(os.path.join(EVID, self.pid + ".json"), "w") as f:
            json.dump(self.d, f, indent=1, sort_keys=True, default=str)


def write_replay(pid, obj):
    os.makedirs(REPLAYS, exist_ok=True)
    blob = json.dumps(obj, sort_keys=True, indent=1, default=str)
    h = hashlib.sha256(blob.encode()).hexdigest()[:12]
    path = os.path.join(REPLAYS, "%s-%s.json" % (pid, h))
    with open(path, "w") as f:
        f.write(blob)
    return path


def report_violation(pid, replay_obj, found_input=True):
    path = write_replay(pid, replay_obj)
    line = "VIOLATION property=%s replay=%s" % (pid, path)
    if not found_input:
        line += " no-failing-input-found"
    print(line, flush=True)
    return path


def known_findings(pid):
    p = os.path.join(VERIF, "known_findings.json")
    if not os.path.exists(p):
        return []
    data = json.load(open(p))
    return [f for f in data.get("findings", []) if pid in f.get("properties", [f.get("property")])]


def write_cases(path, cases):
    """cases: list of (id, [lines])."""
    with open(path, "w") as f:
        for cid, lines in cases:
            f.write("case %s\n" % cid)
            for l in lines:
                f.write(l + "\n")
            f.write("end\n")


def run_both(cmd, casefile, timeout=1200, extra=()):
    """Run implementation harness and extracted model on the same case file."""
    rc1, go_out, go_err = run([HARNESS, cmd, casefile] + list(extra), timeout=timeout, env=GOENV)
    rc2, ml_out, ml_err = run([MODEL, cmd, casefile] + list(extra), timeout=timeout)
    return (rc1, go_out, go_err), (rc2, ml_out, ml_err)


def group_lines(text):
    """'<case> rest...' lines -> dict case -> list of rest strings (order kept)."""
    d = {}
    for line in text.splitlines():
        if not line.strip():
            continue
        cid, _, rest = line.partition(" ")
        d.setdefault(cid, []).append(rest)
    return d
