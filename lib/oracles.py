"""Independent re-evaluation of the properties from the INPUT alone, applied to
snapshots printed by the implementation (harness `engine` / `solve snap=1`).
This is the search tool that turns a broken proof or correspondence into a
concrete failing input; it is a third implementation, written against the
property text, not against the Go code or the Coq model."""
from fractions import Fraction as F


def parse_steps(lines):
    """lines of one case (without the case id) -> list of step dicts in order"""
    steps = []
    cur = None
    for l in lines:
        f = l.split()
        if not f or not f[0].lstrip("-").isdigit():
            continue
        k = int(f[0])
        if cur is None or cur["step"] != k:
            cur = {"step": k, "result": None, "routes": {}, "cells": {}, "planned": None, "unplanned": None,
                   "fixed": None, "score": None, "terms": {}, "raw": []}
            steps.append(cur)
        kind = f[1]
        if kind == "result":
            cur["result"] = f[2]
            continue
        if kind in ("target", "move", "est", "gens", "fmt", "Q"):
            continue
        cur["raw"].append(" ".join(f[1:]))
        if kind == "route":
            cur["routes"][int(f[2])] = [int(x) for x in f[4:]]
        elif kind == "cell":
            d = {"stop": int(f[4])}
            i = 5
            while i < len(f) - 1:
                d[f[i]] = f[i + 1]
                i += 2
            cur["cells"].setdefault(int(f[2]), []).append(d)
        elif kind in ("planned", "unplanned", "fixed"):
            cur[kind] = [int(x) for x in f[2:]]
        elif kind == "score":
            cur["score"] = F(f[2])
            for t in f[4:]:
                n, _, v = t.partition("=")
                cur["terms"][n] = F(v)
    return steps


def windows_start(ws, arrival):
    """earliest service start for arrival under sorted disjoint windows; None if after the last close"""
    for a, b in ws:
        if arrival < a:
            return a
        if a <= arrival < b:
            return arrival
    return arrival  # at/after the last close: no waiting possible


class Ctx:
    def __init__(self, m):
        self.m = m
        self.n = len(m["stops"])
        self.o = m["opts"]

    def veh_of(self, s):
        return (s - self.n) // 2

    def valid(self, s):
        if s < self.n:
            return True
        ve = self.m["vehicles"][self.veh_of(s)]
        return ve["has_start"] if (s - self.n) % 2 == 0 else ve["has_end"]

    def travel(self, a, b):
        return self.m["dur"][a][b] if self.valid(a) and self.valid(b) else 0

    def duration(self, s, prev=None, v=None):
        """time spent at stop s when vehicle v comes from prev: own duration plus the duration of its duration
        group unless prev is in the same group, each scaled by the vehicle's multiplier and truncated"""
        num, den = (1, 1)
        if v is not None and not self.o.get("dis_multipliers"):
            num, den = self.m["vehicles"][v].get("mult", (1, 1))
        d = 0 if (self.o["dis_durations"] or s >= self.n) else (self.m["stops"][s]["duration"] * num) // den
        if not self.o.get("dis_dgroups"):
            gs = self.m.get("dgroups") or []
            gof = lambda x: next((k for k, (g, _) in enumerate(gs) if x in g), None)  # noqa: E731
            g = gof(s)
            if g is not None and gof(prev) != g:
                d += (gs[g][1] * num) // den
        return d

    def windows(self, s):
        if self.o["dis_windows"] or s >= self.n:
            return []
        return sorted(self.m["stops"][s]["windows"])

    def start_time(self, v):
        ve = self.m["vehicles"][v]
        if self.o["dis_start_time"] or ve["start_time"] is None:
            return 0
        return ve["start_time"]

    def schedule(self, v, route):
        """[(travel, cumtravel, arrival, start, end)] per position"""
        t0 = self.start_time(v)
        out = [(0, 0, t0, t0, t0)]
        cum = 0
        for a, b in zip(route, route[1:]):
            tr = self.travel(a, b)
            arr = out[-1][4] + tr
            st = max(arr, windows_start(self.windows(b), arr))
            cum += tr
            out.append((tr, cum, arr, st, st + self.duration(b, a, v)))
        return out


def ok_routes_basic(ctx, snap):
    """every route starts/ends with its vehicle's own first/last stop; no stop twice"""
    fails = []
    seen = {}
    nv = len(ctx.m["vehicles"])
    for v in range(nv):
        r = snap["routes"].get(v)
        if r is None or len(r) < 2 or r[0] != ctx.n + 2 * v or r[-1] != ctx.n + 2 * v + 1:
            fails.append("route %d malformed: %s" % (v, r))
            continue
        for s in r[1:-1]:
            if s in seen:
                fails.append("stop s%d planned twice (vehicles %d and %d)" % (s, seen[s], v))
            if s >= ctx.n:
                fails.append("vehicle end stop %d inside route %d" % (s, v))
            seen[s] = v
    return fails, seen


def ok_C01(ctx, snap, estimate_only=True):
    m, o = ctx.m, ctx.o
    fails = []
    for v, r in snap["routes"].items():
        ve = m["vehicles"][v]
        inner = r[1:-1]
        if m["nres"] and not o["dis_capacity"]:
            for k in range(m["nres"]):
                cap = ve["capacity"][k] if ve["capacity"] is not None else 0
                lvl = ve["start_level"][k] if (ve["capacity"] is not None and ve["start_level"]) else 0
                for s in inner:
                    lvl -= m["stops"][s]["quantity"][k]
                    if lvl < 0 or lvl > cap:
                        fails.append("vehicle v%d resource %d level %d outside [0,%d] after s%d" % (v, k, lvl, cap, s))
                        break
        if ve["max_distance"] is not None and not o["dis_distance"]:
            d = sum(m["dist"][a][b] for a, b in zip(r, r[1:]))
            if d > ve["max_distance"]:
                fails.append("vehicle v%d travels %d > max_distance %d" % (v, d, ve["max_distance"]))
        if estimate_only:
            if ve["max_stops"] is not None and not o["dis_max_stops"] and len(inner) > ve["max_stops"]:
                fails.append("vehicle v%d has %d stops > max_stops %d" % (v, len(inner), ve["max_stops"]))
            if not o["dis_attributes"]:
                for s in inner:
                    at = m["stops"][s]["attrs"]
                    if at and not set(at) & set(ve["attrs"]):
                        fails.append("stop s%d attributes %s not offered by vehicle v%d %s" % (s, at, v, ve["attrs"]))
    return fails


def ok_C02(ctx, snap):
    m, o = ctx.m, ctx.o
    fails = []
    for v, r in snap["routes"].items():
        ve = m["vehicles"][v]
        sch = ctx.schedule(v, r)
        wait_total = 0
        for pos, s in enumerate(r):
            if pos == 0:
                continue
            tr, cum, arr, st, en = sch[pos]
            ws = ctx.windows(s)
            if ws and not any(a <= st <= b for a, b in ws):
                fails.append("stop s%d on v%d starts at %d outside its windows %s" % (s, v, st, ws))
            if s < ctx.n:
                mw = m["stops"][s]["max_wait"]
                if mw is not None and not o["dis_max_wait_stop"] and st - arr > mw:
                    fails.append("stop s%d waits %d > max_wait %d" % (s, st - arr, mw))
                wait_total += st - arr
        if ve["max_wait"] is not None and not o["dis_max_wait_vehicle"] and wait_total > ve["max_wait"]:
            fails.append("vehicle v%d accumulates %d waiting > max_wait %d" % (v, wait_total, ve["max_wait"]))
        end = sch[-1][4]
        if ve["end_time"] is not None and not o["dis_end_time"] and end > ve["end_time"]:
            fails.append("vehicle v%d ends at %d after end_time %d" % (v, end, ve["end_time"]))
        if ve["max_duration"] is not None and not o["dis_max_duration"] and end - sch[0][3] > ve["max_duration"]:
            fails.append("vehicle v%d duration %d > max_duration %d" % (v, end - sch[0][3], ve["max_duration"]))
    return fails


def ok_C04(ctx, snap):
    fails = []
    for v, r in snap["routes"].items():
        sch = ctx.schedule(v, r)
        cells = snap["cells"].get(v, [])
        if len(cells) != len(r):
            fails.append("vehicle v%d: %d cells for %d stops" % (v, len(cells), len(r)))
            continue
        for pos, (c, (tr, cum, arr, st, en)) in enumerate(zip(cells, sch)):
            got = (F(c["tr"]), F(c["ct"]), F(c["a"]), F(c["s"]), F(c["e"]))
            if got != (tr, cum, arr, st, en):
                fails.append("v%d pos %d stop %d: reported (travel,cum,arr,start,end)=%s, from input %s" %
                             (v, pos, r[pos], tuple(map(str, got)), (tr, cum, arr, st, en)))
                break
            if int(c["P"]) != pos:
                fails.append("v%d stop %d reports position %s, is at %d" % (v, r[pos], c["P"], pos))
    return fails


def unit_of(m, s):
    for k, u in enumerate(m["units"]):
        if s in u["stops"]:
            return k
    return None


def ok_C05(ctx, snap):
    m, o = ctx.m, ctx.o
    fails = []
    total = sum(snap["terms"].values(), F(0))
    if snap["score"] != total:
        fails.append("total %s != sum of terms %s" % (snap["score"], total))
    on_route = {s for r in snap["routes"].values() for s in r[1:-1]}
    exp = {}
    if o["f_vehicles_duration"] > 0:
        val = 0
        for v, r in snap["routes"].items():
            sch = ctx.schedule(v, r)
            val += sch[-1][4] - sch[0][3]
        exp["vehicles_duration"] = o["f_vehicles_duration"] * val
    if o["f_travel"] > 0:
        exp["travel_duration"] = o["f_travel"] * sum(ctx.schedule(v, r)[-1][1] for v, r in snap["routes"].items())
    if o["f_unplanned"] > 0:
        val = 0
        for k, stops_ in top_units(m).items():
            # a top-level unit is unplanned unless all its stops are on routes
            if not all(s in on_route for s in stops_):
                val += sum(1000000 if m["stops"][s]["penalty"] is None else m["stops"][s]["penalty"] for s in stops_)
        exp["unplanned_penalty"] = o["f_unplanned"] * val
    if o["f_activation"] > 0 and any((ve["activation"] or 0) != 0 for ve in m["vehicles"]):
        exp["vehicle_activation_penalty"] = o["f_activation"] * sum(
            (m["vehicles"][v]["activation"] or 0) for v, r in snap["routes"].items() if len(r) > 2)
    # early / late arrival, min stops, stop balance (installed by the factory under the conditions noted)
    n_in = len(m["stops"])
    tgt = lambda x: m["stops"][x].get("target") if x < n_in else None  # noqa: E731
    if o.get("f_early", 0) > 0 and any(st_.get("target") is not None and st_.get("early_pen", 0) != 0 for st_ in m["stops"]):
        val = 0
        for v, r in snap["routes"].items():
            sch = ctx.schedule(v, r)
            for pos, x in list(enumerate(r))[1:-1]:
                if tgt(x) is not None:
                    val += m["stops"][x]["early_pen"] * max(0, tgt(x) - sch[pos][2])
        exp["early_arrival_penalty"] = o["f_early"] * val
    if o.get("f_late", 0) > 0 and any(st_.get("target") is not None and st_.get("late_pen", 0) != 0 for st_ in m["stops"]):
        val = 0
        for v, r in snap["routes"].items():
            sch = ctx.schedule(v, r)
            for pos, x in list(enumerate(r))[1:]:
                if tgt(x) is not None:
                    val += m["stops"][x]["late_pen"] * max(0, sch[pos][2] - tgt(x))
        exp["late_arrival_penalty"] = o["f_late"] * val
    if o.get("f_min_stops", 0) > 0 and any(ve.get("min_stops", 0) != 0 and ve.get("min_stops_pen", 0) != 0 for ve in m["vehicles"]):
        val = 0
        for v, r in snap["routes"].items():
            ve, k = m["vehicles"][v], len(r) - 2
            if k > 0 and ve.get("min_stops", 0) and ve.get("min_stops_pen", 0) and k < ve["min_stops"]:
                val += ve["min_stops_pen"] * (ve["min_stops"] - k) ** 2
        exp["min_stops"] = o["f_min_stops"] * val
    if o.get("f_stop_balance", 0) > 0:
        exp["stop_balance"] = o["f_stop_balance"] * max([len(r) - 2 for r in snap["routes"].values()] + [0])
    # capacity excess as an objective (the constraint switched off): excess at every stop of every route - vehicle start and end
    # included - when something is ever dropped off, else at the end of the route; the offset once when there is any excess
    if o.get("dis_capacity"):
        import gen_engine as _G
        names = _G.res_names(m)
        for r, f, off in o.get("cap_obj", []):
            if f <= 0:
                continue
            drops = any(st_["quantity"][r] > 0 for st_ in m["stops"] if len(st_["quantity"]) > r)
            tot = 0
            for v, rt in snap["routes"].items():
                ve = m["vehicles"][v]
                cap = ve["capacity"][r] if ve["capacity"] is not None else 0
                lvl = (ve["start_level"][r] if ve["capacity"] is not None and len(ve["start_level"]) > r else 0)
                levels = [lvl]
                for x in rt[1:]:
                    if x < n_in and len(m["stops"][x]["quantity"]) > r:
                        lvl -= m["stops"][x]["quantity"][r]
                    levels.append(lvl)
                tot += sum(max(0, l_ - cap) for l_ in levels) if drops else max(0, levels[-1] - cap)
            if tot > 0:
                tot += off
            exp["capacity_" + names[r]] = f * tot
    for k, v in exp.items():
        if snap["terms"].get(k, F(0)) != v:
            fails.append("objective term %s reported %s, recomputed from routes %s" % (k, snap["terms"].get(k, 0), v))
    for k in snap["terms"]:
        if k not in exp and snap["terms"][k] != 0:
            fails.append("unexpected objective term %s = %s" % (k, snap["terms"][k]))
    return fails


def top_units(m):
    """top-level units: key -> list of stops; members of a group are not top-level"""
    member = {ui for g in m.get("groups", []) for ui in g}
    tops = {}
    for ui, u in enumerate(m["units"]):
        if ui not in member:
            tops[min(u["stops"])] = list(u["stops"])
    for g in m.get("groups", []):
        stops = [x for ui in g for x in m["units"][ui]["stops"]]
        tops[1000 + min(stops)] = stops
    return tops


def fixed_stops(m):
    out = {}
    for v, ve in enumerate(m["vehicles"]):
        for x, fx in ve.get("initial", []):
            if fx:
                out[x] = v
    return out


def ok_C08(ctx, snap):
    m = ctx.m
    fails = []
    keys = {k: {"stops": st} for k, st in top_units(m).items()}
    on_route = {s for r in snap["routes"].values() for s in r[1:-1]}
    cols = {"planned": snap["planned"], "unplanned": snap["unplanned"], "fixed": snap["fixed"]}
    for name, c in cols.items():
        if len(set(c)) != len(c):
            fails.append("%s lists a unit twice: %s" % (name, c))
        for k in c:
            if k not in keys:
                fails.append("%s lists %d which is not a top-level unit" % (name, k))
    for k, u in keys.items():
        where = [n for n, c in cols.items() if k in c]
        if len(where) != 1:
            fails.append("unit %d is in %s" % (k, where or "no collection"))
            continue
        planned = all(s in on_route for s in u["stops"])
        some = any(s in on_route for s in u["stops"])
        if where[0] == "unplanned" and some:
            fails.append("unit %d listed unplanned but stops %s are on routes" % (k, [s for s in u["stops"] if s in on_route]))
        if where[0] in ("planned", "fixed") and not planned:
            fails.append("unit %d listed %s but stops %s are not on routes" % (k, where[0], [s for s in u["stops"] if s not in on_route]))
    return fails


def ok_C03(ctx, snap):
    m = ctx.m
    fails, seen = ok_routes_basic(ctx, snap)
    pos = {}
    for v, r in snap["routes"].items():
        for i, s in enumerate(r):
            pos[s] = (v, i)
    for u in m["units"]:
        on = [s for s in u["stops"] if s in seen]
        if on and len(on) != len(u["stops"]):
            fails.append("unit %s half planned: %s on routes" % (u["stops"], on))
            continue
        if not on:
            continue
        if len({pos[s][0] for s in u["stops"]}) != 1:
            fails.append("unit %s spread over vehicles" % u["stops"])
            continue
        for a, b, d in u["arcs"]:
            if not pos[a][1] < pos[b][1]:
                fails.append("s%d must precede s%d" % (a, b))
            if d and pos[b][1] != pos[a][1] + 1:
                fails.append("s%d must directly precede s%d (positions %d, %d)" % (a, b, pos[a][1], pos[b][1]))
    for g in m.get("groups", []):
        stops_ = [x for ui in g for x in m["units"][ui]["stops"]]
        on = [x for x in stops_ if x in seen]
        if on and (len(on) != len(stops_) or len({pos[x][0] for x in stops_}) != 1):
            fails.append("stop group %s is split: on routes %s" % (stops_, {x: pos[x][0] for x in on}))
    for x, v in fixed_stops(m).items():
        if x in seen and pos[x][0] != v:
            fails.append("fixed stop s%d is on vehicle %d, not on its vehicle %d" % (x, pos[x][0], v))
        if x not in seen:
            # a solution is only created when every fixed initial stop could be kept, and nothing may remove it later
            fails.append("fixed stop s%d left its vehicle %d" % (x, v))
    return fails


ALL = {"C01": ok_C01, "C02": ok_C02, "C03": ok_C03, "C04": ok_C04, "C05": ok_C05, "C08": ok_C08}


def ok_C19(ctx, snap):
    """the user constraints (bounds on cached fields) on the implementation's snapshot"""
    m = ctx.m
    fails = []
    for v, cells in snap["cells"].items():
        for i, c in enumerate(cells):
            if i == 0:
                continue
            last = i == len(cells) - 1
            for (f, mx, veh, temporal) in [u[:4] for u in m.get("user", [])]:
                if veh and not last:
                    continue
                if f.startswith("level"):
                    r = int(f[5:])
                    lv = c["L"].split(",") if c["L"] != "-" else []
                    val = F(lv[r]) if r < len(lv) else F(0)
                else:
                    val = {"pos": F(c["P"]), "arrival": F(c["a"]), "start": F(c["s"]), "end": F(c["e"]),
                           "cumtravel": F(c["ct"]), "wait": F(c["s"]) - F(c["a"])}[f]
                if val > mx:
                    fails.append("user constraint %s <= %s (%s-level) violated at stop %d of vehicle %d: %s" %
                                 (f, mx, "vehicle" if veh else "stop", c["stop"], v, val))
    # solution-level rules: read off the routes
    sizes = [len(r) - 2 for r in snap["routes"].values()]
    for kind, k in [u[:2] for u in m.get("usol", [])]:
        if kind == "balance" and sizes and max(sizes) - min(sizes) > k:
            fails.append("solution-level user constraint: route sizes %s differ by more than %d" % (sizes, k))
        if kind == "maxplanned" and sum(sizes) > k:
            fails.append("solution-level user constraint: %d stops planned, at most %d allowed" % (sum(sizes), k))
    return fails


ALL["C19"] = ok_C19
