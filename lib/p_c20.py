"""C20 - the JSON output is a faithful projection of the solution.

Proof: coq/Props/C20.v (every input stop exactly once; waiting derived as a
difference equals the sum of waits; objective total = sum of terms).  Tie:
factory.ToSolutionOutput on states of generated histories vs the extracted
Model/Format.v; search: the projection recomputed by Python from the
implementation's own snapshot of the same state."""
import random

import engine_corr as E
import framework as FW
import gen_engine as G
import oracles as O

PID = "C20"


def gen_ops(rng, m, n):
    ops = G.gen_ops(rng, m, n, "checked")
    out = []
    for i, o in enumerate(ops):
        out.append(o)
        if i % 4 == 3:
            out.append("op q_format")
    out.append("op q_format")
    return out


def oracle(ctx, steps):
    fails = []
    m = ctx.m
    n = ctx.n
    for st in steps:
        f = st.get("fmt")
        if not f:
            continue
        listed = sorted(f["unplanned"] + [s for v in f["stops"].values() for (s, _) in v if s < n])
        if listed != list(range(n)):
            fails.append((st["step"], "output lists stops %s, input has %s" % (listed, list(range(n)))))
        for v, route in st["routes"].items():
            sch = ctx.schedule(v, route)
            vo = f["veh"].get(v)
            if vo is None:
                fails.append((st["step"], "vehicle %d missing in output" % v))
                continue
            waits = sum(x[3] - x[2] for x in sch[1:])
            if vo["wait"] != waits:
                fails.append((st["step"], "vehicle %d route_waiting_duration %d, sum of waits %d" % (v, vo["wait"], waits)))
            if vo["dur"] != sch[-1][4] - sch[0][3] or vo["travel"] != sch[-1][1]:
                fails.append((st["step"], "vehicle %d route duration/travel %d/%d, solution has %d/%d" %
                              (v, vo["dur"], vo["travel"], sch[-1][4] - sch[0][3], sch[-1][1])))
            outs = dict(f["stops"].get(v, []))
            for pos, s in enumerate(route):
                if not ctx.valid(s):
                    if s in outs:
                        fails.append((st["step"], "stop %d without location is listed" % s))
                    continue
                if s not in outs:
                    fails.append((st["step"], "stop %d missing in route output of vehicle %d" % (s, v)))
                    continue
                d = outs[s]
                tr, cum, arr, stt, en = sch[pos]
                exp_dist = m["dist"][route[pos - 1]][s] if pos > 0 and ctx.valid(route[pos - 1]) else 0
                if (d["tr"], d["ct"], d["dur"], d["wait"]) != (tr, cum, en - stt, stt - arr) or d["dist"] != exp_dist:
                    fails.append((st["step"], "stop %d reported tr/ct/dur/wait/dist %s, solution has %s" %
                                  (s, (d["tr"], d["ct"], d["dur"], d["wait"], d["dist"]), (tr, cum, en - stt, stt - arr, exp_dist))))
        if f["total"] != sum(f["terms"].values()):
            fails.append((st["step"], "objective value %s != sum of terms %s" % (f["total"], sum(f["terms"].values()))))
    return fails


def attach_fmt(steps, lines):
    by = {s["step"]: s for s in steps}
    for l in lines:
        f = l.split()
        if len(f) < 3 or f[1] != "fmt":
            continue
        st = by.get(int(f[0]))
        if st is None:
            continue
        d = st.setdefault("fmt", {"veh": {}, "stops": {}, "unplanned": [], "terms": {}, "total": 0})
        if f[2] == "veh":
            d["veh"][int(f[3])] = {k: int(v) for k, v in zip(f[4::2], f[5::2])}
        elif f[2] == "stop":
            kv = dict(zip(f[5::2], f[6::2]))
            d["stops"].setdefault(int(f[3]), []).append((int(f[4]), {k: int(kv[k]) for k in ("tr", "ct", "dur", "wait", "dist", "cumdist")}))
        elif f[2] == "unplanned":
            d["unplanned"] = [int(x) for x in f[3:]]
        elif f[2] == "objective":
            from fractions import Fraction as F
            d["total"] = F(f[3])
            for t in f[5:]:
                n_, _, v = t.partition("=")
                d["terms"][n_] = F(v)


def nested_format(chk, tier, seed):
    """ToSolutionOutput on states of models with stop groups / initial stops: the unplanned list is derived from the
    bookkeeping of nested units.  Correspondence with Model/Units.v (g_format_solution); oracle: every input stop
    listed exactly once.  Findings N1-N7 apply by shape."""
    rng = random.Random(seed * 1009 + 2020)
    n = 300 if tier == "quick" else 6000
    cases = []
    for i in range(n):
        if i % 2:
            # initial stops that belong to groups on routes that break a temporal constraint: the repair pass of addInitialSolution
            m = G.gen_model(rng, "small", {"groups": True, "initial": True, "windows": True, "endtime": rng.random() < 0.6,
                                           "maxdur": rng.random() < 0.5, "tight": True, "capacity": False})
        else:
            m = G.gen_model(rng, "small", {"groups": True, "initial": rng.random() < 0.4})
        ops = ["op q_format"]      # the state NewSolution built (initial stops)
        for i2, o in enumerate(G.gen_ops(rng, m, 14, "unchecked")[:-1]):
            ops += [o, "op q_format"]
        cases.append({"id": str(i), "model": m, "ops": ops})
    res, st = E.run_cases(cases, "c20n_" + tier, timeout=3000)
    import engine_props
    for r in res:
        r["diff"] = engine_props.diff_until_taint(r)      # see engine_props.nested_stage
    bad = [r for r in res if r["diff"]]
    chk.ob("nested: ToSolutionOutput = Model/Units.v format on group / initial-stop histories (%d histories)" % n,
           not bad and st[0] == 0 and st[2] == 0, str(bad[0]["diff"])[:500] if bad else (st[1] + st[3])[-300:])
    if bad and chk.mismatch is None:
        chk.mismatch = {"diff": bad[0]["diff"], "case": G.case_lines(bad[0]["case"]["model"], bad[0]["case"]["ops"])}
    hits = 0
    for r in res:
        m = r["case"]["model"]
        nst = len(m["stops"])
        ops = r["case"]["ops"]
        lines = [l for l in r["impl"] if not l.startswith("S")]
        targets, results = {}, {}
        fmt = {}
        for l in lines:
            f = l.split()
            if len(f) < 3 or not f[0].isdigit():
                continue
            k = int(f[0])
            if f[1] == "target":
                targets[k] = int(f[2])
            elif f[1] == "result":
                results[k] = f[2]
            elif f[1] == "fmt" and f[2] == "stop":
                fmt.setdefault(k, []).append(int(f[4]))
            elif f[1] == "fmt" and f[2] == "unplanned":
                fmt.setdefault(k, []).extend(int(x) for x in f[3:])
            elif f[1] == "fmt":
                fmt.setdefault(k, [])
        tainted = False
        last = ("build", "done", False)
        reported = False
        for k in range(0, len(ops) + 1):
            op = ops[k - 1].split()[1] if k >= 1 else "build"
            if op != "q_format":
                grp = targets.get(k, 0) >= 1000
                if k >= 1:
                    last = (op, results.get(k, "?"), grp)
                continue
            if k not in fmt:      # the model was rejected, or the history ended in an error: nothing was formatted
                continue
            listed = sorted(x for x in fmt.get(k, []) if x < nst)
            if listed != list(range(nst)) and not reported:
                reported = True
                hits += 1
                chk.violation({"kind": "history", "what": "output lists stops %s, input has 0..%d" % (listed, nst - 1), "step": k,
                               "finding_shape": {"kind": "nested", "oracle": "C20", "op": last[0], "result": last[1], "group": last[2], "has_groups": bool(m.get("groups")),
                                                 "detail": "stops", "tainted": tainted,
                                                 # the stops listed twice or not at all: do they belong to a group with a fixed member?
                                                 "fixed_group": any(
                                                     x in {y for ve in m["vehicles"] for y, fx in ve.get("initial", []) if fx}
                                                     for g in m.get("groups", [])
                                                     for gs in [[y for ui in g for y in m["units"][ui]["stops"]]]
                                                     if any(listed.count(y) != 1 for y in gs) for x in gs)},
                               "case": G.case_lines(m, ops[:k])})
            o, rs, grp = last
            if o in ("munplanr", "vunplanr") or (o == "unplanr" and grp) or (o in ("planr", "plancr") and grp and rs != "done") \
                    or (o == "build" and listed != list(range(nst))):
                tainted = True
    chk.ob("nested: every input stop listed exactly once in the output (violations matching a listed finding are KNOWN-FINDING)", not chk.violations)
    chk.ev.cov["nested_format_histories"] = n
    chk.ev.cov["nested_format_oracle_hits"] = hits


def run(tier, seed, replay=None):
    chk = FW.Check(PID, tier, seed)
    if not chk.builds(model=True, harness=True):
        return chk.finish()
    chk.proofs()
    rng = random.Random(seed * 1009 + 20)
    n = 150 if tier == "quick" else 3000
    cases = []
    for i in range(n):
        m = G.gen_model(rng, "small" if tier == "quick" else "medium")
        cases.append({"id": str(i), "model": m, "ops": gen_ops(rng, m, 16)})
    res, st = E.run_cases(cases, "c20_" + tier, timeout=3000)
    chk.ob("harness and model runner exit normally", st[0] == 0 and st[2] == 0, (st[1] + st[3])[-300:])
    bad = [r for r in res if r["diff"]]
    nfmt = sum(sum(1 for o in c["ops"] if o == "op q_format") for c in cases)
    chk.ob("ToSolutionOutput = Model/Format.v on %d formatted states of %d histories" % (nfmt, n), not bad,
           str(bad[0]["diff"])[:500] if bad else "")
    nv = 0
    for r in res:
        ctx = O.Ctx(r["case"]["model"])
        lines = [l for l in r["impl"] if not l.startswith("S")]
        steps = O.parse_steps([l for l in lines if " fmt " not in l])
        attach_fmt(steps, lines)
        fails = oracle(ctx, steps)
        if fails:
            nv += 1
            chk.violation({"kind": "history", "what": fails[0][1], "step": fails[0][0], "failures": [x[1] for x in fails[:5]],
                           "case": G.case_lines(r["case"]["model"], r["case"]["ops"])})
    chk.ob("output = projection of the solution recomputed from the input (implementation output)", nv == 0)
    chk.ev.cov.update({
        "evaluations": nfmt, "distinct_nontrivial": sum(1 for r in res if any("result done" in l for l in r["impl"])),
        "rule": "generated models (with/without vehicle start/end locations and start times) x histories; ToSolutionOutput printed after every 4th operation; non-trivial = history with a successful plan",
        "traces_validated_against_impl": n, "samples": [cases[0]["ops"][:6]],
        "search_description": "projection recomputed from the input on the implementation's snapshots",
    })
    nested_format(chk, tier, seed)
    import engine_props
    engine_props.full_stage(chk, PID, tier, seed)
    chk.ev.assume("custom_data pass-through, alternates/groups in the unplanned list and timezone rendering are not modelled; truncation to whole seconds is the identity on the integer domain")
    return chk.finish()
