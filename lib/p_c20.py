"""C20 - the JSON output is a faithful projection of the solution.

Proof: coq/Props/C20.v (every input stop exactly once; waiting derived as a
difference equals the sum of waits; objective total = sum of terms).  Tie:
factory.ToSolutionOutput on states of generated histories vs the extracted
Model/Format.v; search: the projection recomputed by Python from the
implementation's own snapshot of the same state."""
import random

import engine_corr as E
import framework as FW
import gen_engine as G
import oracles as O

PID = "C20"


def gen_ops(rng, m, n):
    ops = G.gen_ops(rng, m, n, "checked")
    out = []
    for i, o in enumerate(ops):
        out.append(o)
        if i % 4 == 3:
            out.append("op q_format")
    out.append("op q_format")
    return out


def oracle(ctx, steps):
    fails = []
    m = ctx.m
    n = ctx.n
    for st in steps:
        f = st.get("fmt")
        if not f:
            continue
        listed = sorted(f["unplanned"] + [s for v in f["stops"].values() for (s, _) in v if s < n])
        if listed != list(range(n)):
            fails.append((st["step"], "output lists stops %s, input has %s" % (listed, list(range(n)))))
        for v, route in st["routes"].items():
            sch = ctx.schedule(v, route)
            vo = f["veh"].get(v)
            if vo is None:
                fails.append((st["step"], "vehicle %d missing in output" % v))
                continue
            waits = sum(x[3] - x[2] for x in sch[1:])
            if vo["wait"] != waits:
                fails.append((st["step"], "vehicle %d route_waiting_duration %d, sum of waits %d" % (v, vo["wait"], waits)))
            if vo["dur"] != sch[-1][4] - sch[0][3] or vo["travel"] != sch[-1][1]:
                fails.append((st["step"], "vehicle %d route duration/travel %d/%d, solution has %d/%d" %
                              (v, vo["dur"], vo["travel"], sch[-1][4] - sch[0][3], sch[-1][1])))
            outs = dict(f["stops"].get(v, []))
            for pos, s in enumerate(route):
                if not ctx.valid(s):
                    if s in outs:
                        fails.append((st["step"], "stop %d without location is listed" % s))
                    continue
                if s not in outs:
                    fails.append((st["step"], "stop %d missing in route output of vehicle %d" % (s, v)))
                    continue
                d = outs[s]
                tr, cum, arr, stt, en = sch[pos]
                exp_dist = m["dist"][route[pos - 1]][s] if pos > 0 and ctx.valid(route[pos - 1]) else 0
                if (d["tr"], d["ct"], d["dur"], d["wait"]) != (tr, cum, en - stt, stt - arr) or d["dist"] != exp_dist:
                    fails.append((st["step"], "stop %d reported tr/ct/dur/wait/dist %s, solution has %s" %
                                  (s, (d["tr"], d["ct"], d["dur"], d["wait"], d["dist"]), (tr, cum, en - stt, stt - arr, exp_dist))))
        if f["total"] != sum(f["terms"].values()):
            fails.append((st["step"], "objective value %s != sum of terms %s" % (f["total"], sum(f["terms"].values()))))
    return fails


def attach_fmt(steps, lines):
    by = {s["step"]: s for s in steps}
    for l in lines:
        f = l.split()
        if len(f) < 3 or f[1] != "fmt":
            continue
        st = by.get(int(f[0]))
        if st is None:
            continue
        d = st.setdefault("fmt", {"veh": {}, "stops": {}, "unplanned": [], "terms": {}, "total": 0})
        if f[2] == "veh":
            d["veh"][int(f[3])] = {k: int(v) for k, v in zip(f[4::2], f[5::2])}
        elif f[2] == "stop":
            kv = dict(zip(f[5::2], f[6::2]))
            d["stops"].setdefault(int(f[3]), []).append((int(f[4]), {k: int(kv[k]) for k in ("tr", "ct", "dur", "wait", "dist", "cumdist")}))
        elif f[2] == "unplanned":
            d["unplanned"] = [int(x) for x in f[3:]]
        elif f[2] == "objective":
            from fractions import Fraction as F
            d["total"] = F(f[3])
            for t in f[5:]:
                n_, _, v = t.partition("=")
                d["terms"][n_] = F(v)


def run(tier, seed, replay=None):
    chk = FW.Check(PID, tier, seed)
    if not chk.builds(model=True, harness=True):
        return chk.finish()
    chk.proofs()
    rng = random.Random(seed * 1009 + 20)
    n = 150 if tier == "quick" else 3000
    cases = []
    for i in range(n):
        m = G.gen_model(rng, "small" if tier == "quick" else "medium")
        cases.append({"id": str(i), "model": m, "ops": gen_ops(rng, m, 16)})
    res, st = E.run_cases(cases, "c20_" + tier, timeout=3000)
    chk.ob("harness and model runner exit normally", st[0] == 0 and st[2] == 0, (st[1] + st[3])[-300:])
    bad = [r for r in res if r["diff"]]
    nfmt = sum(sum(1 for o in c["ops"] if o == "op q_format") for c in cases)
    chk.ob("ToSolutionOutput = Model/Format.v on %d formatted states of %d histories" % (nfmt, n), not bad,
           str(bad[0]["diff"])[:500] if bad else "")
    nv = 0
    for r in res:
        ctx = O.Ctx(r["case"]["model"])
        lines = [l for l in r["impl"] if not l.startswith("S")]
        steps = O.parse_steps([l for l in lines if " fmt " not in l])
        attach_fmt(steps, lines)
        fails = oracle(ctx, steps)
        if fails:
            nv += 1
            chk.violation({"kind": "history", "what": fails[0][1], "step": fails[0][0], "failures": [x[1] for x in fails[:5]],
                           "case": G.case_lines(r["case"]["model"], r["case"]["ops"])})
    chk.ob("output = projection of the solution recomputed from the input (implementation output)", nv == 0)
    chk.ev.cov.update({
        "evaluations": nfmt, "distinct_nontrivial": sum(1 for r in res if any("result done" in l for l in r["impl"])),
        "rule": "generated models (with/without vehicle start/end locations and start times) x histories; ToSolutionOutput printed after every 4th operation; non-trivial = history with a successful plan",
        "traces_validated_against_impl": n, "samples": [cases[0]["ops"][:6]],
        "search_description": "projection recomputed from the input on the implementation's snapshots",
    })
    import engine_props
    engine_props.full_stage(chk, PID, tier, seed)
    chk.ev.assume("custom_data pass-through, alternates/groups in the unplanned list and timezone rendering are not modelled; truncation to whole seconds is the identity on the integer domain")
    return chk.finish()
