"""No-mix constraint: generated one-vehicle models with scripted plans/un-plans,
run through the implementation (harness `nomix`) and through the extracted
model (Model/NoMix.v nm_history); line diff plus an oracle on the
implementation's lines alone (executable => done, never an error / panic).

The generator keeps a Python replica of the rule only to choose gaps that make
interesting moves (it decides nothing)."""
import os
import random

import common as C

FIRST = (0, 0, 0, False)


def _update(prev, it):
    pn, pq, pt, pr = prev
    if it is None:
        return (0 if pq == 0 else pn, pq, pt, pr)
    k, n, q = it
    if k == "I":
        if pn != n and pq != 0:
            return None
        return (n, pq + q, pt + 1 if pq == 0 else pt, False)
    if pn != n or pq < q:
        return None
    return (pn, pq - q, pt, pq != q)


def _run(items):
    d = FIRST
    out = [d]
    for it in items:
        d = _update(d, it)
        if d is None:
            return None
        out.append(d)
    return out


def _item(name, q):
    if q > 0:
        return ("I", name, q)
    if q < 0:
        return ("R", name, -q)
    return None


def _insert(route, stops, gaps):
    out = []
    j = 0
    for g in range(len(route) + 1):
        while j < len(stops) and gaps[j] == g:
            out.append(stops[j])
            j += 1
        if g < len(route):
            out.append(route[g])
    return out


def _estimate(ms):
    """ms: [(item, prevdata|None)]; True = violated (replica of the repaired estimate)"""
    first = -1
    for i, (it, _) in enumerate(ms):
        if it is not None:
            first = i
            break
    if first == -1:
        return False
    it0 = ms[first][0]
    if it0[0] == "R":
        return True
    idx = first
    p = ms[idx][1]
    while p is None and idx > 0:
        idx -= 1
        p = ms[idx][1]
    pn, pq, pt, _ = p
    if pn != it0[1] and pq != 0:
        return True
    cname, tour, delta = (it0[1], pt + 1, it0[2]) if pq == 0 else (pn, pt, it0[2])
    for it, p in ms[first + 1:]:
        if p is not None and (p[2] != tour or p[0] != cname):
            return True
        if it is None:
            continue
        if it[1] != cname:
            return True
        if it[0] == "I":
            delta += it[2]
        else:
            if delta < it[2]:
                return True
            delta -= it[2]
    return False


SHAPES = ("pickup_delivery", "leading_plain", "multi", "overdraw", "zero", "plain", "unbalanced", "two_names")


def make_case(rng, cid, size):
    """returns (lines, stats)"""
    nunits = rng.randint(2, 4 if size == "small" else 7)
    names = [1, 2] if rng.random() < 0.8 else [0, 1, 2]
    deltas = {}
    units = []
    shapes = []
    sid = 0
    for _ in range(nunits):
        r = rng.random()
        name = rng.choice(names)
        if r < 0.35:
            shape, ds = "pickup_delivery", None
            q = rng.randint(1, 3)
            ds = [(name, q), (name, -q)]
        elif r < 0.50:
            shape = "leading_plain"
            q = rng.randint(1, 2)
            ds = [None] * rng.randint(1, 2) + [(name, q), (name, -q)]
            if rng.random() < 0.3:
                ds.insert(rng.randrange(len(ds) + 1), None)
        elif r < 0.68:
            shape = "multi"
            q1, q2 = rng.randint(1, 2), rng.randint(1, 2)
            ds = rng.choice([[(name, q1 + q2), (name, -q1), (name, -q2)], [(name, q1), (name, q2), (name, -q1 - q2)],
                             [(name, q1), (name, -q1), (name, q2), (name, -q2)]])
        elif r < 0.80:
            shape = "overdraw"       # removes more than it has inserted so far
            ds = rng.choice([[(name, 1), (name, -2), (name, 1)], [(name, 1), (name, -3), (name, 2)], [(name, -1), (name, 1)],
                             [None, (name, -1), (name, 1)]])
        elif r < 0.88:
            shape = "zero"
            q = rng.randint(1, 2)
            ds = [(name, q), (name, -q), (name, 0)]
            if rng.random() < 0.5:
                ds = [(name, 0)] + ds[:2]
        elif r < 0.95:
            shape, ds = "plain", [None] * rng.randint(1, 2)
        elif r < 0.975:
            shape, ds = "unbalanced", [(name, 2), (name, -1)]
        else:
            other = rng.choice([n for n in (1, 2, 3) if n != name])
            shape, ds = "two_names", [(name, 1), (other, -1)]
        u = []
        for d in ds:
            if d is not None:
                deltas[sid] = d
            u.append(sid)
            sid += 1
        units.append(u)
        shapes.append(shape)
    lines = ["nstops %d" % sid]
    for s in sorted(deltas):
        lines.append("delta %d %d %d" % (s, deltas[s][0], deltas[s][1]))
    for u in units:
        lines.append("unit " + " ".join(map(str, u)))
    items = {s: (_item(*deltas[s]) if s in deltas else None) for s in range(sid)}
    route = []
    planned = set()
    nops = rng.randint(8, 14 if size == "small" else 28)
    nplan = nun = 0
    for _ in range(nops):
        r = rng.random()
        u = rng.randrange(nunits)
        if r < 0.03:
            lines.append("op plan %d" % (nunits + rng.randint(0, 2)))
            continue
        if r < 0.05:
            lines.append("op unplan %d" % rng.randint(0, nunits + 1))
            continue
        if u in planned and r < 0.65:
            nun += 1
            lines.append("op unplan %d" % u)
            r2 = [s for s in route if s not in units[u]]
            if _run([items[s] for s in r2] + [None]) is not None:
                route = r2
                planned.discard(u)
            continue
        if u in planned:
            cand = [x for x in range(nunits) if x not in planned]
            if not cand:
                lines.append("op unplan %d" % u)
                continue
            u = rng.choice(cand)
        k = len(units[u])
        if rng.random() < 0.05:
            gaps = [rng.randint(0, len(route) + 2) for _ in range(k + rng.choice([0, 0, 1, -1]))]
        else:
            gaps = sorted(rng.randint(0, len(route)) for _ in range(k))
            if rng.random() < 0.35:         # adjacent placement
                g = rng.randint(0, len(route))
                gaps = [g] * k
        lines.append("op plan %d %s" % (u, " ".join(map(str, gaps))))
        nplan += 1
        if len(gaps) == k and all(0 <= g <= len(route) for g in gaps) and gaps == sorted(gaps):
            ds = _run([items[s] for s in route] + [None])
            ms = [(items[units[u][j]], None if j > 0 and gaps[j - 1] == g else ds[g]) for j, g in enumerate(gaps)]
            r2 = _insert(route, units[u], gaps)
            if not _estimate(ms) and _run([items[s] for s in r2] + [None]) is not None:
                route = r2
                planned.add(u)
    return lines, {"shapes": shapes, "plans": nplan, "unplans": nun}


def make_cases(seed, n, size="small"):
    rng = random.Random(seed)
    out = []
    for i in range(n):
        lines, st = make_case(rng, "n%d" % i, size)
        out.append({"id": "n%d" % i, "lines": lines, "stats": st})
    return out


def load_corpus(pid="C09"):
    d = os.path.join(C.VERIF, "corpus", "nomix")
    out = []
    if os.path.isdir(d):
        for fn in sorted(os.listdir(d)):
            if fn.endswith(".case"):
                lines = [l.strip() for l in open(os.path.join(d, fn)) if l.strip() and not l.startswith("#")]
                lines = [l for l in lines if not l.startswith("case ") and l != "end"]
                out.append({"id": "corpus_" + fn[:-5], "lines": lines, "stats": {"shapes": ["corpus"], "plans": 0, "unplans": 0}})
    return out


def run_cases(cases, tag, timeout=1200):
    """returns (results, status) ; results: list of {case, impl, model, diff}"""
    cf = os.path.join(C.BUILD, "nomix_%s.case" % tag)
    C.write_cases(cf, [(c["id"], c["lines"]) for c in cases])
    rc1, out1, err1 = C.run([C.HARNESS, "nomix", cf], timeout=timeout, env=C.GOENV)
    rc2, out2, err2 = C.run([C.MODEL, "nomix", cf], timeout=timeout)
    os.remove(cf)

    def split(out):
        d = {}
        for l in out.splitlines():
            cid, _, rest = l.partition(" ")
            d.setdefault(cid, []).append(rest)
        return d
    a, b = split(out1), split(out2)
    res = []
    for c in cases:
        ia, ib = a.get(c["id"], []), b.get(c["id"], [])
        diff = None
        if ia != ib:
            for k in range(max(len(ia), len(ib))):
                x = ia[k] if k < len(ia) else "<missing>"
                y = ib[k] if k < len(ib) else "<missing>"
                if x != y:
                    diff = {"line": k, "impl": x, "model": y}
                    break
        res.append({"case": c, "impl": ia, "model": ib, "diff": diff})
    return res, (rc1, err1[-400:], rc2, err2[-400:])


def oracle(impl_lines):
    """violations visible on the implementation's lines alone"""
    out = []
    for l in impl_lines:
        f = l.split()
        if f and f[0] == "panic":
            out.append(("panic", l[:200], None))
        if len(f) >= 3 and f[1] == "out":
            if f[2] == "plan" and f[3] == "true" and f[4] != "done":
                out.append(("executable_not_done", "step %s: move reported executable, Execute answered %s" % (f[0], f[4]), int(f[0])))
            elif f[-1] == "error":
                out.append(("error", "step %s: %s" % (f[0], " ".join(f[2:])), int(f[0])))
    return out


def case_text(c, upto=None):
    lines = c["lines"]
    if upto is not None:
        k = -1
        keep = []
        for l in lines:
            if l.startswith("op "):
                k += 1
                if k > upto:
                    break
            keep.append(l)
        lines = keep
    return ["case %s" % c["id"]] + lines + ["end"]


def stage(chk, seed, n, size="small", label="no-mix"):
    """correspondence + oracle; returns stats"""
    cases = load_corpus() + make_cases(seed, n, size)
    res, st = run_cases(cases, "%s_%s" % (chk.pid.lower(), chk.tier))
    chk.ob("no-mix: harness and model runner exit normally", st[0] == 0 and st[2] == 0, (st[1] + st[3])[-300:])
    bad = [r for r in res if r["diff"]]
    nexec = nrej = nunplan = nbuilt = nrejected = 0
    shapes = {}
    nviol = 0
    for r in res:
        for s in r["case"]["stats"]["shapes"]:
            shapes[s] = shapes.get(s, 0) + 1
        for l in r["impl"]:
            f = l.split()
            if f[:2] == ["build", "ok"]:
                nbuilt += 1
            elif f[:2] == ["build", "rejected"]:
                nrejected += 1
            elif len(f) >= 4 and f[1] == "out" and f[2] == "plan":
                if f[3] == "true":
                    nexec += 1
                else:
                    nrej += 1
            elif len(f) >= 3 and f[1] == "out" and f[2] == "unplan":
                nunplan += 1
        for kind, what, step in oracle(r["impl"]):
            nviol += 1
            chk.violation({"kind": "nomix", "what": "no-mix: " + what, "case": case_text(r["case"], step), "symptom": kind})
    chk.ob("no-mix model (NoMix.v nm_history) = NewMoveStops.IsExecutable / Execute / UnPlan / NoMixConstraint.Value on %d scripted histories "
           "(%d models built, %d rejected by validation; %d executable moves, %d rejected by the estimate, %d un-plans)"
           % (len(cases), nbuilt, nrejected, nexec, nrej, nunplan),
           not bad, (bad[0]["case"]["id"] + " " + str(bad[0]["diff"]))[:500] if bad else "")
    chk.ob("no-mix: every move reported executable executes, no operation ends in an error or panic (implementation output)", nviol == 0)
    chk.ev.cov.setdefault("nomix", {}).update({"histories": len(cases), "built": nbuilt, "rejected_by_validation": nrejected,
                                                "executable": nexec, "estimate_rejected": nrej, "unplans": nunplan, "unit_shapes": shapes})
    return {"bad": bad, "violations": nviol, "cases": cases}
