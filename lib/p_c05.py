"""C05 - see DESIGN.md section 6.  Proof: coq/Props/C05.v; tie: engine
correspondence; search: oracle ['C05'] on the implementation's snapshots."""
import engine_props


def run(tier, seed, replay=None):
    return engine_props.run("C05", tier, seed, ['C05'], "objective = re-evaluation of the routes", check_c07=False)
