"""C12 - same model, seed and options give the same result.

Proof: coq/Props/C12.v (shared random stream between producer goroutine and
consumer: deterministic exactly when no phase has draws on both sides;
refuted otherwise).  Tie: Oblig/O_C12.v (who draws from solution.Random() in
which goroutine) + repeated identical runs of the real solver.  The unchanged
code has the shared stream: a known finding."""
import framework as FW
import solver_runs as S

PID = "C12"


def settings(rng, m):
    return {"iterations": rng.choice([30, 120, 400]), "duration_ms": 20000, "runs": 1, "starts": rng.choice([0, 1]),
            "det": 1, "repeat": 3, "snap": 1}


def settings_starts(rng, m):
    """several start solutions, goroutine timing perturbed differently in each repetition"""
    return {"iterations": rng.choice([60, 150]), "duration_ms": 20000, "runs": 1, "starts": rng.choice([2, 3, 4]),
            "det": 1, "repeat": 4, "snap": 1, "jitter": rng.choice([1, 3])}


def two_resource_cases(seed, n):
    import random
    import gen_engine as G
    rng = random.Random(seed)
    cases = []
    for i in range(n):
        m = G.gen_model(rng, "small", {"capacity": True, "precedence": False, "windows": False, "maxstops": False, "maxdist": False,
                                        "attrs": False, "maxwait_stop": False, "maxwait_veh": False, "endtime": False, "maxdur": False,
                                        "dgroups": False, "objx": False, "mult": False, "nonmetric": True, "one_vehicle": True,
                                        "penalties": False, "activation": False, "no_startloc": False})
        m["nres"], m["res_mode"] = 2, "map"
        for k, s in enumerate(m["stops"]):
            s["quantity"] = [-1, 1 if k % 2 else -1]
        for ve in m["vehicles"]:
            ve["capacity"] = [rng.randint(2, 3), 3]
            ve["start_level"] = [0, 1]
        size = len(m["dur"])
        for a in range(size):
            for b in range(a, size):
                m["dur"][a][b] = m["dur"][b][a] = 0 if a == b else rng.choice([30, 30, 60])
        for k in m["opts"]:
            if k.startswith("dis_"):
                m["opts"][k] = False
        m["opts"].update({"f_activation": 0, "f_travel": 1, "f_vehicles_duration": 1, "f_unplanned": 1})
        cases.append({"id": "m%d" % i, "model": m, "settings": {"iterations": rng.choice([20, 60]), "duration_ms": 20000, "runs": 1, "starts": 0,
                                                                 "det": 1, "repeat": 16, "snap": 1}})
    return cases


def compare_reps(chk, runs, cases):
    byid = {c["id"]: c for c in cases}
    groups = {}
    for (cid, rep), r in runs.items():
        groups.setdefault(cid, []).append((rep, r))
    ndiff = 0
    for cid, reps in sorted(groups.items()):
        reps.sort()
        base = reps[0][1]
        for rep, r in reps[1:]:
            if r["scores"] != base["scores"] or r["snap"] != base["snap"] or r["flags"] != base["flags"]:
                ndiff += 1
                m = byid[cid]["model"]
                multi = any(len(u["orders"]) > 1 for u in m["units"])
                obj = {"kind": "input", "what": "repeated identical runs differ", "settings": byid[cid]["settings"], "model": m,
                       "scores_a": [str(x) for x in base["scores"]], "scores_b": [str(x) for x in r["scores"]]}
                if multi:
                    obj["finding_shape"] = {"kind": "random_in_goroutine", "function": "SequenceGeneratorChannel"}
                chk.violation(obj)
                break
    return ndiff, len(groups)


def run(tier, seed, replay=None):
    chk = FW.Check(PID, tier, seed)
    if not chk.builds(model=False, harness=True, skeletons=True):
        return chk.finish()
    chk.proofs()
    r = chk.oblig("O_C12")
    ev = FW.C.run_oblig("O_C14_eval")
    if ev["ok"] and ev["evals"].get("random_in_goroutine_seqgen") == "true":
        for f in chk.findings:
            if f["shape"].get("kind") == "random_in_goroutine":
                chk.known(f, f["what"])
    n = 25 if tier == "quick" else 400
    feats = {"precedence": True}
    cases = S.make_solve_cases(seed * 31 + 12, n, settings, feats=feats)
    runs, rc, err = S.run_solve(cases, "c12_" + tier, timeout=3000)
    chk.ob("harness solve exits normally", rc == 0, err[-400:])
    ndiff, ngroups = compare_reps(chk, runs, cases)
    chk.ob("3 repetitions identical (scores and full snapshots) on %d inputs" % ngroups, ndiff == 0 or not chk.violations)
    # start-solution construction: single-stop units only (the order generator goroutine of the known finding never starts)
    n2 = 12 if tier == "quick" else 200
    cases2 = S.make_solve_cases(seed * 31 + 1212, n2, settings_starts, feats={"precedence": False}, size="medium")
    for k, cc in enumerate(FW.load_corpus(PID)):          # minimised past failures run first
        m = cc["model"]
        m["arcs"] = [tuple(a) for a in m.get("arcs", [])]
        m["user"] = [tuple(u) for u in m.get("user", [])]
        for u in m["units"]:
            u["arcs"] = [tuple(a) for a in u["arcs"]]
        for st_ in m["stops"]:
            st_["windows"] = [tuple(w) for w in st_["windows"]]
        cases2.insert(0, {"id": "corpus%d" % k, "model": m, "settings": cc["settings"]})
    runs2, rc2, err2 = S.run_solve(cases2, "c12s_" + tier, timeout=3000)
    chk.ob("harness solve (several start solutions, jittered copies) exits normally", rc2 == 0, err2[-400:])
    nd2, ng2 = compare_reps(chk, runs2, cases2)
    chk.ob("4 repetitions with 2-4 start solutions and perturbed goroutine timing identical on %d inputs" % ng2, nd2 == 0)
    # initial stops: several initial units per vehicle (the order in which NewSolution books them must not vary), single-stop units only
    n3 = 25 if tier == "quick" else 400
    cases3 = S.make_solve_cases(seed * 31 + 121212, n3, lambda rng, m: dict(settings(rng, m), repeat=5, starts=0, iterations=150),
                                feats={"precedence": False, "initial": True, "groups": False, "fixed_p": 0.2, "capacity": False, "windows": False})
    runs3, rc3, err3 = S.run_solve(cases3, "c12i_" + tier, timeout=3000)
    chk.ob("harness solve (initial stops) exits normally", rc3 == 0, err3[-400:])
    nd3, ng3 = compare_reps(chk, runs3, cases3)
    chk.ob("5 repetitions identical on %d inputs with initial stops (%d with two or more initial stops on a vehicle)"
           % (ng3, sum(1 for c in cases3 if any(len(ve.get("initial") or []) >= 2 for ve in c["model"]["vehicles"]))), nd3 == 0)
    # two capacity resources whose violated estimates give different hints (one consumed by every stop: "skip the vehicle";
    # one with both signs and a start level: no hint), one small vehicle, tie-rich symmetric integer matrix: the order in which the
    # factory adds the per-resource constraints decides how many tie-break draws a best-move search consumes (defect repaired by the
    # fix that adds them in the order of the resource names); the model is rebuilt for every repetition
    n4 = 25 if tier == "quick" else 300
    cases4 = two_resource_cases(seed * 31 + 12121212, n4)
    runs4, rc4, err4 = S.run_solve(cases4, "c12m_" + tier, timeout=3000)
    chk.ob("harness solve (two capacity resources) exits normally", rc4 == 0, err4[-400:])
    nd4, ng4 = compare_reps(chk, runs4, cases4)
    chk.ob("16 repetitions (model rebuilt each time) identical on %d inputs with two capacity resources of different kinds" % ng4, nd4 == 0)
    # the consumer's pace: the REAL solver loop driven by a scripted operator that improves in (almost) every iteration - 120 to 400
    # improvements, more than the solver's channel holds - read by an eager consumer and by one that does not read before the solver has
    # stopped making progress (done, or blocked on its full channel); both must receive what Model/SolverLoop.v srun sends
    import common as C
    import os
    import random
    prng = random.Random(seed * 31 + 1212121)
    n5 = 6 if tier == "quick" else 80
    blocks = []
    for i in range(n5):
        score = 1023
        lines = ["start %d" % score]
        for _ in range(prng.randint(120, 400)):
            if score > 2 and prng.random() < 0.9:
                score -= prng.randint(1, 2)
                lines.append("exec 1 %d" % score)
            else:
                lines.append("exec %d %d" % (prng.randint(0, 1), prng.randint(score, 1023)))
        blocks.append(("e%d" % i, lines))
        blocks.append(("s%d" % i, ["stall"] + lines))
    cf = os.path.join(C.BUILD, "c12_pace_%s.case" % tier)
    C.write_cases(cf, blocks)
    (rc5, go_out, go_err), (rc6, ml_out, ml_err) = C.run_both("sloop", cf, timeout=3000)
    chk.ob("scripted solver (consumer pace): harness and model runner exit normally", rc5 == 0 and rc6 == 0, (go_err + ml_err)[-300:])
    g, mm = C.group_lines(go_out), C.group_lines(ml_out)
    npace = 0
    for i in range(n5):
        eager, stalled, model = g.get("e%d" % i, []), g.get("s%d" % i, []), mm.get("e%d" % i, [])
        if eager != stalled or eager != model:
            npace += 1
            sent = lambda ls: next((l for l in ls if l.startswith("sent")), "sent")  # noqa: E731
            chk.violation({"kind": "history", "what": "the solutions delivered depend on the consumer's pace: eager consumer %d solutions, stalled consumer %d, model %d"
                                                      % (len(sent(eager).split()) - 1, len(sent(stalled).split()) - 1, len(sent(model).split()) - 1),
                           "case": blocks[2 * i + 1][1], "eager": eager, "stalled": stalled, "model": model,
                           "how_to_replay": "nrharness sloop <file with: case x / these lines / end>"})
    chk.ob("eager and stalled consumers receive the sequence SolverLoop.srun sends on %d scripted runs with 120-400 improvements" % n5, npace == 0)
    multi = sum(1 for c in cases if any(len(u["orders"]) > 1 for u in c["model"]["units"]))
    chk.ev.cov.update({
        "evaluations": len(runs), "distinct_nontrivial": multi,
        "rule": "generated inputs with precedence units (integer matrices: cost ties), single run, fixed iteration budget, each solved 3 times; "
                "non-trivial = input with a unit that has more than one allowed order",
        "traces_validated_against_impl": len(runs),
        "samples": [cases[0]["settings"]],
        "search_description": "byte-identical repetition of runs",
    })
    chk.ev.assume("math/rand and the Go scheduler are not modelled: the stream is a function, the schedule an argument")
    return chk.finish()
