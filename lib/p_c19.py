"""C19 - a user constraint's exact check is authoritative however optimistic
its estimate.  Proof: coq/Props/C19.v (user constraints are part of the
modelled input: bounds on cached fields, checked per stop or per vehicle,
estimate always 'not violated'; engine invariant + all-or-nothing).  Tie:
real ModelConstraint implementations in the harness (one-level and two-level: one
object with a per-stop and a per-vehicle check) vs the model on histories of moves
built without the estimates; oracle: the user predicate on every snapshot and on every
solution of the real solver."""
import engine_props


def run(tier, seed, replay=None):
    return engine_props.run("C19", tier, seed, ["C19", "C04"], "user constraints never violated", feats={"user": True}, check_c07=True)
