"""C14 - parallel solving has no data races.

Proof: coq/Props/C14.v (lockset checker complete for its definition; mutex
exclusion).  Tie: Oblig/O_C14.v re-proved on the skeletons regenerated from
/repo + the computed set of unprotected shared variables.  Thorough tier: the
Go race detector drives ParallelSolver (search tool).  Unprotected variables
that are listed in known_findings.json are reported as KNOWN-FINDING; any
other one is a violation."""
import json
import os
import re

import common as C
import framework as FW
import solver_runs as S

PID = "C14"


def settings(rng, m):
    return {"iterations": 2000, "duration_ms": 1500, "runs": 4, "starts": rng.choice([1, 3]), "det": rng.choice([0, 1]),
            "repeat": 1, "snap": 0}


def parse_list(s):
    return re.findall(r'"([^"]*)"', s or "")


def access_tops(report):
    """(function, file:line) of the innermost frame of each of the two conflicting accesses of a race report"""
    tops = []
    lines = report.splitlines()
    for i, l in enumerate(lines):
        if re.match(r"\s*(Previous )?(read|write|Read|Write|atomic read|atomic write)( at| of) ", l.strip(), re.I) and i + 2 < len(lines):
            tops.append((lines[i + 1].strip(), lines[i + 2].strip().split(" +")[0]))
    return tops


def access_stacks(report):
    """the frames (function and file lines) of the two conflicting accesses"""
    out, cur = [], None
    for l in report.splitlines():
        t = l.strip()
        if re.match(r"(Previous )?(read|write|atomic read|atomic write)( at| of) ", t, re.I):
            cur = []
            out.append(cur)
            continue
        if t.startswith("Goroutine") or not t:
            cur = None if t.startswith("Goroutine") else cur
            continue
        if cur is not None:
            cur.append(t)
    return out


def race_reports(chk, seed, n):
    """go race detector on generated inputs (parallel runs, multi-stop units, hard windows): one replay object per kind of report"""
    ok, l = C.build_harness(race=True)
    chk.ob("race-detector build of the harness", ok, l[-400:], breaks=False)
    out = []
    if not ok:
        return out
    cases = S.make_solve_cases(seed * 31 + 14, n, settings, feats={"precedence": True, "windows": True})
    # larger single-stop inputs with hard windows: the search falls back to its sorted candidate list (pooled buffers)
    big = S.make_solve_cases(seed * 31 + 1414, max(8, n // 4), lambda rng, m: dict(settings(rng, m), iterations=6000, duration_ms=6000, det=0, starts=1),
                             size="large", feats={"precedence": False, "windows": True, "capacity": False, "maxwait_stop": False,
                                                   "maxwait_veh": False, "maxstops": False, "maxdist": False, "attrs": False})
    for c in big:
        c["id"] = "b" + c["id"]
    cases += big
    # the performance observer (observers/: registered on the model, its handlers are called by every run) together with a user
    # constraint that is checked at solution level, so that every handler runs
    obs = S.make_solve_cases(seed * 31 + 141414, max(4, n // 6), lambda rng, m: dict(settings(rng, m), observer=1, runs=rng.choice([2, 4, 8]), det=0),
                             feats={"precedence": True, "windows": True})
    for c in obs:
        c["id"] = "o" + c["id"]
    cases += obs
    for fn in os.listdir(C.BUILD):
        if fn.startswith("race_c14"):
            os.remove(os.path.join(C.BUILD, fn))
    runs, rc, err = S.run_solve(cases, "c14", timeout=3000, race=True)
    reports = []
    for fn in os.listdir(C.BUILD):
        if fn.startswith("race_c14"):
            reports += open(os.path.join(C.BUILD, fn)).read().split("==================")
    reports = [r for r in reports if "DATA RACE" in r]
    kinds = {}
    for r in reports:
        tops = access_tops(r)
        st = access_stacks(r)
        through = lambda name: [any(name in f for f in s_) for s_ in st]  # noqa: E731
        agg, wrk = through("parallelSolverImpl).Solve.func3"), through("parallelSolverImpl).Solve.func2.1")
        if len(st) == 2 and ((agg[0] and wrk[1]) or (agg[1] and wrk[0])):
            # the aggregator goroutine against a worker goroutine: the unsynchronised hand-off of bestSolution
            # (the variable itself and everything reachable from the solution it points to)
            shape = {"kind": "racy_var", "function": "parallelSolverImpl.Solve", "var": "bestSolution"}
        elif any("solution_sequence_generator.go" in f or "SequenceGeneratorChannel" in f for s_ in st for f in s_) and \
                all("math/rand" in t[0] or "math/rand" in t[1] for t in tops):
            shape = {"kind": "random_in_goroutine", "function": "SequenceGeneratorChannel"}
        else:
            shape = {"kind": "race_report", "top": tops}
        k = json.dumps(shape, sort_keys=True)
        if k not in kinds:
            kinds[k] = r
            out.append({"kind": "schedule", "what": "race detector report", "finding_shape": shape, "report": r[:3000]})
    chk.ev.cov["race_detector_reports"] = len(reports)
    chk.ev.cov["race_report_kinds"] = list(kinds)
    return out


def run(tier, seed, replay=None):
    chk = FW.Check(PID, tier, seed)
    if not chk.builds(model=False, harness=True, skeletons=True):
        return chk.finish()
    chk.proofs()
    chk.proofs("Pool")       # borrow discipline of sync.Pool buffers: checker soundness on all paths, exclusive ownership
    chk.oblig("O_C14")
    chk.oblig("O_C14_pool")     # sync.Pool buffers: no use after Put on any path of any borrower
    chk.oblig("O_C14_fields")   # observers (called by every run): every written field has a mutex common to all its accesses; guarded root fields = reviewed
    chk.oblig("O_C14_lazy")     # shared model objects: writes from read-API methods and reads of those fields are the reviewed ones; caches filled at solve time are read under the lock
    ev = C.run_oblig("O_C14_eval")
    chk.ob("Oblig/O_C14_eval.v evaluates (vm_compute) the lockset analysis on the regenerated skeletons", ev["ok"], ev["log"][-400:])
    racy = {}
    for fn, key in (("parallelSolverImpl.Solve", "racy_parallel"), ("solveImpl.Solve", "racy_solver"),
                    ("parallelSolverWrapperImpl.Solve", "racy_wrapper"), ("SequenceGeneratorChannel", "racy_seqgen")):
        for v in parse_list(ev["evals"].get(key)):
            racy.setdefault(fn, []).append(v)
    for fn, vs in racy.items():
        for v in vs:
            chk.violation({"kind": "obligation", "what": "shared variable %s in %s has conflicting accesses with no common mutex" % (v, fn),
                           "finding_shape": {"kind": "racy_var", "function": fn, "var": v},
                           "how": "lockset analysis (Model/Discipline.v racy_vars) of coq/Gen/Skeleton_*.v regenerated from /repo"})
    if ev["evals"].get("random_in_goroutine_seqgen") == "true":
        chk.violation({"kind": "obligation", "what": "SequenceGeneratorChannel hands solution.Random() to its goroutine",
                       "finding_shape": {"kind": "random_in_goroutine", "function": "SequenceGeneratorChannel"}})
    chk.ev.cov.update({"unprotected_shared_variables": racy,
                       "evaluations": len(ev["evals"]), "distinct_nontrivial": len(ev["evals"]),
                       "rule": "one lockset evaluation per extracted function skeleton (4) + the helper-goroutine random check",
                       "samples": [ev["evals"]],
                       "search_description": "quick: static only; thorough: go race detector on generated inputs"})
    if tier == "thorough":
        for obj in race_reports(chk, seed, 30):
            chk.violation(obj)
    chk.ev.assume("lockset discipline: happens-before through channels is not credited except goroutine start and WaitGroup join in the function body; races inside callees not captured by the skeleton are left to the race detector (thorough)")

    def search():
        # a broken obligation and no concrete schedule at hand: ask the race detector for one
        for obj in race_reports(chk, seed, 12):
            if chk.match_known(obj) is None:
                return obj
        return None
    return chk.finish(search if tier == "quick" else None)
