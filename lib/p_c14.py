"""C14 - parallel solving has no data races.

Proof: coq/Props/C14.v (lockset checker complete for its definition; mutex
exclusion).  Tie: Oblig/O_C14.v re-proved on the skeletons regenerated from
/repo + the computed set of unprotected shared variables.  Thorough tier: the
Go race detector drives ParallelSolver (search tool).  Unprotected variables
that are listed in known_findings.json are reported as KNOWN-FINDING; any
other one is a violation."""
import json
import os
import re

import common as C
import framework as FW
import solver_runs as S

PID = "C14"


def settings(rng, m):
    return {"iterations": 2000, "duration_ms": 1500, "runs": 4, "starts": rng.choice([1, 3]), "det": rng.choice([0, 1]),
            "repeat": 1, "snap": 0}


def parse_list(s):
    return re.findall(r'"([^"]*)"', s or "")


def run(tier, seed, replay=None):
    chk = FW.Check(PID, tier, seed)
    if not chk.builds(model=False, harness=True, skeletons=True):
        return chk.finish()
    chk.proofs()
    chk.oblig("O_C14")
    ev = C.run_oblig("O_C14_eval")
    chk.ob("Oblig/O_C14_eval.v evaluates (vm_compute) the lockset analysis on the regenerated skeletons", ev["ok"], ev["log"][-400:])
    racy = {}
    for fn, key in (("parallelSolverImpl.Solve", "racy_parallel"), ("solveImpl.Solve", "racy_solver"),
                    ("parallelSolverWrapperImpl.Solve", "racy_wrapper"), ("SequenceGeneratorChannel", "racy_seqgen")):
        for v in parse_list(ev["evals"].get(key)):
            racy.setdefault(fn, []).append(v)
    for fn, vs in racy.items():
        for v in vs:
            chk.violation({"kind": "obligation", "what": "shared variable %s in %s has conflicting accesses with no common mutex" % (v, fn),
                           "finding_shape": {"kind": "racy_var", "function": fn, "var": v},
                           "how": "lockset analysis (Model/Discipline.v racy_vars) of coq/Gen/Skeleton_*.v regenerated from /repo"})
    if ev["evals"].get("random_in_goroutine_seqgen") == "true":
        chk.violation({"kind": "obligation", "what": "SequenceGeneratorChannel hands solution.Random() to its goroutine",
                       "finding_shape": {"kind": "random_in_goroutine", "function": "SequenceGeneratorChannel"}})
    chk.ev.cov.update({"unprotected_shared_variables": racy,
                       "evaluations": len(ev["evals"]), "distinct_nontrivial": len(ev["evals"]),
                       "rule": "one lockset evaluation per extracted function skeleton (4) + the helper-goroutine random check",
                       "samples": [ev["evals"]],
                       "search_description": "quick: static only; thorough: go race detector on generated inputs"})
    if tier == "thorough":
        ok, l = C.build_harness(race=True)
        chk.ob("race-detector build of the harness", ok, l[-400:])
        if ok:
            cases = S.make_solve_cases(seed * 31 + 14, 30, settings, feats={"precedence": True, "windows": True})
            for fn in os.listdir(C.BUILD):
                if fn.startswith("race_c14"):
                    os.remove(os.path.join(C.BUILD, fn))
            runs, rc, err = S.run_solve(cases, "c14", timeout=3000, race=True)
            reports = []
            for fn in os.listdir(C.BUILD):
                if fn.startswith("race_c14"):
                    reports += open(os.path.join(C.BUILD, fn)).read().split("==================")
            reports = [r for r in reports if "DATA RACE" in r]
            kinds = {}
            for r in reports:
                if "solution_sequence_generator.go" in r or "math/rand" in r:
                    shape = {"kind": "random_in_goroutine", "function": "SequenceGeneratorChannel"}
                elif "solve_solver_parallel.go" in r and ("Solve.func2.1" in r or "Solve.func3" in r):
                    shape = {"kind": "racy_var", "function": "parallelSolverImpl.Solve", "var": "bestSolution"}
                    if re.search(r"solve_solver_parallel.go:32[3-9]", r):
                        shape["var"] = "solutions"
                else:
                    shape = {"kind": "race_report", "top": r.strip().splitlines()[1:4]}
                k = json.dumps(shape, sort_keys=True)
                if k not in kinds:
                    kinds[k] = r
                    chk.violation({"kind": "schedule", "what": "race detector report", "finding_shape": shape, "report": r[:3000]})
            chk.ev.cov["race_detector_reports"] = len(reports)
            chk.ev.cov["race_report_kinds"] = list(kinds)
    chk.ev.assume("lockset discipline: happens-before through channels is not credited except goroutine start and WaitGroup join in the function body; races inside callees not captured by the skeleton are left to the race detector (thorough)")
    return chk.finish()
