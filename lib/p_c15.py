"""C15 - budget, accounting, deadline, channel closing.

Proof: coq/Props/C15.v (parallel-solver LTS: all schedules, all budgets).
Tie: Oblig/O_C15.v (regenerated channel/budget/closing skeleton = reference)
+ option grid on the real solver with event counts.  Search: the same grid."""
import framework as FW
import solver_runs as S

PID = "C15"
SLACK_MS = 6000


def settings(rng, m):
    return {"iterations": rng.choice([0, 1, 7, 50, 300, 300, -1]), "duration_ms": rng.choice([0, 40, 300, 1200]),
            "runs": rng.choice([1, 2, 4, 16, 40, -1, 0, 0, -2]), "starts": rng.choice([0, 1, 3, 3, -1, -2]),
            "det": rng.choice([0, 1]), "repeat": 1, "snap": 0, "cancel_ms": rng.choice([-1, -1, 0, 15, 150])}


def check_runs(chk, runs, cases):
    byid = {c["id"]: c for c in cases}
    bad = 0
    for (cid, rep), r in sorted(runs.items()):
        st = byid[cid]["settings"]
        fails = []
        flags = [f for f in r["flags"] if not f.startswith(("build error", "solve error", "solver error"))]
        for f in flags:
            if f.startswith(("PANIC", "HANG")):
                fails.append(f)
        d = r["done"]
        if d is None:
            if not r["flags"]:
                fails.append("no 'done' line: channel never closed")
        else:
            if st["iterations"] >= 0 and d["iterated"] > st["iterations"]:
                fails.append("performed %d iterations, budget %d" % (d["iterated"], st["iterations"]))
            if d["reported"] != d["iterated"]:
                fails.append("reported %d iterations, performed %d" % (d["reported"], d["iterated"]))
            limit = st["duration_ms"] if st["cancel_ms"] < 0 else min(st["duration_ms"], st["cancel_ms"])
            if d["elapsed_ms"] > limit + SLACK_MS:
                fails.append("channel closed %d ms after start, limit %d ms" % (d["elapsed_ms"], limit))
        if fails:
            bad += 1
            chk.violation({"kind": "input", "what": fails[0], "failures": fails, "settings": st, "model": byid[cid]["model"]})
    return bad


def wide_unit_stage(chk, tier, seed):
    """a deadline / a cancellation in the middle of ONE best-move search: a pickup that precedes four deliveries and a vehicle
    that already carries some forty single stops - the moves of one stop order on that route number over a million, one search
    takes far longer than the duration given (defect repaired in /repo: the search now looks at its context)"""
    import random
    rng = random.Random(seed * 131 + 1515)
    n = 2 if tier == "quick" else 12
    blocks, meta = [], {}
    for i in range(n):
        k = rng.randint(38, 44)
        stops = [{"id": "s%d" % j, "location": {"lon": 7.0 + 0.01 * j, "lat": 51.0 + 0.003 * (j % 7)}} for j in range(k)]
        stops.append({"id": "p", "location": {"lon": 7.2, "lat": 51.1}, "precedes": ["d1", "d2", "d3", "d4"]})
        stops += [{"id": "d%d" % j, "location": {"lon": 7.2 + 0.01 * j, "lat": 51.1}} for j in range(1, 5)]
        # the single stops are initial stops of the vehicle: whenever the unit is planned the route is already long
        inp = {"stops": stops, "vehicles": [{"id": "v0", "speed": 20, "start_location": {"lon": 7.0, "lat": 51.0},
                                             "initial_stops": [{"id": "s%d" % j} for j in range(k)]}]}
        st = {"iterations": -1, "duration_ms": 1000, "runs": 1 if i % 2 == 0 else 2, "starts": 0, "det": i % 2, "repeat": 1, "snap": 0,
              "cancel_ms": -1 if i % 2 == 0 else 300}
        blocks.append(S.raw_block("w%d" % i, inp, st))
        meta["w%d" % i] = st
    runs, rc, err = S.run_solve_raw(blocks, "c15_wide_" + tier, timeout=3000)
    chk.ob("wide unit: harness solve exits normally", rc == 0, err[-300:])
    bad = 0
    for (cid, rep), r in sorted(runs.items()):
        st = meta[cid]
        d = r["done"]
        limit = st["duration_ms"] if st["cancel_ms"] < 0 else min(st["duration_ms"], st["cancel_ms"])
        fails = [f for f in r["flags"] if f.startswith(("PANIC", "HANG"))]
        if d is None and not r["flags"]:
            fails.append("no 'done' line: channel never closed")
        if d is not None and d["elapsed_ms"] > limit + SLACK_MS:
            fails.append("channel closed %d ms after start, limit %d ms (one best-move search of a unit with five stops on a long route)" % (d["elapsed_ms"], limit))
        if fails:
            bad += 1
            chk.violation({"kind": "input", "what": fails[0], "failures": fails, "settings": st,
                           "input_shape": "one vehicle, about forty single stops, a pickup preceding four deliveries; haversine travel"})
    chk.ob("the channel closes in time although one best-move search would take far longer (%d runs)" % len(runs), bad == 0)
    chk.ev.cov["wide_unit_runs"] = len(runs)


def scripted_stage(chk, tier, seed):
    """the REAL parallel solver (NewSkeletonParallelSolver.Solve: dispatcher, budget grab, Iterated handler, closing)
    with scripted factories vs Model/SolverLoop.v pstep/prun on the canonical sequential schedule: iterations granted
    to each started solver, iterations counted at End and in run.Data, solutions delivered, channel closed"""
    import os
    import random
    import common as C
    rng = random.Random(seed * 131 + 15)
    n = 400 if tier == "quick" else 10000
    blocks = []
    for i in range(n):
        runs = rng.choice([1, 1, 2, 3, 4, 8])
        its = rng.choice([1, 2, 5, 17, 70, 300, rng.randint(1, 400)])
        # the multiset of grants does not depend on the schedule when runs are sequential or all allotments are equal
        allot = [rng.randint(1, 60) for _ in range(rng.randint(1, 4))] if runs == 1 else [rng.choice([1, 3, 20, rng.randint(1, 60)])]
        blocks.append((str(i), ["popts %d %d %d" % (its, runs, rng.randint(0, 1)), "allot " + " ".join(map(str, allot))]))
    cf = os.path.join(C.BUILD, "c15_ploop_%s.case" % tier)
    C.write_cases(cf, blocks)
    (rc1, go_out, go_err), (rc2, ml_out, ml_err) = C.run_both("ploop", cf, timeout=3000)
    chk.ob("scripted parallel solver: harness and model runner exit normally", rc1 == 0 and rc2 == 0, (go_err + ml_err)[-300:])
    g, m = C.group_lines(go_out), C.group_lines(ml_out)
    bad = []
    nviol = 0
    for cid, lines in blocks:
        gl, ml = g.get(cid, []), m.get(cid, [])
        if gl != ml and len(bad) < 5:
            bad.append({"case": lines, "impl": gl, "model": ml})
        its = int(lines[0].split()[1])
        d = {l.split()[0]: l.split()[1:] for l in gl}
        fails = []
        if "total" not in d:
            fails.append("no outcome: %s" % gl[:2])
        else:
            total, rep = int(d["total"][0]), int(d["reported"][0])
            if total > its:
                fails.append("performed %d iterations, budget %d" % (total, its))
            if rep != total:
                fails.append("reported %d iterations, performed %d" % (rep, total))
            if sum(int(x) for x in d.get("grants", [])) > its:
                fails.append("solvers were handed %s iterations in total, budget %d" % (d.get("grants"), its))
        if fails:
            nviol += 1
            chk.violation({"kind": "input", "what": fails[0], "failures": fails, "case": lines,
                           "how_to_replay": "nrharness ploop <file with: case x / these lines / end>"})
    chk.ob("scripted parallel solver = SolverLoop.prun (budget grants, iteration count, closing) on %d option sets" % n, not bad,
           str(bad[0])[:600] if bad else "")
    if bad and chk.mismatch is None:
        chk.mismatch = bad[0]
    chk.ob("scripted parallel solver: budget respected and reported = performed on the implementation", nviol == 0)
    chk.ev.cov["scripted_parallel_runs"] = n


def single_run_deadline_stage(chk, tier, seed):
    """one run of the plain solver with an unlimited iteration budget, a short Duration and a caller context WITHOUT deadline:
    the channel has to be closed when the duration is over (the parallel solver puts its deadline on the parent context, which
    hides what a single run does with its own)"""
    import os
    import random
    import common as C
    rng = random.Random(seed * 31 + 1515)
    n = 4 if tier == "quick" else 40
    blocks = [("d%d" % i, ["deadline duration_ms=%d grace_ms=2500" % rng.choice([0, 50, 150, 300])]) for i in range(n)]
    cf = os.path.join(C.BUILD, "c15_sdeadline_%s.case" % tier)
    C.write_cases(cf, blocks)
    rc, out, err = C.run([C.HARNESS, "sdeadline", cf], timeout=600, env=C.GOENV)
    os.remove(cf)
    g = C.group_lines(out)
    nbad = 0
    for cid, lines in blocks:
        got = g.get(cid, ["no output"])
        if got != ["closed within_grace true"]:
            nbad += 1
            chk.violation({"kind": "script", "what": "single solver run: %s (%s; unlimited iterations, caller context without deadline)" % (got[0], lines[0]),
                           "case": lines, "command": "nrharness sdeadline"})
    chk.ob("single solver run: the channel is closed when SolveOptions.Duration is over, whatever the caller's context (%d runs)" % n,
           rc == 0 and nbad == 0, err[-200:])
    chk.ev.cov["single_run_deadline_runs"] = n


def run(tier, seed, replay=None):
    chk = FW.Check(PID, tier, seed)
    if not chk.builds(model=True, harness=True, skeletons=True):
        return chk.finish()
    chk.proofs()
    chk.proofs("Grants")     # granted iterations and the iteration count do not depend on the schedule (justifies the canonical schedule of ploop)
    chk.oblig("O_C15")
    scripted_stage(chk, tier, seed)
    single_run_deadline_stage(chk, tier, seed)
    wide_unit_stage(chk, tier, seed)
    n = 60 if tier == "quick" else 800
    cases = S.make_solve_cases(seed * 31 + 15, n, settings)
    runs, rc, err = S.run_solve(cases, "c15_" + tier, timeout=3000)
    chk.ob("harness solve exits normally", rc == 0, err[-400:])
    bad = check_runs(chk, runs, cases)
    chk.ob("budget / accounting / closing hold on %d solver runs" % len(runs), bad == 0)
    combos = {tuple(sorted(c["settings"].items())) for c in cases}
    chk.ev.cov.update({
        "evaluations": len(runs), "distinct_nontrivial": len(combos),
        "rule": "generated inputs x option grid: iterations {0,1,7,50,300,unlimited}, duration {0,40,300,1200} ms, runs {1,2,4,16,40,-1,0 (the zero value of the options struct),-2}, "
                "starts {0,1,3}, deterministic on/off, caller cancellation {none,0,15,150} ms; distinct = distinct option tuples",
        "traces_validated_against_impl": len(runs),
        "samples": [c["settings"] for c in cases[:3]],
        "search_description": "the same predicates on a 4x larger grid",
    })
    chk.ev.assume("wall-clock 'shortly after' is checked with %d ms slack; the theorems are about the protocol model, the Go scheduler and timers are not modelled" % SLACK_MS)

    def search():
        # start-solution construction slower than the configured duration (slow exact check, 30-45 stops)
        slow = S.make_solve_cases(seed * 91 + 5, 3, lambda rng, m: {"iterations": 50, "duration_ms": 150, "runs": 1, "starts": 1, "det": 1,
                                                                    "repeat": 1, "snap": 0, "cancel_ms": -1, "slow_us": 40000},
                                  size="large", feats={"precedence": False, "capacity": False, "windows": False, "maxstops": False,
                                                       "maxdist": False, "attrs": False, "endtime": False, "maxdur": False})
        for c in slow:
            c["model"]["opts"].update({"f_unplanned": 2, "f_travel": 1, "f_vehicles_duration": 1})    # planning must pay off
            for st_ in c["model"]["stops"]:
                st_["penalty"] = None
        rs, _, _ = S.run_solve(slow, "c15_slow", timeout=3000)
        cs = FW.Check(PID, tier, seed)
        check_runs(cs, rs, slow)
        if cs.violations:
            return cs.violations[0]
        more = S.make_solve_cases(seed * 91 + 3, n * 4, settings)
        r2, _, _ = S.run_solve(more, "c15_search", timeout=3000)
        c2 = FW.Check(PID, tier, seed)
        check_runs(c2, r2, more)
        return c2.violations[0] if c2.violations else None
    return chk.finish(search)
