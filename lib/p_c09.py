"""C09 - a move the engine calls executable really can be executed.

Proof: coq/Props/C09.v (per constraint: estimate not violated => the exact
checks on the propagated route pass, hence exec_checked = Done).  Tie: the
estimate model (Model/Estimates.v) vs NewMoveStops(...).IsExecutable() and the
outcome of Execute on generated histories of checked moves.  Search: on the
implementation's output, every move reported executable must execute."""
import engine_corr as E
import framework as FW
import gen_engine as G
import nomix_corr as NM
import fullmoves as FM
import oracles as O

PID = "C09"


def run(tier, seed, replay=None):
    chk = FW.Check(PID, tier, seed)
    if not chk.builds(model=True, harness=True):
        return chk.finish()
    chk.proofs()
    chk.proofs("NoMix")     # the no-mix estimate is sound for the exact rule on every route, unit and placement; no script of plans / un-plans ends in an error
    n = 4400 if tier == "quick" else 40000
    size = "small" if tier == "quick" else "medium"
    cases = E.make_cases(seed * 1009 + 9, n // 11, size=size, nops=35, mode="checked_only")
    # focused streams: one estimate at a time on multi-stop units, everything that could reject the move earlier switched off
    off = {"capacity": False, "maxwait_stop": False, "maxwait_veh": False, "endtime": False, "maxdur": False, "maxstops": False,
           "maxdist": False, "attrs": False, "windows": False}
    focus = [{"windows": True, "maxwait_stop": True}, {"windows": True, "maxwait_veh": True}, {"capacity": True},
             {"windows": True, "endtime": True, "maxdur": True}, {"maxdist": True, "maxstops": True}]
    per = max(1, (n - n // 11) // len(focus))
    for k, fz in enumerate(focus):
        feats = dict(off, precedence=True, colocated=(k < 2), **fz)
        extra = E.make_cases(seed * 1009 + 90 + k, per, size=size, nops=35, mode="checked_only", feats=feats)
        for c in extra:
            c["id"] = "f%d_%s" % (k, c["id"])
        cases += extra
    # duration groups: the time spent at a stop changes with its predecessor while arrivals stay the same
    # (zero travel, long group durations, two windows far apart, small max wait behind them)
    import random as _random
    grng = _random.Random(seed * 1009 + 909)
    for i in range(300 if tier == "quick" else 6000):
        gm = G.dgroup_focus(grng, "small", vehicle_wait=(i % 2 == 1))
        cases.append({"id": "g%d" % i, "model": gm, "ops": G.gen_ops(grng, gm, 30, "checked_only")})
    corpus = []
    for c in FW.load_corpus(PID):           # minimised past failures run first
        m = c["model"]
        for u in m["units"]:                # JSON turns tuples into lists
            u["arcs"] = [tuple(a) for a in u["arcs"]]
        m["arcs"] = [tuple(a) for a in m.get("arcs", [])]
        m["user"] = [tuple(u) for u in m.get("user", [])]
        for st_ in m["stops"]:
            st_["windows"] = [tuple(w) for w in st_["windows"]]
        corpus.append({"id": "corpus_" + str(c["id"]), "model": m, "ops": c["ops"]})
    cases = corpus + cases
    n = len(cases)
    res, st = E.run_cases(cases, "c09_" + tier, timeout=3000)
    chk.ob("harness and model runner exit normally", st[0] == 0 and st[2] == 0, (st[1] + st[3])[-300:])
    bad = [r for r in res if r["diff"]]
    nexec = nnot = 0
    for r in res:
        prev = None
        m = r["case"]["model"]
        ctx = O.Ctx(m)
        steps = O.parse_steps(r["impl"])
        bystep = {s["step"]: s for s in steps}
        for l in r["impl"]:
            f = l.split()
            if len(f) >= 4 and f[1] == "move":
                prev = f[3]
                if prev == "true":
                    nexec += 1
                else:
                    nnot += 1
            elif len(f) >= 3 and f[1] == "result":
                if prev == "true" and f[2] != "done":
                    chk.violation({"kind": "history", "what": "move reported executable but Execute returned %s" % f[2], "step": int(f[0]),
                                   "case": G.case_lines(m, r["case"]["ops"][:int(f[0])])})
                if prev == "true" and f[2] == "done":
                    snap = bystep.get(int(f[0]))
                    if snap:
                        fails = O.ok_C01(ctx, snap, True) + O.ok_C02(ctx, snap)
                        if fails:
                            chk.violation({"kind": "history", "what": "executed move leaves an infeasible solution: " + fails[0],
                                           "step": int(f[0]), "case": G.case_lines(m, r["case"]["ops"][:int(f[0])])})
                prev = None
    chk.ob("estimate model = IsExecutable and Execute outcome on %d histories (%d executable, %d rejected by an estimate)" % (n, nexec, nnot),
           not bad, str(bad[0]["diff"])[:500] if bad else "")
    chk.ob("every move reported executable executes and leaves a feasible solution (implementation output)", not chk.violations)
    chk.ev.cov.update({
        "evaluations": nexec + nnot, "distinct_nontrivial": nexec,
        "rule": "generated JSON-level models x histories whose plan operations go through NewMoveStops (estimates) at random gaps/orders, tight constraints; non-trivial = move accepted by all estimates",
        "traces_validated_against_impl": n, "samples": [cases[0]["ops"][:4]],
        "search_description": "IsExecutable => Execute succeeds => ok_C01 and ok_C02 on the implementation's snapshots",
    })
    # full-feature models (no model to compare with): best moves and explicit moves reported executable must execute
    FM.stage(chk, seed * 1009 + 99, 250 if tier == "quick" else 8000)
    # the no-mix constraint: its own model (Model/NoMix.v), its own scripted histories
    NM.stage(chk, seed * 1009 + 97, 500 if tier == "quick" else 12000, size="small" if tier == "quick" else "medium")
    chk.ev.assume("constraints of the modelled core: capacity (all estimate branches), distance limit, latest start/end, max wait stop/vehicle, max stops, attributes; no-mix (own model Model/NoMix.v on one-vehicle models that carry only that constraint); duration groups, alternates pending")
    return chk.finish()
