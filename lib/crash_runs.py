"""Run the crash stream; survive process death (a panic in a library goroutine
kills the harness: the case that had 'begin' but no 'outcome' is the culprit)."""
import os
import common as C


def run_crash(blocks, tag, timeout=1800, cmd="crash"):
    """blocks: list of (id, lines). returns dict id -> {'outcome': str, 'output': [json str], 'stderr': str}"""
    results = {}
    todo = list(blocks)
    rounds = 0
    while todo and rounds < 60:
        rounds += 1
        cf = os.path.join(C.BUILD, "crash_%s_%d.case" % (tag, rounds))
        C.write_cases(cf, todo)
        rc, out, err = C.run([C.HARNESS, cmd, cf], timeout=timeout, env=C.GOENV)
        begun = None
        for line in out.splitlines():
            cid, _, rest = line.partition(" ")
            if rest == "begin":
                begun = cid
                results.setdefault(cid, {"outcome": None, "output": [], "stderr": ""})
            elif rest.startswith("outcome "):
                results[cid]["outcome"] = rest[8:]
                begun = None
            elif rest.startswith("output "):
                results[cid]["output"].append(rest[7:])
            elif rest.startswith("copydiff "):
                results[cid].setdefault("copydiff", []).append(rest[9:])
            elif rest == "copychecked":
                results[cid]["copychecked"] = True
            elif rest.startswith("checkdiff "):
                results[cid].setdefault("checkdiff", []).append(rest[10:])
            elif rest == "checkchecked":
                results[cid]["checkchecked"] = True
            elif rest == "copyrandomchecked":
                results[cid]["copyrandomchecked"] = True
        os.remove(cf)
        if rc == 0 or begun is None:
            break
        # process died while working on `begun`
        results[begun]["outcome"] = "process-crash " + (err.strip().splitlines()[0] if err.strip() else "rc=%d" % rc)[:200]
        results[begun]["stderr"] = err[-3000:]
        idx = [i for i, (cid, _) in enumerate(todo) if cid == begun][0]
        todo = todo[idx + 1:]
    return results
