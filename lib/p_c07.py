"""C07 - see DESIGN.md section 6.  Proof: coq/Props/C07.v; tie: engine
correspondence; search: oracle ['C04','C08'] on the implementation's snapshots."""
import engine_props


def run(tier, seed, replay=None):
    return engine_props.run("C07", tier, seed, ['C04','C08'], "all-or-nothing (failed calls leave the snapshot unchanged)", check_c07=True)
