"""C02 - see DESIGN.md section 6.  Proof: coq/Props/C02.v; tie: engine
correspondence; search: oracle ['C02'] on the implementation's snapshots."""
import engine_props


def run(tier, seed, replay=None):
    return engine_props.run("C02", tier, seed, ['C02'], "windows / shift end / duration / wait limits", check_c07=False)
