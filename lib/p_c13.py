"""C13 - deterministic parallel mode independent of scheduling.

Proof: coq/Props/C13.v (what the cycle barrier orders; refutation: barrier is
not quiescence; positive theorem for one run / one cycle).  Tie: Oblig/O_C13.v
(barrier, hand-offs and their protection in the regenerated skeleton).  The
unchanged code is schedule dependent: known finding."""
import common as C
import framework as FW
import solver_runs as S

PID = "C13"


def settings(rng, m):
    return {"iterations": rng.choice([200, 1000, 3000]), "duration_ms": 20000, "runs": rng.choice([2, 3, 4]),
            "starts": rng.choice([0, 1, 3]), "det": 1, "repeat": 3, "snap": 0}


def holdback_input(rng):
    n, nv = rng.randint(30, 50), rng.randint(3, 5)
    stops = [{"id": "s%02d" % i, "location": {"lon": 7.40 + 0.40 * rng.random(), "lat": 51.85 + 0.20 * rng.random()}, "quantity": -1,
              "duration": 60 + int(rng.random() * 240), "unplanned_penalty": 200000} for i in range(n)]
    veh = [{"id": "v%d" % v, "start_location": {"lon": 7.6, "lat": 51.95}, "end_location": {"lon": 7.6, "lat": 51.95}, "speed": 10,
            "capacity": rng.randint(8, 14)} for v in range(nv)]
    return {"stops": stops, "vehicles": veh}


def holdback_stage(chk, tier, seed):
    """forced schedules: the worker goroutine of run k is held back (sleep in the public StartSolver event) while every inner
    solver lingers after its last iteration, which keeps the known end-of-cycle window (finding C13-barrier) closed; the final
    solution must not depend on which worker was slow"""
    import json
    import os
    import random
    import gen_full as GF
    rng = random.Random(seed * 31 + 1313)
    opts = json.load(open(os.path.join(C.CORPUS, "C16", "_neutral_options.json")))
    n = 3 if tier == "quick" else 40
    blocks, meta = [], {}
    for i in range(n):
        inp = holdback_input(rng)
        hold = "hold runs=2 starts=%d per=40 iterations=400 linger_ms=60 hold_ms=300 maxhold=4" % rng.choice([3, 4, 4, 6])
        blocks.append(("h%d" % i, GF.case_lines(inp, opts, {"iterations": 1})[:2] + [hold]))
        meta["h%d" % i] = (inp, hold)
    cf = os.path.join(C.BUILD, "c13_hold_%s.case" % tier)
    C.write_cases(cf, blocks)
    rc, out, err = C.run([C.HARNESS, "holdback", cf], timeout=3000, env=C.GOENV)
    os.remove(cf)
    chk.ob("forced schedules: harness exits normally", rc == 0, err[-300:])
    g = C.group_lines(out)
    ndiff = nsolves = nnoise = 0

    def deviating(lines):
        """the runs k >= 1 whose outcome differs from the undisturbed solve `hold 0`"""
        res = {}
        for l in lines:
            f = l.split()
            if f[0] == "hold" and len(f) >= 4 and f[2] != "error":
                res[int(f[1])] = (f[2], f[3])
        return {k for k, v in res.items() if k >= 1 and 0 in res and v != res[0]}, res

    for cid, (inp, hold) in meta.items():
        lines = g.get(cid, [])
        nsolves += sum(1 for l in lines if l.startswith("hold "))
        dev, res = deviating(lines)
        odd = any(l.endswith("same false") for l in lines) or "end" not in lines
        if not odd:
            continue
        # the lingering closes the known end-of-cycle window (finding C13-barrier) almost always, not always: a deviation counts
        # only if the SAME held-back run deviates from the undisturbed solve again in two more executions
        confirmed = set(dev)
        for rep in range(2):
            if not confirmed:
                break
            cf2 = os.path.join(C.BUILD, "c13_hold_confirm.case")
            C.write_cases(cf2, [("r", GF.case_lines(inp, opts, {"iterations": 1})[:2] + [hold])])
            _, out2, _ = C.run([C.HARNESS, "holdback", cf2], timeout=600, env=C.GOENV)
            os.remove(cf2)
            dev2, _ = deviating(C.group_lines(out2).get("r", []))
            confirmed &= dev2
        if confirmed:
            ndiff += 1
            chk.violation({"kind": "holdback", "what": "deterministic parallel mode: holding back the worker goroutine of run %s changes the final "
                           "solution in three executions out of three (end-of-cycle window kept closed)" % sorted(confirmed),
                           "input": inp, "options": opts, "hold": hold, "lines": lines[:8]})
        else:
            nnoise += 1
    chk.ev.cov["holdback_unconfirmed_deviations"] = nnoise
    chk.ob("deterministic mode under forced schedules: %d inputs x 6 solves (one worker held back by 300 ms each) end with the same solution"
           % n, ndiff == 0)
    return n


def run(tier, seed, replay=None):
    chk = FW.Check(PID, tier, seed)
    if not chk.builds(model=False, harness=True, skeletons=True):
        return chk.finish()
    po = chk.proofs()
    r = chk.oblig("O_C13")
    if r["ok"] and po["ok"] and "C13_barrier_is_not_quiescence_refuted" in po["theorems"]:
        for f in chk.findings:
            if f["shape"].get("kind") == "barrier_not_quiescence":
                chk.known(f, f["what"])
    n = 12 if tier == "quick" else 200
    cases = S.make_solve_cases(seed * 31 + 13, n, settings)
    runs, rc, err = S.run_solve(cases, "c13_" + tier, timeout=3000)
    chk.ob("harness solve exits normally", rc == 0, err[-400:])
    groups = {}
    for (cid, rep), rr in runs.items():
        groups.setdefault(cid, []).append(rr)
    ndiff = 0
    for cid, reps in groups.items():
        finals = {(tuple(x["scores"][-1:]), tuple(x["flags"])) for x in reps}
        if len(finals) > 1:
            ndiff += 1
            c = [c for c in cases if c["id"] == cid][0]
            chk.violation({"kind": "input", "what": "deterministic parallel runs end with different solutions",
                           "finding_shape": {"kind": "barrier_not_quiescence", "function": "parallelSolverImpl.Solve"},
                           "settings": c["settings"], "model": c["model"]})
    nhold = holdback_stage(chk, tier, seed)
    chk.ev.cov.update({
        "holdback_inputs": nhold,
        "evaluations": len(runs), "distinct_nontrivial": len(groups),
        "rule": "generated inputs, run_deterministically with 2-4 runs and 0-3 start solutions, fixed budget spanning several cycles, each solved 3 times; final scores compared",
        "inputs_with_differing_finals": ndiff,
        "traces_validated_against_impl": len(runs),
        "samples": [cases[0]["settings"]],
        "search_description": "repeated runs (no forced schedules)",
    })
    chk.ev.assume("the Go scheduler is not modelled; schedules are arguments of the LTS")
    return chk.finish()
