"""C13 - deterministic parallel mode independent of scheduling.

Proof: coq/Props/C13.v (what the cycle barrier orders; refutation: barrier is
not quiescence; positive theorem for one run / one cycle).  Tie: Oblig/O_C13.v
(barrier, hand-offs and their protection in the regenerated skeleton).  The
unchanged code is schedule dependent: known finding."""
import framework as FW
import solver_runs as S

PID = "C13"


def settings(rng, m):
    return {"iterations": rng.choice([200, 1000, 3000]), "duration_ms": 20000, "runs": rng.choice([2, 3, 4]),
            "starts": rng.choice([0, 1, 3]), "det": 1, "repeat": 3, "snap": 0}


def run(tier, seed, replay=None):
    chk = FW.Check(PID, tier, seed)
    if not chk.builds(model=False, harness=True, skeletons=True):
        return chk.finish()
    po = chk.proofs()
    r = chk.oblig("O_C13")
    if r["ok"] and po["ok"] and "C13_barrier_is_not_quiescence_refuted" in po["theorems"]:
        for f in chk.findings:
            if f["shape"].get("kind") == "barrier_not_quiescence":
                chk.known(f, f["what"])
    n = 12 if tier == "quick" else 200
    cases = S.make_solve_cases(seed * 31 + 13, n, settings)
    runs, rc, err = S.run_solve(cases, "c13_" + tier, timeout=3000)
    chk.ob("harness solve exits normally", rc == 0, err[-400:])
    groups = {}
    for (cid, rep), rr in runs.items():
        groups.setdefault(cid, []).append(rr)
    ndiff = 0
    for cid, reps in groups.items():
        finals = {(tuple(x["scores"][-1:]), tuple(x["flags"])) for x in reps}
        if len(finals) > 1:
            ndiff += 1
            c = [c for c in cases if c["id"] == cid][0]
            chk.violation({"kind": "input", "what": "deterministic parallel runs end with different solutions",
                           "finding_shape": {"kind": "barrier_not_quiescence", "function": "parallelSolverImpl.Solve"},
                           "settings": c["settings"], "model": c["model"]})
    chk.ev.cov.update({
        "evaluations": len(runs), "distinct_nontrivial": len(groups),
        "rule": "generated inputs, run_deterministically with 2-4 runs and 0-3 start solutions, fixed budget spanning several cycles, each solved 3 times; final scores compared",
        "inputs_with_differing_finals": ndiff,
        "traces_validated_against_impl": len(runs),
        "samples": [cases[0]["settings"]],
        "search_description": "repeated runs (no forced schedules)",
    })
    chk.ev.assume("the Go scheduler is not modelled; schedules are arguments of the LTS")
    return chk.finish()
