"""C16 - no input can crash the library.

Proof: coq/Props/C16.v (the modelled engine core never indexes out of range on
well-dimensioned inputs; reachable routes only contain declared stops).  The
reflection-heavy decoding / validation glue is covered only by the
differential crash search below, which is not a proof: level partial.
Search: corpus of past crashes first, then a structured full-feature stream
and a malformed stream through factory.NewModel, NewSolution and
ParallelSolver.Solve; any panic, process death, hang or engine error is a
violation."""
import json
import os
import random

import common as C
import crash_runs as CR
import framework as FW
import gen_full as GF
import nomix_corr as NM

PID = "C16"
BAD = ("panic", "process-crash", "engine-error", "hang", "solve-error", "solver-error")   # solve-error: Solve on a built model with valid options returned an error (the start solution construction hands an engine error back that way)


def neutral_options():
    return json.load(open(os.path.join(C.CORPUS, PID, "_neutral_options.json")))


def plan_units_stage(chk, tier, seed):
    """how the factory groups precedence relations into plan units (factory/plan_units.go allSequences / mergeUnits) vs
    Model/PlanUnitsBuild.v all_sequences: the multi-stop plan units of the built model, in model order"""
    import common
    rng = random.Random(seed * 1009 + 1616)
    n = 600 if tier == "quick" else 20000
    blocks = []
    off = {k: False for k in ("capacity", "windows", "groups", "alternates", "mixing", "initial", "dur_groups", "multipliers",
                              "targets", "minstops", "limits", "attrs", "defaults")}
    for i in range(n):
        inp, opts, feats = GF.gen_full(rng, "small", force=dict(off, precedence=True, dag=True))
        opts["constraints"]["disable"]["precedence"] = False
        idx = {s["id"]: k for k, s in enumerate(inp["stops"])}
        seqs = []
        for s in inp["stops"]:
            for t in GF.as_list(s.get("precedes")):
                tid, d = (t["id"], bool(t.get("direct"))) if isinstance(t, dict) else (t, False)
                seqs.append((idx[s["id"]], idx.get(tid, -1), d))
            for t in GF.as_list(s.get("succeeds")):
                tid, d = (t["id"], bool(t.get("direct"))) if isinstance(t, dict) else (t, False)
                seqs.append((idx.get(tid, -1), idx[s["id"]], d))
        if any(a < 0 or b < 0 for a, b, _ in seqs):
            continue
        blocks.append((str(i), GF.case_lines(inp, opts, {"iterations": 1})[:2] + ["seq %d %d %d" % (a, b, 1 if d else 0) for a, b, d in seqs]))
    cf = os.path.join(common.BUILD, "c16_punits_%s.case" % tier)
    common.write_cases(cf, blocks)
    (rc1, go_out, go_err), (rc2, ml_out, ml_err) = common.run_both("punits", cf, timeout=3000)
    chk.ob("plan units: harness and model runner exit normally", rc1 == 0 and rc2 == 0, (go_err + ml_err)[-300:])
    g, m = common.group_lines(go_out), common.group_lines(ml_out)
    bad, compared, rejected = [], 0, 0
    for cid, lines in blocks:
        gl, ml = g.get(cid, []), m.get(cid, [])
        if gl and gl[0] in ("build-error", "decode-error"):
            rejected += 1        # cycles, two direct successors ...: rejected with an error, nothing to compare
            if ml and ml[0] == "panic":
                bad.append({"case": lines[2:], "impl": gl, "model": ml})
            continue
        compared += 1
        if gl and gl[0].startswith("panic"):
            chk.violation({"kind": "input", "what": "factory panicked while grouping precedence relations: " + gl[0][:200], "case": lines})
        if gl != ml and len(bad) < 5:
            bad.append({"case": lines[2:], "impl": gl, "model": ml})
    chk.ob("plan units of the built model = PlanUnitsBuild.all_sequences on %d precedence DAG inputs (%d more rejected by the factory)"
           % (compared, rejected), not bad, str(bad[0])[:700] if bad else "")
    if bad and chk.mismatch is None:
        chk.mismatch = bad[0]
    chk.ev.cov["plan_unit_inputs_compared"] = compared


def nomix_units_input(rng):
    """JSON input whose plan units (precedence chains) carry mixing items in every shape the validation accepts"""
    stops = []
    sid = 0
    for _ in range(rng.randint(2, 6)):
        name = rng.choice("AB")
        r = rng.random()
        q, q2 = rng.randint(1, 3), rng.randint(1, 2)
        if r < 0.35:
            ds = [q, -q]
        elif r < 0.55:
            ds = [None] * rng.randint(1, 2) + [q, -q]
        elif r < 0.70:
            ds = rng.choice([[q + q2, -q, -q2], [q, q2, -q - q2], [q, -q, q2, -q2], [q, None, -q]])
        elif r < 0.85:
            ds = rng.choice([[1, -2, 1], [1, -3, 2], [None, 1, -2, 1]])
        elif r < 0.93:
            ds = rng.choice([[q, -q, 0], [0, q, -q], [q, 0, -q]])
        else:
            ds = [None]
        ids = ["s%d" % (sid + k) for k in range(len(ds))]
        for k, d in enumerate(ds):
            st = {"id": ids[k], "location": {"lat": 51.0 + 0.003 * rng.randint(0, 9), "lon": 7.0 + 0.003 * rng.randint(0, 9)},
                  "unplanned_penalty": rng.choice([1000, 100000])}
            if d is not None:
                st["mixing_items"] = {"m": {"name": name, "quantity": d}}
            if k + 1 < len(ds):
                st["precedes"] = ids[k + 1] if rng.random() < 0.8 else [{"id": ids[k + 1], "direct": True}]
            stops.append(st)
        sid += len(ds)
    vehicles = [{"id": "v%d" % v, "start_location": {"lat": 51.0, "lon": 7.0}, "speed": 10} for v in range(rng.randint(1, 2))]
    return {"stops": stops, "vehicles": vehicles}


def oversubscribed_input(rng):
    n = rng.randint(90, 220)
    kind = rng.choice(["max_stops", "capacity", "both"])
    stops = []
    for i in range(n):
        st = {"id": "s%d" % i, "location": {"lat": 51.0 + 0.001 * rng.randint(0, 60), "lon": 7.0 + 0.001 * rng.randint(0, 60)}}
        if kind in ("capacity", "both"):
            st["quantity"] = -1
        if rng.random() < 0.1:
            st["unplanned_penalty"] = rng.choice([1000, 500000])
        stops.append(st)
    vehicles = []
    for v in range(rng.randint(1, 2)):
        ve = {"id": "v%d" % v, "start_location": {"lat": 51.03, "lon": 7.03}, "speed": 10}
        if rng.random() < 0.5:
            ve["end_location"] = {"lat": 51.03, "lon": 7.03}
        if kind in ("max_stops", "both"):
            ve["max_stops"] = rng.randint(1, 3)
        if kind in ("capacity", "both"):
            ve["capacity"] = rng.randint(1, 3)
        vehicles.append(ve)
    return {"stops": stops, "vehicles": vehicles}


def run(tier, seed, replay=None):
    chk = FW.Check(PID, tier, seed)
    if not chk.builds(model=True, harness=True):
        return chk.finish()
    chk.proofs()
    chk.proofs("NoMix")              # the only built-in rule whose exact form answers with an error: the estimate never lets a move through that the rule then refuses
    chk.proofs("PlanUnitsBuild")     # the factory's grouping of precedence relations into plan units never indexes out of range; units = connected components
    rng = random.Random(seed * 1009 + 16)
    blocks, meta = [], {}
    settings = {"iterations": 40, "duration_ms": 1500, "runs": 1, "starts": 1, "output": 0}
    for fn in sorted(os.listdir(os.path.join(C.CORPUS, PID))):
        if fn.startswith("_") or not fn.endswith(".json"):
            continue
        d = json.load(open(os.path.join(C.CORPUS, PID, fn)))
        cid = "corpus:" + fn
        opts = d.get("options") or neutral_options()
        meta[cid] = (d["input"], opts, "corpus")
        blocks.append((cid, GF.case_lines(d["input"], opts, settings)))
    ncorp = len(blocks)
    n = 300 if tier == "quick" else 8000
    for i in range(n):
        inp, opts, feats = GF.gen_full(rng, "small" if i % 4 else "medium")
        kind = "valid"
        if i % 3 == 2:
            inp, kind = GF.mutate(rng, inp)
        st = dict(settings)
        if i % 7 == 0:
            st.update({"runs": 2, "starts": 2})
        meta[str(i)] = (inp, opts, kind)
        blocks.append((str(i), GF.case_lines(inp, opts, st)))
    # every malformed kind in turn (the general stream draws a kind at random: 100 mutated inputs over some forty kinds)
    kinds_in_turn = ["window_junk", "time_before_epoch", "huge_max_duration", "far_future_window", "huge_penalty", "null_in_resource_map",
                     "empty_duration_groups", "negative_matrix_entry", "initial_foreign_alternate", "precedes_alternate", "stop_alt_same_id",
                     "null_scalars", "matrix_vehicle_ghost"]
    per_kind = 8 if tier == "quick" else 150
    for kname in kinds_in_turn:
        for j in range(per_kind * (4 if kname == "huge_penalty" else 1)):
            base, opts, feats = GF.gen_full(rng, "small")
            inp, kind = GF.mutate(rng, base, only=kname)
            if kname == "huge_penalty":
                opts["objectives"]["late_arrival_penalty"] = 1.0       # the term has to be installed for the penalty to count
            cid = "k%s%d" % (kname, j)
            meta[cid] = (inp, opts, kind)
            blocks.append((cid, GF.case_lines(inp, opts, dict(settings))))
    # structure stream: model building dominates (few iterations); precedence DAGs whose relations open several
    # chains and join them later, with groups / initial stops / alternates on top
    n2 = 1500 if tier == "quick" else 20000
    for i in range(n2):
        inp, opts, feats = GF.gen_full(rng, "small", force={"precedence": True, "dag": True, "mixing": False})
        meta["d%d" % i] = (inp, opts, "valid-dag")
        blocks.append(("d%d" % i, GF.case_lines(inp, opts, dict(settings, iterations=3, duration_ms=500))))
    n += n2
    # no-mix stream: one vehicle, every stop is a pickup or its drop-off of item kind A or B: several tours of alternating
    # kinds on one route, moves that span tours
    n3 = 300 if tier == "quick" else 5000
    off = {k: False for k in ("capacity", "windows", "precedence", "groups", "alternates", "initial", "dur_groups", "multipliers",
                              "targets", "minstops", "limits", "attrs", "defaults", "dag")}
    for i in range(n3):
        inp, opts, feats = GF.gen_full(rng, "small", force=dict(off, mixing=True, mixing_heavy=True))
        opts["constraints"]["disable"]["mixing_items"] = False
        meta["m%d" % i] = (inp, opts, "valid-nomix")
        blocks.append(("m%d" % i, GF.case_lines(inp, opts, dict(settings, iterations=60, duration_ms=1500, starts=i % 2))))
    n += n3
    # no-mix units of every shape the validation lets through: chains (precedes) whose first stop carries no item, that remove
    # before they insert or more than they inserted, items of quantity zero; one or two vehicles
    n5 = 300 if tier == "quick" else 6000
    for i in range(n5):
        inp = nomix_units_input(rng)
        opts = neutral_options()
        opts["constraints"]["disable"]["mixing_items"] = False
        meta["x%d" % i] = (inp, opts, "valid-nomix-units")
        blocks.append(("x%d" % i, GF.case_lines(inp, opts, dict(settings, iterations=80, duration_ms=1500, starts=i % 3))))
    n += n5
    # over-subscribed stream: 90-220 plan units of which only a handful fit on the vehicles (max_stops, capacity), solved long
    # enough for the solver's adaptive parameters (number of units to un-plan: 5% of the units, growing while the run stalls) to
    # exceed the number of planned units
    n6 = 80 if tier == "quick" else 1500
    for i in range(n6):
        inp = oversubscribed_input(rng)
        meta["o%d" % i] = (inp, neutral_options(), "valid-oversubscribed")
        blocks.append(("o%d" % i, GF.case_lines(inp, neutral_options(), dict(settings, iterations=rng.choice([300, 450, 700]), duration_ms=6000, starts=i % 2))))
    n += n6
    res = CR.run_crash(blocks, "c16_" + tier, timeout=3000)
    # models assembled through the public Go API: vehicles sharing vehicle types, sparse per-type settings
    n4 = 400 if tier == "quick" else 8000
    ablocks = []
    for i in range(n4):
        line = "api n=%d k=%d nv=%d seq=%d cap=%d objs=%d cons=%d iters=%d runs=%d starts=%d seed=%d" % (
            rng.randint(1, 12), rng.randint(1, 3), rng.randint(1, 6), rng.randint(0, 3), rng.randint(0, 2), rng.randint(0, 31),
            rng.randint(0, 31), rng.choice([1, 5, 60]), rng.choice([1, 1, 2, 3]), rng.choice([0, 1, 2]), rng.randint(1, 99))
        ablocks.append(("a%d" % i, [line]))
        meta["a%d" % i] = ({"api": line}, {}, "api-model")
    ares = CR.run_crash(ablocks, "c16api_" + tier, timeout=3000, cmd="apicrash")
    res.update(ares)
    blocks += ablocks
    n += n4
    classes = {}
    kinds = {}
    for cid, r in res.items():
        o = r["outcome"] or "none"
        cls = o.split()[0]
        classes[cls] = classes.get(cls, 0) + 1
        kinds[meta[cid][2]] = kinds.get(meta[cid][2], 0) + 1
        if cls in BAD or cls == "none":
            inp, opts, kind = meta[cid]
            obj = {"kind": "input", "what": "outcome: " + o[:300], "input": inp, "options": opts, "stream": kind,
                   "stderr": r.get("stderr", "")[-1500:]}
            if "no-mix" in o or "no_mix" in o or "noMix" in r.get("stderr", ""):
                obj["finding_shape"] = {"kind": "no_mix_engine_error"}
            chk.violation(obj)
    plan_units_stage(chk, tier, seed)
    # the no-mix rule on API-built models: scripted moves, estimate vs exact rule (Model/NoMix.v)
    NM.stage(chk, seed * 1009 + 1697, 300 if tier == "quick" else 8000, size="small" if tier == "quick" else "medium")
    missing = [cid for cid, _ in blocks if cid not in res]
    chk.ob("every case reached an outcome (%d corpus + %d generated)" % (ncorp, n), not missing, "no outcome for %s" % missing[:5])
    chk.ob("no panic / process crash / hang / engine error (outcome classes: %s)" % classes, not chk.violations)
    chk.ev.cov.update({
        "evaluations": len(res), "distinct_nontrivial": classes.get("ok", 0),
        "rule": "corpus of past crashes first; generated full-feature JSON inputs (lib/gen_full.py: quantities, windows, precedence, groups, alternates, mixing items, initial/fixed stops, "
                "duration groups, multipliers, targets, min stops, sparse per-vehicle limits, defaults, custom data, plain / time-dependent / no matrix) with random option sets; every third input "
                "gets one structural mutation (27 kinds); non-trivial = input that built and solved",
        "outcome_classes": classes, "stream_kinds": kinds,
        "samples": [{"stream": meta[b[0]][2], "input_keys": sorted(meta[b[0]][0].keys())} for b in blocks[ncorp:ncorp + 3]],
        "search_description": "the crashing input is its own replay",
    })
    chk.ev.assume("only inputs that decode into the schema; matrices have the documented dimensions (stops + alternate stops + 2 per vehicle); API-built models not yet in the stream")
    return chk.finish()
