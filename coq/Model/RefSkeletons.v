(* Reference fingerprints: the translator's output on the reviewed tree
   (pinned commit + the fix: commits listed in known_findings.json).
   Regenerate with tools/update_refs.py after review; never at check time. *)
From Coq Require Import List String.
From NR Require Import Model.Skeleton Model.Pool.
Import ListNotations.
Open Scope string_scope.

Definition copy_table_ref : list (string * string * string) :=
  [("model", "named:Model", "other"); ("scores", "map", "make+elem:local:score"); ("values", "map", "make+elem:copyslice:values"); ("objectiveStopData", "map", "make+elem:make"); ("constraintStopData", "map", "make+elem:make"); ("objectiveSolutionData", "map", "make+elem:call:s.objectiveSolutionData.Copy"); ("constraintSolutionData", "map", "make+elem:call:s.constraintSolutionData.Copy"); ("cumulativeValues", "map", "make+elem:copyslice:cumulativeValues"); ("stopToPlanUnit", "slice", "make"); ("random", "pointer", "call:rand.New"); ("plannedPlanUnits", "named:solutionPlanUnitCollectionBaseImpl", "new:newSolutionPlanUnitCollectionBaseImpl+method:add(call:copySolutionPlanUnit)"); ("fixedPlanUnits", "named:solutionPlanUnitCollectionBaseImpl", "new:newSolutionPlanUnitCollectionBaseImpl+method:add(call:copySolutionPlanUnit)"); ("unPlannedPlanUnits", "named:solutionPlanUnitCollectionBaseImpl", "new:newSolutionPlanUnitCollectionBaseImpl+method:add(call:copySolutionPlanUnit)"); ("propositionPlanUnits", "named:solutionPlanUnitCollectionBaseImpl", "new:newSolutionPlanUnitCollectionBaseImpl"); ("vehicleIndices", "slice", "copyslice:vehicleIndices"); ("vehicles", "slice", "clone:vehicles"); ("solutionVehicles", "slice", "clone:solutionVehicles+elem:other"); ("start", "slice", "copyslice:start"); ("slack", "slice", "copyslice:slack"); ("arrival", "slice", "copyslice:arrival"); ("next", "slice", "copyslice:next"); ("stopPosition", "slice", "copyslice:stopPosition"); ("first", "slice", "copyslice:first"); ("stop", "slice", "copyslice:stop"); ("cumulativeTravelDuration", "slice", "copyslice:cumulativeTravelDuration"); ("end", "slice", "copyslice:end"); ("previous", "slice", "copyslice:previous"); ("inVehicle", "slice", "copyslice:inVehicle"); ("last", "slice", "copyslice:last"); ("randomMutex", "named:sync.Mutex", "untouched")].

Definition solution_copy_shared_ref : list (string * string) :=
  [].

Definition solution_copy_body_ref : list sk :=
  [(SLock "randomMutex"); (SCall "Int63"); (SUnlock "randomMutex"); (SFor [(SFor [(SIf [] [(SCall "Copy")])])]); (SFor [(SIf [(SCall "Copy")] [])]); (SFor [(SFor [(SIf [] [(SCall "Copy")])])]); (SFor [(SIf [(SCall "Copy")] [])]); (SReturn)].

Definition factory_captures_ref : list (string * nat * list string * list string) :=
  [("DefaultSolverFactory", 1, [], []); ("DefaultSolveOptionsFactory", 1, [], [])].

Definition model_read_writes_ref : list (string * string * string * string) :=
  [("initialSolutionObserver", "OnEstimateIsViolated", "constraint", "none"); ("initialSolutionObserver", "OnSolutionConstraintChecked", "constraint", "none"); ("initialSolutionObserver", "OnStopConstraintChecked", "constraint", "none"); ("initialSolutionObserver", "OnVehicleConstraintChecked", "constraint", "none"); ("intParameterImpl", "Update", "delta", "none"); ("intParameterImpl", "Update", "iterations", "none"); ("intParameterImpl", "Update", "value", "none"); ("plane", "Slice", "modelStopWrappers", "none"); ("plane", "Swap", "modelStopWrappers", "none"); ("stopImpl", "cacheClosestStops", "closest", "none"); ("stopTimeExpressionImpl", "defaultTimeValue", "defaultValue", "once"); ("timeDependentDurationExpressionImpl", "updateMap", "elements", "none"); ("timeDependentDurationExpressionImpl", "updateMap", "endElement", "none"); ("timeDependentDurationExpressionImpl", "updateMap", "startElement", "none")].

Definition model_field_reads_ref : list (string * string * string * string) :=
  [("initialSolutionObserver", "Constraint", "constraint", "none"); ("intParameterImpl", "Update", "delta", "none"); ("intParameterImpl", "Update", "iterations", "none"); ("intParameterImpl", "Update", "value", "none"); ("intParameterImpl", "Value", "value", "none"); ("plane", "Less", "modelStopWrappers", "none"); ("plane", "Slice", "modelStopWrappers", "none"); ("plane", "Swap", "modelStopWrappers", "none"); ("stopImpl", "closestStops", "closest", "lock"); ("timeDependentDurationExpressionImpl", "ExpressionAtValue", "elements", "none"); ("timeDependentDurationExpressionImpl", "SetExpression", "startElement", "none"); ("timeDependentDurationExpressionImpl", "String", "elements", "none"); ("timeDependentDurationExpressionImpl", "String", "startElement", "none"); ("timeDependentDurationExpressionImpl", "ValueAtValue", "elements", "none"); ("timeDependentDurationExpressionImpl", "getElementAtValue", "elements", "none"); ("timeDependentDurationExpressionImpl", "getElementAtValue", "endElement", "none"); ("timeDependentDurationExpressionImpl", "getElementAtValue", "startElement", "none"); ("timeDependentDurationExpressionImpl", "updateMap", "elements", "none"); ("timeDependentDurationExpressionImpl", "updateMap", "endElement", "none"); ("timeDependentDurationExpressionImpl", "updateMap", "startElement", "none")].

Definition parallel_solve_shared_ref : list (string * string) :=
  [("bestSolution", "plain"); ("bestSolutionMutex", "mutex"); ("cancel", "func"); ("ctx", "plain"); ("interpretedParallelSolveOptions", "plain"); ("iterationsLeft", "atomic"); ("parallelCount", "chan"); ("parallelRuns", "plain"); ("reportBestSolution", "func"); ("resultChannel", "chan"); ("solutions", "plain"); ("solutionsMutex", "mutex"); ("syncResultChannel", "chan"); ("totalIterations", "atomic"); ("waitGroup", "wg")].

Definition parallel_solve_body_ref : list sk :=
  [(SIf [(SReturn)] []); (SIf [(SReturn)] []); (SRead "interpretedParallelSolveOptions"); (SIf [(SRead "interpretedParallelSolveOptions")] []); (SRead "interpretedParallelSolveOptions"); (SIf [(SRead "interpretedParallelSolveOptions")] []); (SRead "interpretedParallelSolveOptions"); (SIf [(SRead "interpretedParallelSolveOptions")] []); (SIf [(SIf [(SReturn)] [])] []); (SFor [(SIf [(SReturn)] []); (SIf [(SReturn)] [])]); (SRead "ctx"); (SRead "ctx"); (SRead "interpretedParallelSolveOptions"); (SCall "WithDeadline"); (SRead "solutions"); (SRead "interpretedParallelSolveOptions"); (SRead "parallelRuns"); (SIf [(SWrite "parallelRuns")] []); (SRead "parallelRuns"); (SRead "solutions"); (SRead "solutions"); (SFor [(SRead "bestSolution"); (SIf [(SWrite "bestSolution")] [])]); (SRead "bestSolution"); (SCall "Copy"); (SWrite "bestSolution"); (SRead "parallelRuns"); (SRead "bestSolution"); (SSend "resultChannel"); (SRead "interpretedParallelSolveOptions"); (SAtomic "iterationsLeft" "Store"); (SGo [(SDefer [SClose "syncResultChannel"]); (SFor [(SFor [SRead "parallelRuns"; (SSelect [("comm", [SRecv "ctx.Done"; (SWgWait "waitGroup"); (SBreak "Loop")]); ("default", [(SSend "parallelCount"); (SWgAdd "waitGroup"); (SGo [(SDefer [(SRecv "parallelCount"); (SWgDone "waitGroup")]); (SLock "bestSolutionMutex"); (SRead "bestSolution"); (SCall "Copy"); (SUnlock "bestSolutionMutex"); (SLock "solutionsMutex"); (SRead "solutions"); (SIf [(SRead "solutions"); (SRead "solutions"); (SRead "solutions"); (SWrite "solutions")] []); (SUnlock "solutionsMutex"); (SRead "parallelRuns"); (SCall "Random"); (SIf [(SCall "panic")] []); (SCallback [(SAtomic "totalIterations" "Add"); (SRead "interpretedParallelSolveOptions"); (SIf [(SCall "cancel")] [])]); (SIf [(SCall "panic")] []); (SAtomic "iterationsLeft" "Add"); (SIf [(SRecv "ctx.Done"); (SReturn)] []); (SRead "ctx"); (SCall "Solve"); (SIf [(SCall "panic")] []); (SRange "solutionChannel" [(SAtomic "totalIterations" "Load"); (SSend "syncResultChannel")])])])])]); (SRead "interpretedParallelSolveOptions"); (SIf [(SWgWait "waitGroup")] [])])]); (SGo [(SDefer [(SAtomic "totalIterations" "Load"); (SClose "resultChannel"); (SRead "bestSolution")]); (SRange "syncResultChannel" [(SIf [(SSend "resultChannel"); (SCall "cancel"); (SContinue)] []); (SRead "bestSolution"); (SIf [(SContinue)] []); (SCall "Copy"); (SLock "bestSolutionMutex"); (SWrite "bestSolution"); (SUnlock "bestSolutionMutex"); (SCall "Copy"); (SSend "resultChannel")])]); (SReturn)].

Definition pool_vars_ref : list string :=
  ["moveContainerPool"; "solutionGeneratorPool"; "unplanSolutionMove"].

Definition pool_release_helpers_ref : list string :=
  [".release"; "returnToMoveContainerPool"].

Definition pool_acquire_helpers_ref : list string :=
  ["newSolutionStopGenerator"].

Definition pool_borrowers_names_ref : list string :=
  ["SolutionVehicle.bestMovePlanSingleStop/movesPtr"; "earlinessObjectiveImpl.EstimateDeltaValue/generator"; "expressionObjectiveImpl.EstimateDeltaValue/generator"; "latestImpl.estimateDeltaScore/generator"; "maximumDurationConstraintImpl.EstimateIsViolated/generator"; "maximumImpl.EstimateDeltaValue/generator"; "maximumImpl.EstimateIsViolated/generator"; "maximumTravelDurationConstraintImpl.EstimateIsViolated/generator"; "maximumWaitStopConstraintImpl.EstimateIsViolated/generator"; "maximumWaitVehicleConstraintImpl.EstimateIsViolated/generator"; "solutionMoveStopsImpl.deltaTravelDurationValue/generator"; "solutionPlanStopsUnitImpl.unplan/move"; "vehiclesDurationObjectiveImpl.EstimateDeltaValue/generator"].

Definition pool_acquirers_names_ref : list string :=
  ["newSolutionStopGenerator/solutionStopGenerator"].

Definition seqgen_channel_shared_ref : list (string * string) :=
  [("ch", "chan"); ("sequences", "plain")].

Definition seqgen_channel_body_ref : list sk :=
  [(SIf [(SRead "sequences"); (SWrite "sequences"); (SCall "Random")] []); (SGo [(SDefer [SClose "ch"]); (SRead "sequences"); (SFor [(SSelect [("comm", [SRecv "quit"; (SReturn)]); ("comm", [SSend "ch"])])])]); (SReturn)].

Definition seqgen_rec_shared_ref : list (string * string) :=
  [].

Definition seqgen_rec_body_ref : list sk :=
  [(SIf [(SReturn)] []); (SCall "Perm"); (SIf [(SFor [(SIf [(SBreak "")] [])])] []); (SFor [(SIf [(SIf [] [(SCall "Perm")]); (SIf [(SReturn)] []); (SIf [(SBreak "")] [])] [])])].

Definition best_move_multi_shared_ref : list (string * string) :=
  [].

Definition best_move_multi_body_ref : list sk :=
  [(SDefer [SClose "quitSequenceGenerator"]); (SRange "SequenceGeneratorChannel()" []); (SReturn)].

Definition solver_solve_shared_ref : list (string * string) :=
  [("cancel", "func"); ("ctx", "plain"); ("solutions", "chan"); ("solveInformation", "plain")].

Definition solver_solve_body_ref : list sk :=
  [(SIf [(SIf [(SReturn)] [])] []); (SIf [(SReturn)] []); (SIf [(SReturn)] []); (SIf [(SReturn)] []); (SCall "Copy"); (SCall "Copy"); (SCall "Random"); (SCall "Int63"); (SRead "ctx"); (SCall "WithDeadline"); (SRead "solveInformation"); (SSend "solutions"); (SGo [(SDefer [(SClose "solutions"); (SCall "cancel")]); (SFor [(SRead "solveInformation"); (SRead "solveInformation"); (SRead "solveInformation"); (SRead "solveInformation"); (SRead "solveInformation"); (SFor [(SSelect [("comm", [SRecv "ctx.Done"; (SRead "solveInformation"); (SBreak "Loop")]); ("default", [(SRead "ctx"); (SRead "solveInformation"); (SIf [(SSend "solutions"); (SBreak "Loop")] []); (SIf [(SSend "solutions")] [])])])]); (SFor [(SRead "solveInformation")]); (SRead "solveInformation")]); (SRead "solveInformation")]); (SReturn)].

Definition solver_parallel_wrapper_shared_ref : list (string * string) :=
  [("constructionErrors", "plain"); ("initialSolutions", "plain"); ("wg", "wg")].

Definition solver_parallel_wrapper_body_ref : list sk :=
  [(SCall "WithDeadline"); (SIf [(SWgAdd "wg"); (SIf [(SReturn)] []); (SFor [(SGo [(SDefer [SWgDone "wg"]); (SIf [(SReturn)] [])])]); (SWgWait "wg"); (SRead "constructionErrors"); (SFor [(SIf [(SReturn)] [])]); (SRead "initialSolutions")] []); (SIf [(SIf [(SReturn)] [])] []); (SCall "Solve"); (SReturn)].
