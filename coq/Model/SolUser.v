(* C19, third level: a user constraint with a per-SOLUTION exact check
   (SolutionViolationCheck.DoesSolutionHaveViolations) and an estimate that
   always answers "not violated".  solution.go isFeasible asks the
   solution-level constraints after the forward pass over the vehicle that
   changed; a violation is handled like any other: the operation is rolled back.
   The rules modelled here read the routes only:
     SBalance k     the numbers of stops of any two vehicles differ by at most k
     SMaxPlanned k  at most k stops are on routes altogether
   The engine of Model/Engine.v is not changed: the solution-level check is a
   guard around its operations (sol_guard): an operation that ended Done on a
   state that violates a rule is answered Rejected and leaves the state it
   started from.  That the guarded engine is what the code does is checked by
   the engine correspondence (harness: userSolutionCons). *)
From Coq Require Import List ZArith Bool Arith.
From NR Require Import Model.Engine.
Import ListNotations.
Open Scope Z_scope.

Inductive satom := SBalance (k : Z) | SMaxPlanned (k : Z).

Definition route_sizes (s : state) : list Z := map route_nstops (st_routes s).
Definition max_size (l : list Z) : Z := fold_right Z.max 0 l.
Definition min_size (l : list Z) : Z :=
  match l with [] => 0 | x :: r => fold_right Z.min x r end.

Definition satom_violated (a : satom) (s : state) : bool :=
  match a with
  | SBalance k => k <? max_size (route_sizes s) - min_size (route_sizes s)
  | SMaxPlanned k => k <? sumZ (route_sizes s)
  end.

(* index of the first violated rule *)
Fixpoint sol_violation (atoms : list satom) (s : state) (i : nat) : option nat :=
  match atoms with
  | [] => None
  | a :: rest => if satom_violated a s then Some i else sol_violation rest s (S i)
  end.

Definition sol_ok (atoms : list satom) (s : state) : bool :=
  match sol_violation atoms s 0 with None => true | Some _ => false end.

(* the guard: [s] the state the operation started from, [res] what the engine
   answered; [base]: number of stop / vehicle level user constraints (the
   solution-level ones are numbered behind them) *)
Definition sol_guard (atoms : list satom) (base : nat) (s : state) (res : state * result) : state * result :=
  match snd res with
  | Done => match sol_violation atoms (fst res) 0 with
            | Some i => (s, Rejected (KUser (base + i)))
            | None => res
            end
  | _ => res
  end.

(* NewSolution: the empty routes go through isFeasible as well *)
Definition sf_new_solution (inp : input) (atoms : list satom) : option state :=
  match new_solution inp with
  | Some s0 => if sol_ok atoms s0 then Some s0 else None
  | None => None
  end.
