(* Nested plan units (stop groups = PlanAll, same vehicle), initial / fixed
   stops and the vehicle-level un-plan, on top of Model/Engine.v
   (definitions only).

   solution_move_stops.go Execute (member units: no bookkeeping),
   solution_plan_stops_unit.go UnPlan (member: the PARENT moves between the
   collections), solution_plan_units_unit.go UnPlan, solution_move_units.go
   Execute, solution_vehicle.go Unplan, solution.go addInitialSolution,
   model_objective_unplanned.go (costs of nested units).

   Top-level ids in the collections: a stops unit u that is no member keeps u;
   group g is  nunits + g. *)

From Coq Require Import List ZArith Bool Arith Lia.
From NR Require Import Model.Engine Model.Estimates Model.Format.
Import ListNotations.
Open Scope Z_scope.

Record ginput := mkGInput {
  gi_inp : input;
  gi_groups : list (list nat);              (* stop groups: member stops-unit indices, model order *)
  gi_initial : list (list (nat * bool))     (* per vehicle: initial stops in order, fixed flag *)
}.

Definition nunits_of (gi : ginput) : nat := length (in_units (gi_inp gi)).

Fixpoint find_index {A} (f : A -> bool) (l : list A) (i : nat) : option nat :=
  match l with [] => None | x :: r => if f x then Some i else find_index f r (S i) end.

Definition member_group (gi : ginput) (u : nat) : option nat :=
  find_index (fun g => mem_nat u g) (gi_groups gi) 0.

Definition top_of (gi : ginput) (u : nat) : nat :=
  match member_group gi u with Some g => (nunits_of gi + g)%nat | None => u end.

Definition is_group_id (gi : ginput) (id : nat) : bool := (nunits_of gi <=? id)%nat.
Definition members_of (gi : ginput) (id : nat) : list nat :=
  if is_group_id gi id then nth (id - nunits_of gi) (gi_groups gi) [] else [id].

Definition stop_fixed (gi : ginput) (x : nat) : bool :=
  existsb (fun l => existsb (fun p => Nat.eqb (fst p) x && snd p) l) (gi_initial gi).
Definition unit_fixed (gi : ginput) (u : nat) : bool :=
  existsb (stop_fixed gi) (iu_stops (get_unit (gi_inp gi) u)).
Definition top_fixed (gi : ginput) (id : nat) : bool := existsb (unit_fixed gi) (members_of gi id).

(* IsPlanned of a top-level unit (PlanAll: every member) *)
Definition top_planned (gi : ginput) (s : state) (id : nat) : bool :=
  match members_of gi id with
  | [] => false
  | ms => forallb (unit_planned (gi_inp gi) s) ms
  end.

(* ---- objective: the unplanned term reads top-level ids -------------- *)

Definition top_penalty (gi : ginput) (id : nat) : Z :=
  sumZ (map (unit_penalty (gi_inp gi)) (members_of gi id)).

Definition g_score_terms (gi : ginput) (s : state) : list Z :=
  let inp := gi_inp gi in
  let o := in_opts inp in
  (if (0 <? o_f_activation o) && existsb (fun v => negb (iv_activation v =? 0)) (in_vehicles inp)
   then [o_f_activation o * obj_activation inp s] else []) ++
  (if 0 <? o_f_travel o then [o_f_travel o * obj_travel_duration inp s] else []) ++
  (if 0 <? o_f_vehicles_duration o then [o_f_vehicles_duration o * obj_vehicles_duration inp s] else []) ++
  (if 0 <? o_f_unplanned o then [o_f_unplanned o * sumZ (map (top_penalty gi) (st_unplanned s))] else []) ++
  (* the terms that read routes only are the engine's *)
  (if (0 <? o_f_early o) && has_early inp then [o_f_early o * obj_early inp s] else []) ++
  (if (0 <? o_f_late o) && has_late inp then [o_f_late o * obj_late inp s] else []) ++
  (if (0 <? o_f_min_stops o) && has_min_stops inp then [o_f_min_stops o * obj_min_stops inp s] else []) ++
  (if 0 <? o_f_stop_balance o then [o_f_stop_balance o * obj_stop_balance inp s] else []) ++
  cap_obj_terms inp s.

Definition g_refresh (gi : ginput) (s : state) : state :=
  let t := g_score_terms gi s in
  mkState (st_routes s) (st_planned s) (st_unplanned s) (st_fixed s) t (sumZ t).

Definition with_colls (s : state) (pl un fx : list nat) : state :=
  mkState (st_routes s) pl un fx (st_scores s) (st_total s).
Definition move_to_planned (s : state) (id : nat) : state :=
  with_colls s (coll_add id (st_planned s)) (coll_remove id (st_unplanned s)) (st_fixed s).
Definition move_to_unplanned (s : state) (id : nat) : state :=
  with_colls s (coll_remove id (st_planned s)) (coll_add id (st_unplanned s)) (st_fixed s).

(* isFeasible: propagate vehicle v from position idx over [stops]; scores refreshed on success *)
Definition g_is_feasible (gi : ginput) (s : state) (v idx : nat) (stops : list nat) (temporal : bool)
  : state + cons_id :=
  let old := get_route s v in
  let pre := firstn (S idx) old in
  match propagate (gi_inp gi) v temporal (last_cell pre) (skipn (S idx) stops) with
  | inl cs => inl (g_refresh gi (set_route s v (pre ++ cs)))
  | inr k => inr k
  end.

(* ---- stops moves --------------------------------------------------- *)

(* solutionMoveStopsImpl.Execute, move marked allowed *)
Definition g_exec_move (gi : ginput) (s : state) (mv : move) : state * result :=
  let inp := gi_inp gi in
  let u := mv_unit mv in
  let v := mv_vehicle mv in
  if unit_planned inp s u || unit_fixed gi u then (s, NotExecutable) else
  let member := match member_group gi u with Some _ => true | None => false end in
  let s1 := if member then s else move_to_planned s u in
  let old_stops := route_stops (get_route s v) in
  let new_stops := insert_places 0 old_stops (mv_places mv) in
  let idx := (first_gap (mv_places mv) - 1)%nat in
  match g_is_feasible gi s1 v idx new_stops true with
  | inl s2 => (s2, Done)
  | inr k =>
      let s3 := if member then s1 else move_to_unplanned s1 u in
      match g_is_feasible gi (with_colls s (st_planned s3) (st_unplanned s3) (st_fixed s3)) v idx old_stops true with
      | inl s4 => (s4, Rejected k)
      | inr _ => (s3, UndoFailed)
      end
  end.

Definition g_move_executable (gi : ginput) (s : state) (mv : move) : bool :=
  negb (unit_planned (gi_inp gi) s (mv_unit mv)) && negb (unit_fixed gi (mv_unit mv)) &&
  negb (estimate_violated (gi_inp gi) s mv).

Definition g_exec_checked (gi : ginput) (s : state) (mv : move) : state * result :=
  if g_move_executable gi s mv then g_exec_move gi s mv else (s, NotExecutable).

(* solutionPlanStopsUnitImpl.UnPlan *)
Definition g_unplan_unit (gi : ginput) (s : state) (u : nat) : state * result :=
  let inp := gi_inp gi in
  if negb (unit_planned inp s u) || unit_fixed gi u then (s, NotExecutable) else
  match vehicle_of_unit inp s u with
  | None => (s, NotExecutable)
  | Some v =>
      let target := top_of gi u in
      let member := match member_group gi u with Some _ => true | None => false end in
      let us := iu_stops (get_unit inp u) in
      let old_stops := route_stops (get_route s v) in
      let places := places_of us 0 old_stops in
      let new_stops := filter (fun x => negb (mem_nat x us)) old_stops in
      let idx := (first_gap places - 1)%nat in
      let s1 := move_to_unplanned s target in
      match g_is_feasible gi s1 v idx new_stops true with
      | inl s2 => (s2, Done)
      | inr k =>
          (* re-insert through Execute: it swaps the collections itself only for non-members *)
          let s2 := if member then s1 else move_to_planned s1 u in
          match g_is_feasible gi (with_colls s (st_planned s2) (st_unplanned s2) (st_fixed s2)) v idx old_stops true with
          | inl s3 => (move_to_planned s3 target, Rejected k)     (* scores are NOT refreshed after this restore *)
          | inr _ => (s2, UndoFailed)
          end
      end
  end.

(* solutionPlanUnitsUnitImpl.UnPlan: always answers true once it started *)
Definition g_unplan_group (gi : ginput) (s : state) (id : nat) : state * result :=
  if negb (top_planned gi s id) || top_fixed gi id then (s, NotExecutable) else
  let s1 := move_to_unplanned s id in
  let s2 := fold_left (fun st m =>
              if unit_planned (gi_inp gi) st m then
                let '(st', r) := g_unplan_unit gi st m in
                match r with
                | Done => st'
                | _ => move_to_planned st' id        (* child failed: the group is put back, the loop goes on *)
                end
              else st) (members_of gi id) s1 in
  (s2, Done).

(* ---- units move (solution_move_units.go) --------------------------- *)

(* a member move whose gaps refer to the route as it was when the units move was
   built: each stop goes directly in front of the stop that was then at that gap *)
Record submove := mkSub { sb_unit : nat; sb_vehicle : nat; sb_places : list (nat * nat) (* stop, next stop id *) }.

Definition index_in (x : nat) (l : list nat) : nat :=
  match find_index (Nat.eqb x) l 0 with Some i => i | None => 0%nat end.

Definition sub_to_move (s : state) (sb : submove) : move :=
  let cur := route_stops (get_route s (sb_vehicle sb)) in
  mkMove (sb_unit sb) (sb_vehicle sb) (map (fun p => (fst p, index_in (snd p) cur)) (sb_places sb)).

Fixpoint undo_members (gi : ginput) (s : state) (done : list nat) : state * bool :=
  match done with                       (* most recently executed first *)
  | [] => (s, true)
  | u :: rest =>
      let '(s', r) := g_unplan_unit gi s u in
      match r with
      | Done => undo_members gi s' rest
      | _ => (s', false)
      end
  end.

Fixpoint exec_subs (gi : ginput) (id : nat) (s : state) (subs : list submove) (done : list nat) : state * result :=
  match subs with
  | [] => (s, Done)
  | sb :: rest =>
      let '(s1, r) := g_exec_move gi s (sub_to_move s sb) in
      match r with
      | Done => exec_subs gi id s1 rest (sb_unit sb :: done)
      | _ =>
          let s2 := move_to_unplanned s1 id in
          let '(s3, ok) := undo_members gi s2 done in
          (s3, if ok then (match r with Rejected k => Rejected k | _ => NotExecutable end) else UndoFailed)
      end
  end.

Definition g_exec_units (gi : ginput) (s : state) (id : nat) (subs : list submove) : state * result :=
  if top_planned gi s id || top_fixed gi id then (s, NotExecutable) else
  exec_subs gi id (move_to_planned s id) subs [].

(* ---- SolutionVehicle.Unplan ---------------------------------------- *)

Definition unit_of_stop (inp : input) (x : nat) : nat :=
  match find_index (fun u => mem_nat x (iu_stops u)) (in_units inp) 0 with Some i => i | None => 0%nat end.

Definition g_unplan_vehicle (gi : ginput) (s : state) (v : nat) : state * result :=
  let inp := gi_inp gi in
  let old := get_route s v in
  let old_stops := route_stops old in
  (* SolutionStops() includes first and last, which are dropped below; since fix cf54f08 of the
     un-plan of a vehicle a stop is left on the vehicle when its stops unit is fixed
     (one of the unit's stops carries the flag), not only when the stop itself is *)
  let removable := filter (fun x => negb (stop_fixed gi x)) old_stops in
  let inner := filter (fun x => is_input_stop inp x && negb (unit_fixed gi (unit_of_stop inp x))) removable in
  match inner with
  | [] => (s, NotExecutable)
  | _ =>
      (* the code lists the stops units of the removed stops (members on their own) *)
      let units := map (unit_of_stop inp) inner in
      let s1 := fold_left (fun st u => with_colls st (coll_remove u (st_planned st)) (coll_add u (st_unplanned st)) (st_fixed st)) units s in
      let new_stops := filter (fun x => negb (mem_nat x inner)) old_stops in
      let idx := (index_in (hd 0%nat inner) old_stops - 1)%nat in      (* previous of the first removed stop *)
      match g_is_feasible gi s1 v idx new_stops true with
      | inl s2 => (s2, Done)
      | inr k =>
          let s2 := fold_left (fun st u => with_colls st (coll_add u (st_planned st)) (coll_remove u (st_unplanned st)) (st_fixed st)) units s1 in
          match g_is_feasible gi (with_colls s (st_planned s2) (st_unplanned s2) (st_fixed s2)) v idx old_stops true with
          | inl s3 => (s3, Rejected k)    (* since fix a023d6b: the rolled-back un-plan answers false *)
          | inr _ => (s2, UndoFailed)
          end
      end
  end.

(* ---- NewSolution with initial stops (solution.go addInitialSolution) - *)

(* index (position in the route) of the first stop violating an exact check *)
Fixpoint first_violation (inp : input) (v : nat) (temporal : bool) (p : cell) (rest : list nat) (pos : nat)
  : option nat :=
  match rest with
  | [] => None
  | x :: r =>
      let c := next_cell inp v p x in
      match stop_violation inp v temporal c with
      | Some _ => Some pos
      | None => first_violation inp v temporal c r (S pos)
      end
  end.

Definition nontemporal_estimate_violated (inp : input) (s : state) (mv : move) : bool :=
  (has_attributes inp && est_attributes inp s mv) ||
  (has_capacity inp && existsb (est_capacity inp s mv) (seqn (in_nres inp))) ||
  (has_distance_limit inp && est_distance inp s mv) ||
  (has_max_stops inp && est_max_stops inp s mv).

Fixpoint dedup_nat (l : list nat) : list nat :=
  match l with [] => [] | x :: r => x :: filter (fun y => negb (Nat.eqb x y)) (dedup_nat r) end.

Inductive init_result := InitOk (s : state) (infeasible : list nat) | InitError.

(* place the initial stops of vehicle v unit by unit *)
Fixpoint place_units (gi : ginput) (v : nat) (initial : list nat) (units : list nat) (s : state)
         (infeasible : list nat) : init_result :=
  match units with
  | [] => InitOk s infeasible
  | u :: rest =>
      let inp := gi_inp gi in
      let us := filter (fun x => mem_nat x (iu_stops (get_unit inp u))) initial in   (* in initial order *)
      let on_route := route_stops (get_route s v) in
      let planned_before := fun x =>
        length (filter (fun y => mem_nat y on_route)
                       (firstn (index_in x initial) initial)) in
      let places := map (fun x => (x, S (planned_before x))) us in
      let mv := mkMove u v places in
      let root := top_of gi u in
      if nontemporal_estimate_violated inp s mv then
        if top_fixed gi root then InitError
        else place_units gi v initial rest s (coll_add root infeasible)
      else
        let new_stops := insert_places 0 on_route places in
        let idx := (first_gap places - 1)%nat in
        match g_is_feasible gi s v idx new_stops false with
        | inl s' => place_units gi v initial rest s' infeasible
        | inr _ =>
            if unit_fixed gi u then InitError
            else place_units gi v initial rest s (coll_add root infeasible)
        end
  end.

(* remove units until the whole route passes the temporal pass as well *)
Fixpoint prune_route (fuel : nat) (gi : ginput) (v : nat) (s : state) (infeasible : list nat) : init_result :=
  match fuel with
  | O => InitError
  | S fuel' =>
      let inp := gi_inp gi in
      let r := get_route s v in
      let stops := route_stops r in
      match first_violation inp v true (hd (last_cell r) r) (tl stops) 1 with
      | None => InitOk s infeasible
      | Some pos =>
          (* walk back over the last stop and over stops of fixed units *)
          let fix back (k : nat) (p : nat) : option nat :=
            match k with
            | O => None
            | S k' =>
                if Nat.eqb p 0 then None
                else
                  let x := nth p stops 0%nat in
                  if is_last_stop inp x || top_fixed gi (top_of gi (unit_of_stop inp x))
                  then back k' (p - 1)%nat else Some p
            end in
          match back (S pos) pos with
          | None => InitError
          | Some p =>
              let root := top_of gi (unit_of_stop inp (nth p stops 0%nat)) in
              let gone := flat_map (fun m => if unit_planned inp s m then iu_stops (get_unit inp m) else [])
                                   (members_of gi root) in
              (* detach only unlinks the stops: on vehicle v the loop re-propagates from the first
                 stop; on any OTHER vehicle the remaining cells keep their cached values *)
              let s' := fold_left (fun st w =>
                          if Nat.eqb w v
                          then set_route st w (from_scratch inp w (filter (fun x => negb (mem_nat x gone))
                                                                          (route_stops (get_route st w))))
                          else set_route st w (filter (fun c => negb (mem_nat (c_stop c) gone)) (get_route st w)))
                          (seqn (length (st_routes s))) s in
              prune_route fuel' gi v s' (coll_add root infeasible)
          end
      end
  end.

Fixpoint init_vehicles (gi : ginput) (vs : list nat) (s : state) : option state :=
  match vs with
  | [] => Some s
  | v :: rest =>
      let inp := gi_inp gi in
      let initial := map fst (nth v (gi_initial gi) []) in
      match initial with
      | [] => init_vehicles gi rest s
      | _ =>
          let units := dedup_nat (map (unit_of_stop inp) initial) in
          let roots := dedup_nat (map (top_of gi) units) in
          match place_units gi v initial units s [] with
          | InitError => None
          | InitOk s1 inf1 =>
              match prune_route (S (length initial)) gi v s1 inf1 with
              | InitError => None
              | InitOk s2 inf2 =>
                  let keep := filter (fun r => negb (mem_nat r inf2)) roots in
                  let s3 := fold_left (fun st r =>
                              if top_fixed gi r
                              then with_colls st (st_planned st) (coll_remove r (st_unplanned st)) (coll_add r (st_fixed st))
                              else with_colls st (coll_add r (st_planned st)) (coll_remove r (st_unplanned st)) (st_fixed st))
                            keep s2 in
                  (* final isFeasible(first, true): values and scores up to date *)
                  let r := get_route s3 v in
                  init_vehicles gi rest
                    (g_refresh gi (set_route s3 v (from_scratch inp v (route_stops r))))
              end
          end
      end
  end.

Definition g_new_solution (gi : ginput) : option state :=
  let inp := gi_inp gi in
  match new_solution inp with
  | None => None
  | Some s0 =>
      let nu := nunits_of gi in
      let tops := filter (fun u => match member_group gi u with Some _ => false | None => true end) (seqn nu)
                  ++ map (fun g => (nu + g)%nat) (seqn (length (gi_groups gi))) in
      init_vehicles gi (seqn (length (in_vehicles inp)))
                    (g_refresh gi (mkState (st_routes s0) [] tops [] [] 0))
  end.

(* ---- output (factory/format.go toSolutionOutputStops: a PlanAll unit lists the stops of all its members) *)
Definition g_format_solution (gi : ginput) (s : state) : solution_out :=
  let inp := gi_inp gi in
  let o := format_solution inp s in
  mkSolOut (flat_map (fun id => flat_map (fun u => iu_stops (get_unit inp u)) (members_of gi id)) (st_unplanned s))
           (out_vehicles o) (st_scores s) (st_total s).
