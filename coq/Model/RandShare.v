(* C12: one random stream shared by the order-generator goroutine (producer)
   and the search loop that consumes its orders (definitions only).

   solution_sequence_generator.go: the producer goroutine calls random.Perm on
   solution.Random() at every node of its recursion and hands each complete
   order over an unbuffered channel; solution_vehicle.go bestMovePlanMultipleStops
   receives an order, evaluates positions and draws from the same source on
   cost ties (solution_move.go takeBestInPlace).  After the k-th hand-over the
   producer continues its recursion (d_k draws) while the consumer works on
   order k (c_k draws); the next hand-over needs both to be finished.

   A phase is (d_k, c_k).  A schedule of a phase is an interleaving: a list of
   booleans, true = the producer draws next.  The stream is a function from
   positions to numbers (math/rand is not modelled). *)
From Coq Require Import List Bool Arith ZArith Lia.
Import ListNotations.

Definition stream := nat -> Z.

(* run one phase from position [pos]: what the producer saw, what the consumer
   saw, the new position.  A schedule that asks a finished party to draw lets
   the other party draw instead (so every list of booleans is a schedule). *)
Fixpoint run_phase (st : stream) (pos d c : nat) (sched : list bool)
  : list Z * list Z * nat :=
  match sched with
  | [] =>
      (* schedule exhausted: the producer finishes first, then the consumer *)
      (map st (seq pos d), map st (seq (pos + d) c), pos + d + c)
  | b :: rest =>
      match d, c with
      | O, O => ([], [], pos)
      | S d', O => let '(p, q, e) := run_phase st (S pos) d' O rest in (st pos :: p, q, e)
      | O, S c' => let '(p, q, e) := run_phase st (S pos) O c' rest in (p, st pos :: q, e)
      | S d', S c' =>
          if b then let '(p, q, e) := run_phase st (S pos) d' c rest in (st pos :: p, q, e)
          else let '(p, q, e) := run_phase st (S pos) d c' rest in (p, st pos :: q, e)
      end
  end.

(* all phases, one schedule per phase *)
Fixpoint run_phases (st : stream) (pos : nat) (phases : list (nat * nat)) (scheds : list (list bool))
  : list (list Z) * list (list Z) * nat :=
  match phases with
  | [] => ([], [], pos)
  | (d, c) :: rest =>
      let sched := hd [] scheds in
      let '(p, q, e) := run_phase st pos d c sched in
      let '(ps, qs, e') := run_phases st e rest (tl scheds) in
      (p :: ps, q :: qs, e')
  end.

(* the draw-free side condition under which the run is schedule independent *)
Definition phase_exclusive (ph : nat * nat) : bool := (fst ph =? 0) || (snd ph =? 0).
