(* Model of factory/format.go ToSolutionOutput on the integer domain
   (definitions only).  int(x.Seconds()) truncations are identities here. *)
From Coq Require Import List ZArith Bool Arith.
From NR Require Import Model.Engine.
Import ListNotations.
Open Scope Z_scope.

Record stop_out := mkStopOut {
  so_stop : nat;
  so_travel : Z; so_cumtravel : Z; so_duration : Z; so_waiting : Z;
  so_distance : Z; so_cumdistance : Z;
  so_times : option (Z * Z * Z)        (* arrival, start, end: only when the vehicle has a start time *)
}.

Record vehicle_out := mkVehOut {
  vo_route : list stop_out;
  vo_duration : Z; vo_travel : Z; vo_distance : Z; vo_stops_duration : Z; vo_waiting : Z
}.

Record solution_out := mkSolOut {
  out_unplanned : list nat;            (* stops of the unplanned units, unit by unit *)
  out_vehicles : list vehicle_out;
  out_terms : list Z;
  out_total : Z
}.

(* toPlannedStopOutput for cell c whose predecessor on the route is p *)
Definition stop_output (inp : input) (v : nat) (has_times : bool) (p c : cell) : stop_out :=
  let dist := if loc_valid inp (c_stop p) && loc_valid inp (c_stop c)
              then travel_distance inp (c_stop p) (c_stop c) else 0 in
  mkStopOut (c_stop c) (c_cumtravel c - c_cumtravel p) (c_cumtravel c) (c_end c - c_start c)
            (c_start c - c_arrival c) dist 0
            (if has_times then Some (c_arrival c, c_start c, c_end c) else None).

(* pairs (predecessor, cell) along a route; the first cell is its own predecessor *)
Fixpoint with_prev (p : cell) (r : list cell) : list (cell * cell) :=
  match r with [] => [] | c :: rest => (p, c) :: with_prev c rest end.

Fixpoint accumulate_distance (acc : Z) (l : list stop_out) : list stop_out :=
  match l with
  | [] => []
  | s :: rest =>
      let a := acc + so_distance s in
      mkStopOut (so_stop s) (so_travel s) (so_cumtravel s) (so_duration s) (so_waiting s)
                (so_distance s) a (so_times s) :: accumulate_distance a rest
  end.

Definition vehicle_output (inp : input) (v : nat) (r : list cell) : vehicle_out :=
  let first := hd (last_cell r) r in
  let has_times := negb (c_start first =? 0) in
  let outs := map (fun pc => stop_output inp v has_times (fst pc) (snd pc)) (with_prev first r) in
  (* stops without a valid location (missing start / end location) are not listed *)
  let listed := filter (fun s => loc_valid inp (so_stop s)) outs in
  let route := accumulate_distance 0 listed in
  let dur := c_end (last_cell r) - c_start first in
  let tr := c_cumtravel (last_cell r) in
  let dist := sumZ (map so_distance listed) in
  let sd := sumZ (map so_duration listed) in
  mkVehOut route dur tr dist sd (dur - tr - sd).

Definition format_solution (inp : input) (s : state) : solution_out :=
  mkSolOut (flat_map (fun u => iu_stops (get_unit inp u)) (st_unplanned s))
           (map (fun vr => vehicle_output inp (fst vr) (snd vr))
                (combine (seqn (length (st_routes s))) (st_routes s)))
           (st_scores s) (st_total s).
