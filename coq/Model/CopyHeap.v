(* C11: a heap model of solutionImpl.Copy driven by the field table that the
   translator extracts (definitions only).

   A solution is a list of field locations (one per mutable field of the
   table, in table order); the heap maps a location to its contents.  Copy
   treats each field as the table says: a field with a fresh treatment gets a
   new location holding equal contents, any other field keeps the original's
   location (an alias).  Operations on a solution write through that
   solution's own field locations only (this is the part that is an assumption
   about the Go code, not a theorem). *)
From Coq Require Import List String Bool Arith ZArith.
From NR Require Import Model.Discipline.
Import ListNotations.

Definition loc := nat.
Record heap := mkHeap { h_next : loc; h_mem : list (loc * list Z) }.

Fixpoint h_read (m : list (loc * list Z)) (l : loc) : list Z :=
  match m with
  | [] => []
  | (k, v) :: r => if Nat.eqb k l then v else h_read r l
  end.

Definition read (h : heap) (l : loc) : list Z := h_read (h_mem h) l.
Definition store (h : heap) (l : loc) (v : list Z) : heap := mkHeap (h_next h) ((l, v) :: h_mem h).
Definition alloc (h : heap) (v : list Z) : heap * loc :=
  (mkHeap (S (h_next h)) ((h_next h, v) :: h_mem h), h_next h).

Fixpoint set_nthZ (l : list Z) (i : nat) (x : Z) : list Z :=
  match l, i with
  | [], _ => []
  | _ :: t, O => x :: t
  | a :: t, S k => a :: set_nthZ t k x
  end.

(* which rows of the table are heap fields, and how Copy treats them *)
Definition is_heap_field (row : string * string * string) : bool := mutable_class (snd (fst row)).
Definition treated_fresh (row : string * string * string) : bool := row_ok row.
Definition treatments (table : list (string * string * string)) : list bool :=
  map treated_fresh (filter is_heap_field table).

(* Copy *)
Fixpoint copy_fields (fresh : list bool) (h : heap) (s : list loc) : heap * list loc :=
  match fresh, s with
  | f :: fr, l :: sr =>
      let '(h1, l1) := if f then alloc h (read h l) else (h, l) in
      let '(h2, rest) := copy_fields fr h1 sr in
      (h2, l1 :: rest)
  | _, _ => (h, [])
  end.

(* an operation on a solution: overwrite element [i] of field [f] *)
Record wop := mkW { w_field : nat; w_index : nat; w_value : Z }.

Definition apply_w (s : list loc) (h : heap) (w : wop) : heap :=
  match nth_error s (w_field w) with
  | Some l => store h l (set_nthZ (read h l) (w_index w) (w_value w))
  | None => h
  end.

Definition apply_ws (s : list loc) (h : heap) (ws : list wop) : heap := fold_left (apply_w s) ws h.

(* everything observable of a solution *)
Definition obs (h : heap) (s : list loc) : list (list Z) := map (read h) s.

(* a well-formed solution: its locations are allocated and pairwise distinct *)
Definition wf_sol (h : heap) (s : list loc) : Prop :=
  NoDup s /\ Forall (fun l => l < h_next h) s.
