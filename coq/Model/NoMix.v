(* The no-mix constraint (definitions only).

   model_constraint_no_mix.go: every stop may carry one mix item that inserts
   or removes a quantity of a named content.  The EXACT rule is the per-stop
   data update [UpdateConstraintStopData], which walks the route and returns an
   ERROR (not a rejection: the engine has no way to treat it as a violated
   constraint, it aborts the operation with an engine error, and the start
   solution construction of the parallel solver used to panic on it) when a
   stop inserts into a different non-empty content or removes what is not
   there.  The FAST rule is [EstimateIsViolated], which looks at the stops of
   the move only.  A move the estimate lets through is executed and the exact
   rule then runs over the whole new route: the estimate has to be SOUND with
   respect to the error condition of the exact rule.

   Names are natural numbers (0 plays the role of the empty string the code
   uses for "no content"; an item may use it as its name as well, the code
   compares strings and so does the model).  Quantities and tour numbers are
   unbounded integers. *)

From Coq Require Import List ZArith Bool Arith.
Import ListNotations.
Open Scope Z_scope.

Inductive item := NoItem | Ins (name : nat) (q : Z) | Rem (name : nat) (q : Z).

Record ndata := mkND { nd_name : nat; nd_q : Z; nd_tour : Z; nd_removing : bool }.

(* data of the first stop of a vehicle *)
Definition nd_first : ndata := mkND 0 0 0 false.

(* UpdateConstraintStopData for a stop that is not the first stop of its
   vehicle: [p] is the data of the previous stop; None is the returned error *)
Definition nm_update (p : ndata) (it : item) : option ndata :=
  match it with
  | Ins n q =>
      if negb (Nat.eqb (nd_name p) n) && negb (nd_q p =? 0) then None
      else Some (mkND n (nd_q p + q) (if nd_q p =? 0 then nd_tour p + 1 else nd_tour p) false)
  | Rem n q =>
      if negb (Nat.eqb (nd_name p) n) || (nd_q p <? q) then None
      else Some (mkND (nd_name p) (nd_q p - q) (nd_tour p) (negb (nd_q p =? q)))
  | NoItem =>
      Some (mkND (if nd_q p =? 0 then 0%nat else nd_name p) (nd_q p) (nd_tour p) (nd_removing p))
  end.

(* the data of the stops behind a stop with data [p]; None = an error somewhere *)
Fixpoint nm_run (p : ndata) (its : list item) : option (list ndata) :=
  match its with
  | [] => Some []
  | it :: r =>
      match nm_update p it with
      | None => None
      | Some d => match nm_run d r with None => None | Some ds => Some (d :: ds) end
      end
  end.

(* ---- the estimate --------------------------------------------------- *)

(* a stop of the move: its item, and the data of StopPosition.Previous() when
   that is a planned stop (None: the previous stop is the preceding stop of the
   move itself) *)
Definition mstop := (item * option ndata)%type.

Definition has_item (it : item) : bool := match it with NoItem => false | _ => true end.

(* the first stop of the move that carries an item, together with the data of
   the closest planned stop in front of it ([cur]: the closest one seen so far) *)
Fixpoint nm_first (cur : ndata) (ms : list mstop) : option (ndata * item * list mstop) :=
  match ms with
  | [] => None
  | (it, p) :: r =>
      let cur' := match p with Some d => d | None => cur end in
      if has_item it then Some (cur', it, r) else nm_first cur' r
  end.

(* the loop over the remaining stops; true = violated.  [strict = true] is the
   code as repaired (a unit may only remove what it inserted itself earlier in
   the move), [strict = false] the earlier code which added the quantity
   [base] found in front of the first stop *)
Fixpoint nm_rest (strict : bool) (base : Z) (tour : Z) (cname : nat) (delta : Z) (ms : list mstop) : bool :=
  match ms with
  | [] => false
  | (it, p) :: r =>
      let bad_prev := match p with
                      | Some d => negb (nd_tour d =? tour) || negb (Nat.eqb (nd_name d) cname)
                      | None => false
                      end in
      if bad_prev then true else
      match it with
      | Ins n q => if negb (Nat.eqb cname n) then true else nm_rest strict base tour cname (delta + q) r
      | Rem n q =>
          if negb (Nat.eqb cname n) || ((if strict then delta else base + delta) <? q) then true
          else nm_rest strict base tour cname (delta - q) r
      | NoItem => nm_rest strict base tour cname delta r
      end
  end.

(* EstimateIsViolated; true = violated.  [d0] is the data of the planned stop in
   front of the first stop of the move.  [skip = false] is the earlier code that
   only looked at the first stop of the move to decide whether the move carries
   items at all. *)
Definition nm_estimate_gen (skip strict : bool) (d0 : ndata) (ms : list mstop) : bool :=
  let start := if skip then nm_first d0 ms
               else match ms with
                    | [] => None
                    | (it, _) :: r => if has_item it then Some (d0, it, r) else None
                    end in
  match start with
  | None => false
  | Some (_, NoItem, _) => false
  | Some (_, Rem _ _, _) => true
  | Some (p, Ins n q, r) =>
      if negb (Nat.eqb (nd_name p) n) && negb (nd_q p =? 0) then true
      else nm_rest strict (nd_q p)
                   (if nd_q p =? 0 then nd_tour p + 1 else nd_tour p)
                   (if nd_q p =? 0 then n else nd_name p) q r
  end.

Definition nm_estimate : ndata -> list mstop -> bool := nm_estimate_gen true true.

(* ---- a move on a route ---------------------------------------------- *)

(* a route is the list of the items of the stops behind the first stop of the
   vehicle (the last stop of the vehicle included: it never carries an item);
   a move places items at gaps: gap g = in front of element g of that list *)
Definition place := (item * nat)%type.

Fixpoint insert_at {A} (pos : nat) (route : list A) (pl : list (A * nat)) : list A :=
  match route with
  | [] => map fst pl
  | x :: rest =>
      let here := filter (fun p => Nat.eqb (snd p) pos) pl in
      let later := filter (fun p => negb (Nat.eqb (snd p) pos)) pl in
      map fst here ++ x :: insert_at (S pos) rest later
  end.

Definition nm_merge (route : list item) (pl : list place) : list item := insert_at 0 route pl.

(* the stops of the move as the estimate sees them: [ds] is the data of the
   first stop followed by the data of the elements of the route, so that the
   stop in front of gap g has data [nth g ds] *)
Fixpoint nm_mstops (ds : list ndata) (prev_gap : option nat) (pl : list place) : list mstop :=
  match pl with
  | [] => []
  | (it, g) :: r =>
      let p := match prev_gap with
               | Some g' => if Nat.eqb g' g then None else Some (nth g ds nd_first)
               | None => Some (nth g ds nd_first)
               end in
      (it, p) :: nm_mstops ds (Some g) r
  end.

Definition nm_estimate_places (skip strict : bool) (ds : list ndata) (pl : list place) : bool :=
  match pl with
  | [] => false
  | (_, g) :: _ => nm_estimate_gen skip strict (nth g ds nd_first) (nm_mstops ds None pl)
  end.

(* gaps are non-decreasing and in front of an element of the route (nothing
   is placed behind the last stop of the vehicle) *)
Fixpoint places_ok (n : nat) (lo : nat) (pl : list place) : bool :=
  match pl with
  | [] => true
  | (_, g) :: r => Nat.leb lo g && Nat.ltb g n && places_ok n g r
  end.

(* ---- what Lock validates about a plan unit --------------------------- *)

Definition item_delta (it : item) : Z :=
  match it with NoItem => 0 | Ins _ q => q | Rem _ q => - q end.

Definition item_name (it : item) : option nat :=
  match it with NoItem => None | Ins n _ => Some n | Rem n _ => Some n end.

(* what has been inserted minus what has been removed of content [n] *)
Definition name_sum (n : nat) (its : list item) : Z :=
  fold_right Z.add 0
    (map (fun it => match item_name it with
                    | Some m => if Nat.eqb m n then item_delta it else 0
                    | None => 0
                    end) its).

(* NewNoMixConstraint: a positive delta inserts, a negative one removes, a
   delta of zero is no item *)
Definition item_of_delta (name : nat) (d : Z) : item :=
  if 0 <? d then Ins name d else if d <? 0 then Rem name (- d) else NoItem.

Definition items_positive (its : list item) : bool :=
  forallb (fun it => match it with NoItem => true | Ins _ q => 0 <? q | Rem _ q => 0 <? q end) its.

(* no item uses the empty string (0) as the name of its content: the code uses
   it for "nothing on board" (validated when the model is locked) *)
Definition items_named (its : list item) : bool :=
  forallb (fun it => match item_name it with Some O => false | _ => true end) its.

Definition unit_balanced (its : list item) : bool :=
  fold_right Z.add 0 (map item_delta its) =? 0.

Fixpoint unit_one_name (nm : option nat) (its : list item) : bool :=
  match its with
  | [] => true
  | it :: r =>
      match item_name it, nm with
      | None, _ => unit_one_name nm r
      | Some n, None => unit_one_name (Some n) r
      | Some n, Some m => Nat.eqb n m && unit_one_name nm r
      end
  end.

(* ---- the scripted history the harness runs --------------------------- *)

(* a state: the stops on the one vehicle (model stop indices, first and last
   stop of the vehicle not included).  Items are looked up by stop index. *)
Record nm_input := mkNMInput { nmi_items : list item; nmi_units : list (list nat) }.

Definition nm_item_of (inp : nm_input) (s : nat) : item := nth s (nmi_items inp) NoItem.

Definition nm_route_items (inp : nm_input) (route : list nat) : list item :=
  map (nm_item_of inp) route ++ [NoItem].

Inductive nm_result := NMDone | NMNotDone | NMError.

(* plan the stops [ss] at gaps [gs] (the harness builds the move through
   NewMoveStops, asks IsExecutable, then Executes).  Returns: the answer of the
   estimate (executable), the result and the new route. *)
Definition nm_plan (inp : nm_input) (route : list nat) (pl : list (nat * nat))
  : bool * nm_result * list nat :=
  let its := nm_route_items inp route in
  match nm_run nd_first its with
  | None => (false, NMError, route)                       (* not reachable: the route in hand is consistent *)
  | Some ds =>
      let ipl := map (fun sg => (nm_item_of inp (fst sg), snd sg)) pl in
      let violated := nm_estimate_places true true (nd_first :: ds) ipl in
      if violated then (false, NMNotDone, route)
      else
        let route' := insert_at 0 route pl in
        match nm_run nd_first (nm_route_items inp route') with
        | None => (true, NMError, route)
        | Some _ => (true, NMDone, route')
        end
  end.

(* un-plan the unit with stops [ss] *)
Definition nm_unplan (inp : nm_input) (route : list nat) (ss : list nat) : nm_result * list nat :=
  let route' := filter (fun x => negb (existsb (Nat.eqb x) ss)) route in
  match nm_run nd_first (nm_route_items inp route') with
  | None => (NMError, route)
  | Some _ => (NMDone, route')
  end.

(* the contents the public Value() reports for the stops of the route *)
Definition nm_contents (inp : nm_input) (route : list nat) : list (nat * Z) :=
  match nm_run nd_first (nm_route_items inp route) with
  | None => []
  | Some ds => map (fun d => (nd_name d, nd_q d)) (removelast ds)
  end.

(* ---- scripted histories ---------------------------------------------- *)

Inductive nm_op := NPlan (u : nat) (gaps : list nat) | NUnplan (u : nat).

Inductive nm_out :=
| OBad                                         (* no such unit / wrong number of gaps / gaps not sorted or out of range *)
| OSkip                                        (* plan of a planned unit, un-plan of an unplanned one *)
| OPlan (executable : bool) (r : nm_result)
| OUnplan (r : nm_result).

Definition nm_unit (inp : nm_input) (u : nat) : list nat := nth u (nmi_units inp) [].

Definition nm_on_route (route : list nat) (ss : list nat) : bool :=
  existsb (fun s => existsb (Nat.eqb s) route) ss.

Fixpoint gaps_ok (n : nat) (lo : nat) (gs : list nat) : bool :=
  match gs with
  | [] => true
  | g :: r => Nat.leb lo g && Nat.ltb g n && gaps_ok n g r
  end.

Definition nm_step (inp : nm_input) (route : list nat) (op : nm_op) : nm_out * list nat :=
  match op with
  | NPlan u gaps =>
      let ss := nm_unit inp u in
      if (Nat.leb (length (nmi_units inp)) u) || (Nat.eqb (length ss) 0) then (OBad, route)
      else if nm_on_route route ss then (OSkip, route)
      else if negb (Nat.eqb (length gaps) (length ss)) || negb (gaps_ok (S (length route)) 0 gaps) then (OBad, route)
      else let '(ex, r, route') := nm_plan inp route (combine ss gaps) in (OPlan ex r, route')
  | NUnplan u =>
      let ss := nm_unit inp u in
      if (Nat.leb (length (nmi_units inp)) u) || (Nat.eqb (length ss) 0) then (OBad, route)
      else if negb (nm_on_route route ss) then (OSkip, route)
      else let '(r, route') := nm_unplan inp route ss in (OUnplan r, route')
  end.

Fixpoint nm_history (inp : nm_input) (route : list nat) (ops : list nm_op) : list (nm_out * list nat) :=
  match ops with
  | [] => []
  | op :: r => let '(o, route') := nm_step inp route op in (o, route') :: nm_history inp route' r
  end.

(* what the model is built from: every stop carries the item of [nmi_items];
   the units are disjoint lists of stops; quantities are positive (NewNoMixConstraint
   ignores an item of quantity zero), contents have a name and the items of a
   unit add up to zero (validated when the model is locked) *)
Fixpoint nodupb (l : list nat) : bool :=
  match l with [] => true | x :: r => negb (existsb (Nat.eqb x) r) && nodupb r end.

Definition nm_input_ok (inp : nm_input) : bool :=
  items_positive (nmi_items inp)
  && items_named (nmi_items inp)
  && nodupb (concat (nmi_units inp))
  && forallb (fun s => Nat.ltb s (length (nmi_items inp))) (concat (nmi_units inp))
  && forallb (fun ss => unit_balanced (map (nm_item_of inp) ss)) (nmi_units inp).

Definition out_is_error (o : nm_out) : bool :=
  match o with OPlan _ NMError => true | OUnplan NMError => true | _ => false end.

(* validate (run when the model is locked, i.e. by NewSolution): no items at
   all, or items of both kinds, all with a name, and every unit balanced with one name *)
Definition nm_validate (inp : nm_input) : bool :=
  let nins := length (filter (fun it => match it with Ins _ _ => true | _ => false end) (nmi_items inp)) in
  let nrem := length (filter (fun it => match it with Rem _ _ => true | _ => false end) (nmi_items inp)) in
  (Nat.eqb nins 0 && Nat.eqb nrem 0)
  || (negb (Nat.eqb nins 0) && negb (Nat.eqb nrem 0)
      && items_named (nmi_items inp)
      && forallb (fun ss => unit_balanced (map (nm_item_of inp) ss)
                            && unit_one_name None (map (nm_item_of inp) ss)) (nmi_units inp)).
