(* Borrow discipline of sync.Pool buffers (definitions only).

   solution_vehicle.go moveContainerPool / returnToMoveContainerPool /
   bestMovePlanSingleStop, solution_plan_stops_unit.go unplanSolutionMove /
   unplan, solution_stop_generator.go solutionGeneratorPool /
   newSolutionStopGenerator / release and its callers.

   A pooled buffer is process-global memory: whatever goroutine calls Get next
   may be handed the buffer another goroutine has just Put back.  It is only
   safe when every borrower uses the buffer strictly between its Get and its
   Put.  The translator turns every function that borrows from a pool into a
   [pstm] program over the events of ONE buffer (Get, Put, Use of the buffer or
   of an alias of it); [pcheck] decides the discipline on all paths. *)

From Coq Require Import List Bool.
Import ListNotations.

Inductive pev := PGet | PPut | PUse.

Inductive pstm :=
| PE (e : pev)
| PReturn
| PBreak
| PContinue
| PIf (a b : list pstm)
| PLoop (body : list pstm).     (* zero or more iterations *)

(* ---- the automaton of one buffer along one path -------------------- *)

Inductive bstate := BFresh | BHeld | BReleased.

Definition bstep (s : bstate) (e : pev) : option bstate :=
  match e, s with
  | PGet, BFresh => Some BHeld
  | PGet, BReleased => Some BHeld          (* a new borrow *)
  | PGet, BHeld => Some BHeld   (* the held buffer is dropped (a leak, left to the garbage collector): harmless *)
  | PPut, BHeld => Some BReleased
  | PPut, _ => None                        (* put without holding / double put *)
  | PUse, BHeld => Some BHeld
  | PUse, _ => None                        (* use before Get or after Put *)
  end.

Fixpoint brun (s : bstate) (tr : list pev) : option bstate :=
  match tr with
  | [] => Some s
  | e :: r => match bstep s e with Some s' => brun s' r | None => None end
  end.

(* ---- abstract interpretation over sets of automaton states --------- *)

Record pset := mkPset { may_fresh : bool; may_held : bool; may_rel : bool }.

Definition pempty : pset := mkPset false false false.
Definition pjoin (a b : pset) : pset :=
  mkPset (may_fresh a || may_fresh b) (may_held a || may_held b) (may_rel a || may_rel b).
Definition pin (s : bstate) (a : pset) : bool :=
  match s with BFresh => may_fresh a | BHeld => may_held a | BReleased => may_rel a end.
Definition psingle (s : bstate) : pset :=
  match s with BFresh => mkPset true false false | BHeld => mkPset false true false | BReleased => mkPset false false true end.
Definition pnonempty (a : pset) : bool := may_fresh a || may_held a || may_rel a.

(* transfer of one event: ok flag and the set afterwards *)
Definition ptransfer (e : pev) (a : pset) : bool * pset :=
  match e with
  | PGet => (true, if pnonempty a then psingle BHeld else pempty)
  | PPut => (negb (may_fresh a || may_rel a), if pnonempty a then psingle BReleased else pempty)
  | PUse => (negb (may_fresh a || may_rel a), a)
  end.

Record pouts := mkPouts { o_ok : bool; o_norm : pset; o_brk : pset; o_cont : pset; o_ret : pset }.

Fixpoint pcheck (fuel : nat) (body : list pstm) (st : pset) : pouts :=
  match fuel with
  | O => mkPouts false pempty pempty pempty pempty
  | S fuel' =>
    match body with
    | [] => mkPouts true st pempty pempty pempty
    | s :: rest =>
        let first :=
          match s with
          | PE e => let '(ok, st') := ptransfer e st in mkPouts ok st' pempty pempty pempty
          | PReturn => mkPouts true pempty pempty pempty st
          | PBreak => mkPouts true pempty st pempty pempty
          | PContinue => mkPouts true pempty pempty st pempty
          | PIf a b =>
              let oa := pcheck fuel' a st in
              let ob := pcheck fuel' b st in
              mkPouts (o_ok oa && o_ok ob) (pjoin (o_norm oa) (o_norm ob)) (pjoin (o_brk oa) (o_brk ob))
                      (pjoin (o_cont oa) (o_cont ob)) (pjoin (o_ret oa) (o_ret ob))
          | PLoop b =>
              (* the set of states at the loop head grows at most three times *)
              let grow := fun inn => let o := pcheck fuel' b inn in pjoin inn (pjoin (o_norm o) (o_cont o)) in
              let inn := grow (grow (grow (grow st))) in
              let o := pcheck fuel' b inn in
              mkPouts (o_ok o) (pjoin inn (o_brk o)) pempty pempty (o_ret o)
          end in
        let r := pcheck fuel' rest (o_norm first) in
        mkPouts (o_ok first && o_ok r) (o_norm r) (pjoin (o_brk first) (o_brk r))
                (pjoin (o_cont first) (o_cont r)) (pjoin (o_ret first) (o_ret r))
    end
  end.

(* a borrower function: starts without the buffer; leaking it (leaving the
   function, or getting another one, while still holding it) is allowed, using
   it after Put / putting it twice is not; no break/continue escapes a loop *)
Definition borrower_ok (body : list pstm) : bool :=
  let o := pcheck 200 body (psingle BFresh) in
  o_ok o && negb (pnonempty (o_brk o)) && negb (pnonempty (o_cont o)).

(* at every return and at the end of the body the buffer is not held any more
   (no leak out of the function) *)
Definition no_leak (body : list pstm) : bool :=
  let o := pcheck 200 body (psingle BFresh) in
  negb (may_held (o_norm o)) && negb (may_held (o_ret o)).

(* an acquiring helper (newSolutionStopGenerator): hands the buffer to its
   caller, i.e. every exit holds it *)
Definition acquirer_ok (body : list pstm) : bool :=
  let o := pcheck 200 body (psingle BFresh) in
  o_ok o && negb (may_fresh (o_norm o) || may_rel (o_norm o)) && negb (may_fresh (o_ret o) || may_rel (o_ret o)) &&
  negb (pnonempty (o_brk o)) && negb (pnonempty (o_cont o)).

(* ---- paths of a program (what the theorems quantify over) ----------- *)

Inductive pexit := ENorm | EBrk | ECont | ERet.

(* [ppath body tr ex]: executing [body] can produce the events [tr] and leave
   by [ex]; loops run any number of iterations *)
Inductive ppath : list pstm -> list pev -> pexit -> Prop :=
| pp_nil : ppath [] [] ENorm
| pp_ev : forall e rest tr ex, ppath rest tr ex -> ppath (PE e :: rest) (e :: tr) ex
| pp_ret : forall rest, ppath (PReturn :: rest) [] ERet
| pp_brk : forall rest, ppath (PBreak :: rest) [] EBrk
| pp_cont : forall rest, ppath (PContinue :: rest) [] ECont
| pp_if_a_norm : forall a b rest t1 t2 ex, ppath a t1 ENorm -> ppath rest t2 ex -> ppath (PIf a b :: rest) (t1 ++ t2) ex
| pp_if_b_norm : forall a b rest t1 t2 ex, ppath b t1 ENorm -> ppath rest t2 ex -> ppath (PIf a b :: rest) (t1 ++ t2) ex
| pp_if_a_exit : forall a b rest t1 ex, ex <> ENorm -> ppath a t1 ex -> ppath (PIf a b :: rest) t1 ex
| pp_if_b_exit : forall a b rest t1 ex, ex <> ENorm -> ppath b t1 ex -> ppath (PIf a b :: rest) t1 ex
| pp_loop_done : forall b rest t1 t2 ex, ploop b t1 false -> ppath rest t2 ex -> ppath (PLoop b :: rest) (t1 ++ t2) ex
| pp_loop_ret : forall b rest t1, ploop b t1 true -> ppath (PLoop b :: rest) t1 ERet
(* [ploop b tr returned]: some iterations of the loop body; [returned]: left by a return *)
with ploop : list pstm -> list pev -> bool -> Prop :=
| pl_stop : forall b, ploop b [] false
| pl_iter : forall b t1 t2 r ex, (ex = ENorm \/ ex = ECont) -> ppath b t1 ex -> ploop b t2 r -> ploop b (t1 ++ t2) r
| pl_break : forall b t1, ppath b t1 EBrk -> ploop b t1 false
| pl_ret : forall b t1, ppath b t1 ERet -> ploop b t1 true.

(* ---- the pool and its borrowers running concurrently ---------------- *)

(* thread events on a concrete buffer id *)
Inductive tev := TGet (b : nat) | TPut (b : nat) | TUse (b : nat).

Record pool := mkPool { free : list nat; next_id : nat; holder : list (nat * nat) (* buffer, thread *) }.

Definition pool_init : pool := mkPool [] 0 [].

Fixpoint remove_nat (x : nat) (l : list nat) : list nat :=
  match l with [] => [] | y :: r => if Nat.eqb x y then r else y :: remove_nat x r end.
Definition holder_of (p : pool) (b : nat) : option nat :=
  match find (fun h => Nat.eqb (fst h) b) (holder p) with Some h => Some (snd h) | None => None end.
Definition drop_holder (p : pool) (b : nat) : list (nat * nat) :=
  filter (fun h => negb (Nat.eqb (fst h) b)) (holder p).

(* one step of thread [t]: sync.Pool hands out a free buffer or a new one, never a held one *)
Definition pool_step (p : pool) (t : nat) (e : tev) : option pool :=
  match e with
  | TGet b =>
      if existsb (Nat.eqb b) (free p) then Some (mkPool (remove_nat b (free p)) (next_id p) ((b, t) :: holder p))
      else if Nat.eqb b (next_id p) then Some (mkPool (free p) (S (next_id p)) ((b, t) :: holder p))
      else None
  | TPut b =>
      match holder_of p b with
      | Some t' => if Nat.eqb t t' then Some (mkPool (b :: free p) (next_id p) (drop_holder p b)) else None
      | None => None
      end
  | TUse b => Some p
  end.
