(* Models of the enumeration behind best-move search (definitions only).

   solution_move_stops_generator.go  combineAscending, generate (mustBeNeighbours)
   solution_sequence_generator.go    sequenceGenerator (DAG-constrained sampler)
   solution_vehicle.go               bestMovePlanSingleStop (selection structure)

   Random choices are explicit: rand.Perm calls consume a tape of
   permutations; theorems quantify over all tapes. *)

From Coq Require Import List Arith Bool ZArith Lia.
Import ListNotations.

(* ------------------------------------------------------------------ *)
(* combineAscending(combination, n, m)                                  *)
(* ------------------------------------------------------------------ *)

(* all continuations of length n with values in lo..m, non-decreasing *)
Fixpoint combine_ascending (n m lo : nat) : list (list nat) :=
  match n with
  | O => [[]]
  | S n' => flat_map (fun x => map (cons x) (combine_ascending n' m x)) (seq lo (m + 1 - lo))
  end.

Definition all_combinations (n m : nat) : list (list nat) := combine_ascending n m 1.

(* ------------------------------------------------------------------ *)
(* generate: with direct successors                                    *)
(* ------------------------------------------------------------------ *)

(* [split g]: gap g (before target position g) lies between two stops that
   must stay neighbours; [pair i]: stops i and i+1 of the sequence being
   placed are a direct pair of their own unit.
   [prev]: gap chosen for the previous stop (0 when none), [k]: index of the
   stop being placed. *)
Fixpoint generate (split : nat -> bool) (pair : nat -> bool) (n m : nat) (k prev : nat) : list (list nat) :=
  match n with
  | O => [[]]
  | S n' =>
      (* for i := start; i < m; i++ : candidate gap i+1; the loop breaks at the first
         gap different from prev when (k-1, k) is a direct pair *)
      let lo := if Nat.eqb prev 0 then 1 else prev in
      let cands := seq lo (m + 1 - lo) in
      let usable := filter (fun g => negb (split g)) cands in
      let usable := if (negb (Nat.eqb k 0)) && pair (k - 1)
                    then filter (fun g => Nat.eqb g prev) usable   (* same gap only, then break *)
                    else usable in
      flat_map (fun g => map (cons g) (generate split pair n' m (S k) g)) usable
  end.

Definition generate_all (split : nat -> bool) (pair : nat -> bool) (n m : nat) : list (list nat) :=
  generate split pair n m 0 0.

(* the specification: a placement is acceptable *)
Fixpoint nondecreasing (l : list nat) : bool :=
  match l with
  | a :: (b :: _) as t => (a <=? b) && nondecreasing t
  | _ => true
  end.

Fixpoint pairs_together (pair : nat -> bool) (k : nat) (l : list nat) : bool :=
  match l with
  | a :: (b :: _) as t => (negb (pair k) || Nat.eqb a b) && pairs_together pair (S k) t
  | _ => true
  end.

Definition placement_ok (split : nat -> bool) (pair : nat -> bool) (n m : nat) (l : list nat) : bool :=
  Nat.eqb (length l) n && forallb (fun g => (1 <=? g) && (g <=? m) && negb (split g)) l &&
  nondecreasing l && pairs_together pair 0 l.

(* ------------------------------------------------------------------ *)
(* Orders of a unit: specification                                     *)
(* ------------------------------------------------------------------ *)

Definition arc := (nat * nat * bool)%type.   (* origin, destination, direct *)

Fixpoint index_of (x : nat) (l : list nat) : nat :=
  match l with [] => 0 | y :: r => if Nat.eqb x y then 0 else S (index_of x r) end.

(* IsAllowed, specification form: a linear extension keeping direct pairs adjacent *)
Definition order_ok (arcs : list arc) (l : list nat) : bool :=
  forallb (fun a => let '(o, d, dir) := a in
                    (index_of o l <? index_of d l) &&
                    (negb dir || Nat.eqb (index_of d l) (S (index_of o l)))) arcs.

Fixpoint insert_everywhere (x : nat) (l : list nat) : list (list nat) :=
  match l with
  | [] => [[x]]
  | y :: r => (x :: l) :: map (cons y) (insert_everywhere x r)
  end.

Fixpoint permutations (l : list nat) : list (list nat) :=
  match l with
  | [] => [[]]
  | x :: r => flat_map (insert_everywhere x) (permutations r)
  end.

Definition all_orders (stops : list nat) (arcs : list arc) : list (list nat) :=
  filter (order_ok arcs) (permutations stops).

(* ------------------------------------------------------------------ *)
(* sequenceGenerator, literally                                        *)
(* ------------------------------------------------------------------ *)

Definition get_perm (tape : list (list nat)) (n : nat) : list nat * list (list nat) :=
  match tape with
  | p :: rest => (p, rest)
  | [] => (seq 0 n, [])
  end.

Definition indeg := list (nat * nat).     (* stop -> in-degree *)
Definition deg_of (d : indeg) (x : nat) : nat :=
  match find (fun p => Nat.eqb (fst p) x) d with Some p => snd p | None => 0 end.
Definition deg_add (d : indeg) (x : nat) (up : bool) : indeg :=
  map (fun p => if Nat.eqb (fst p) x then (fst p, if up then S (snd p) else pred (snd p)) else p) d.

Definition outbound (arcs : list arc) (x : nat) : list arc :=
  filter (fun a => Nat.eqb (fst (fst a)) x) arcs.

Definition order_outs (outs : list arc) (tape : list (list nat)) : list arc * list (list nat) :=
  match outs with
  | [_] => (outs, tape)
  | _ => let '(p, t) := get_perm tape (length outs) in
         (map (fun i => nth i outs (0, 0, false)) p, t)
  end.

Record sg := mkSg { sg_out : list (list nat); sg_max : Z; sg_tape : list (list nat); sg_deg : indeg }.

(* [direct] : option stop that must come next (directSuccessor) *)
Fixpoint seqgen (reset : bool) (fuel : nat) (stops : list nat) (arcs : list arc) (used : list nat) (sequence : list nat)
         (direct : option nat) (st : sg) : sg :=
  match fuel with
  | O => st
  | S fuel' =>
    if Nat.eqb (length sequence) (length stops) then
      (* atomic.AddInt64(maxSequences, -1) >= 0 *)
      let m' := (sg_max st - 1)%Z in
      if (0 <=? m')%Z then mkSg (sg_out st ++ [sequence]) m' (sg_tape st) (sg_deg st)
      else mkSg (sg_out st) m' (sg_tape st) (sg_deg st)
    else
      let pt := get_perm (sg_tape st) (length stops) in
      let perm := fst pt in
      let tape1 := snd pt in
      let order := match direct with
                   | Some d => match find (fun i => Nat.eqb (nth i stops 0) d) perm with
                               | Some i => [i] | None => perm end
                   | None => perm end in
      let is_direct := match direct with Some _ => true | None => false end in
      (* the loop; [ds] is the function-level variable directSuccessor.  [reset = true] is
         the code after the fix: commit (the variable is cleared for every candidate);
         [reset = false] is the pinned code, where a candidate without a direct arc
         inherited the successor recorded for an earlier candidate *)
      (fix loop (cands : list nat) (ds : option nat) (st : sg) : sg :=
         match cands with
         | [] => st
         | idx :: rest =>
             let stop := nth idx stops 0 in
             if negb (existsb (Nat.eqb idx) used) && Nat.eqb (deg_of (sg_deg st) stop) 0 then
               let outs := outbound arcs stop in
               (* arcs are visited in a random order when there are several; the order only
                  matters for which direct successor is recorded last *)
               let oo := order_outs outs (sg_tape st) in
               let outs_ord := fst oo in
               let tape2 := snd oo in
               let deg1 := fold_left (fun (d : indeg) (a : arc) => deg_add d (snd (fst a)) false) outs_ord (sg_deg st) in
               let ds1 := fold_left (fun (ds : option nat) (a : arc) => if snd a then Some (snd (fst a)) else ds) outs_ord
                                    (if reset then None else ds) in
               let st1 := seqgen reset fuel' stops arcs (idx :: used) (sequence ++ [stop]) ds1
                                 (mkSg (sg_out st) (sg_max st) tape2 deg1) in
               if (sg_max st1 =? 0)%Z then st1
               else
                 let deg2 := fold_left (fun (d : indeg) (a : arc) => deg_add d (snd (fst a)) true) outs (sg_deg st1) in
                 let st2 := mkSg (sg_out st1) (sg_max st1) (sg_tape st1) deg2 in
                 if is_direct then st2 else loop rest ds1 st2
             else loop rest ds st
         end) order None (mkSg (sg_out st) (sg_max st) tape1 (sg_deg st))
  end.

Definition initial_deg (stops : list nat) (arcs : list arc) : indeg :=
  map (fun x => (x, length (filter (fun a => Nat.eqb (snd (fst a)) x) arcs))) stops.

(* SequenceGeneratorChannel for a unit with more than one stop *)
Definition sequence_generator_gen (reset : bool) (stops : list nat) (arcs : list arc) (sample : Z) (tape : list (list nat))
  : list (list nat) :=
  sg_out (seqgen reset (S (length stops)) stops arcs [] [] None (mkSg [] sample tape (initial_deg stops arcs))).

(* the current code *)
Definition sequence_generator := sequence_generator_gen true.
(* the pinned code before the fix: commit *)
Definition sequence_generator_stale := sequence_generator_gen false.

(* ------------------------------------------------------------------ *)
(* bestMovePlanSingleStop: selection structure                         *)
(* ------------------------------------------------------------------ *)

(* positions 1..m; [allowed g] = checkConstraints on position g; [skip g] = the
   violated constraint hints SkipVehicle; [cost g] = estimateDeltaScore.
   Returns the chosen gap (None: not executable).  Ties are broken by the coin
   tape (true = take the later one). *)
Fixpoint pick_best (cost : nat -> Z) (cands : list nat) (best : option nat) (coins : list bool)
  : option nat * list bool :=
  match cands with
  | [] => (best, coins)
  | g :: rest =>
      match best with
      | None => pick_best cost rest (Some g) coins
      | Some b =>
          if (cost g <? cost b)%Z then pick_best cost rest (Some g) coins
          else if (cost g =? cost b)%Z then
            match coins with
            | c :: cs => pick_best cost rest (if c then Some g else Some b) cs
            | [] => pick_best cost rest (Some b) []
            end
          else pick_best cost rest (Some b) coins
      end
  end.

Definition best_single_stop (m : nat) (allowed skip : nat -> bool) (cost : nat -> Z) (coins : list bool)
           (sorted_by_cost : list nat -> list nat)   (* the sort-and-retry order: any cost-sorted permutation *)
  : option nat :=
  match seq 1 m with
  | [] => None
  | first :: rest =>
      if negb (allowed first) && skip first then None
      else
        let cands := (if allowed first then [first] else []) ++ rest in
        match cands with
        | [] => None
        | _ =>
            let '(b, _) := pick_best cost cands None coins in
            match b with
            | Some g => if allowed g then Some g
                        else find allowed (sorted_by_cost cands)
            | None => None
            end
        end
  end.
