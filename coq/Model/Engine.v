(* Executable model of the nextroute solution engine for models built from the
   JSON input schema (factory + engine fused).  Definitions only.

   Source anchors (pinned commit):
     solution.go            isFeasible (forward propagation, exact checks, scores),
                            NewSolution / newVehicle, Copy
     solution_move_stops.go Execute / attach (plan, rollback)
     solution_plan_stops_unit.go UnPlan / unplan (un-plan, re-insert on violation)
     solution_stop.go       attach / detach
     model_vehicle_type.go  TemporalValues
     model_stop.go          ToEarliestStartValue; common/rangecheck.go Check
     model_maximum.go, model_latest.go, model_constraint_maximum_*.go,
     model_constraint_attributes.go  (exact checks)
     model_objective_*.go   Value
     factory/*.go           how JSON fields become expressions / constraints
     factory/duration_groups_expression.go, factory/model.go  duration groups

   All quantities are integers (the correspondence domain is integer-valued
   inputs, on which the float64 computations of the code are exact). *)

From Coq Require Import List ZArith Bool Arith Lia.
Import ListNotations.
Open Scope Z_scope.

(* ------------------------------------------------------------------ *)
(* Input (what the JSON says, after decoding)                          *)
(* ------------------------------------------------------------------ *)

Record istop := mkIStop {
  is_quantity : list Z;          (* per resource; JSON sign (negative = pick up) *)
  is_duration : Z;
  is_windows : list (Z * Z);     (* start time windows, seconds, as given *)
  is_max_wait : option Z;
  is_penalty : Z;                (* unplanned_penalty *)
  is_attrs : list nat;           (* compatibility attributes *)
  is_target : option Z;          (* target_arrival_time *)
  is_early_pen : Z;              (* early_arrival_time_penalty *)
  is_late_pen : Z                (* late_arrival_time_penalty *)
}.

Record ivehicle := mkIVehicle {
  iv_capacity : option (list Z); (* None: no capacity field *)
  iv_start_level : list Z;
  iv_start_time : Z;             (* epoch (0) when absent *)
  iv_end_time : option Z;
  iv_max_duration : option Z;
  iv_max_stops : option Z;
  iv_max_distance : option Z;
  iv_max_wait : option Z;
  iv_attrs : list nat;
  iv_activation : Z;             (* activation_penalty *)
  iv_has_start : bool;           (* start_location present *)
  iv_has_end : bool;
  iv_min_stops : Z;              (* min_stops (0 when absent) *)
  iv_min_stops_pen : Z;          (* min_stops_penalty *)
  (* stop_duration_multiplier as a fraction num/den (1 and 1 when absent; den > 0) *)
  iv_mult_num : Z;
  iv_mult_den : Z
}.

(* a precedence unit: connected component of the precedes/succeeds graph *)
Record iunit := mkIUnit {
  iu_stops : list nat;                   (* model order = DAG insertion order *)
  iu_arcs : list (nat * nat * bool)      (* origin, destination, direct *)
}.

Record options := mkOptions {
  o_dis_capacity : bool; o_dis_distance : bool; o_dis_max_duration : bool;
  o_dis_end_time : bool; o_dis_windows : bool; o_dis_max_stops : bool;
  o_dis_max_wait_stop : bool; o_dis_max_wait_vehicle : bool; o_dis_attributes : bool;
  o_dis_start_time : bool; o_dis_durations : bool;
  (* objective factors; 0 switches the term off (factory appends a term only when > 0) *)
  o_f_activation : Z; o_f_travel : Z; o_f_vehicles_duration : Z; o_f_unplanned : Z;
  o_dis_dgroups : bool;          (* duration groups disabled: group durations count as 0 *)
  (* more objective factors: early arrival, late arrival, min stops, stop balance *)
  o_f_early : Z; o_f_late : Z; o_f_min_stops : Z; o_f_stop_balance : Z;
  o_dis_multipliers : bool;      (* stop duration multipliers disabled: every multiplier counts as 1 *)
  (* capacity as an objective (objectives.capacities): resource index, factor, offset; the factory installs the
     term only for a resource whose capacity constraint is switched off *)
  o_cap_obj : list (nat * (Z * Z))
}.

(* a user-supplied constraint (C19): an exact check with an estimate that
   always answers "not violated".  The check is a bound on one cached field of
   the stop it is asked about; checked at every stop, or only at the vehicle's
   last stop (a vehicle-level check).  [ua_temporal]: the constraint declares
   IsTemporal (it is skipped by the non-temporal pass). *)
Inductive ufield := UPos | UArrival | UStart | UEnd | UCumTravel | UWait | ULevel (r : nat).
Record uatom := mkUAtom { ua_field : ufield; ua_max : Z; ua_vehicle_level : bool; ua_temporal : bool }.

Record input := mkInput {
  in_user : list uatom;
  in_stops : list istop;
  in_vehicles : list ivehicle;
  in_units : list iunit;              (* every stop in exactly one unit *)
  in_duration : list (list Z);        (* (n + 2v) x (n + 2v) *)
  in_distance : list (list Z);
  in_nres : nat;                      (* number of resource names *)
  in_opts : options;
  in_dgroups : list (list nat * Z)    (* duration groups: disjoint sets of stops, group duration *)
}.

(* ------------------------------------------------------------------ *)
(* Lookups (total, with explicit defaults that wf excludes)            *)
(* ------------------------------------------------------------------ *)

Definition nthZ (l : list Z) (i : nat) : Z := nth i l 0.
Definition mat (m : list (list Z)) (i j : nat) : Z := nthZ (nth i m []) j.

Definition nstops (inp : input) : nat := length (in_stops inp).
(* model stop index of vehicle v's first / last stop *)
Definition first_stop (inp : input) (v : nat) : nat := (nstops inp + 2 * v)%nat.
Definition last_stop (inp : input) (v : nat) : nat := (nstops inp + 2 * v + 1)%nat.
Definition is_input_stop (inp : input) (s : nat) : bool := (s <? nstops inp)%nat.
Definition vehicle_of_end (inp : input) (s : nat) : nat := ((s - nstops inp) / 2)%nat.
Definition is_first_stop (inp : input) (s : nat) : bool :=
  negb (is_input_stop inp s) && Nat.even (s - nstops inp).
Definition is_last_stop (inp : input) (s : nat) : bool :=
  negb (is_input_stop inp s) && Nat.odd (s - nstops inp).

Definition dflt_stop : istop := mkIStop [] 0 [] None 0 [] None 0 0.
Definition dflt_vehicle : ivehicle :=
  mkIVehicle None [] 0 None None None None None [] 0 true true 0 0 1 1.
Definition get_stop (inp : input) (s : nat) : istop := nth s (in_stops inp) dflt_stop.
Definition get_vehicle (inp : input) (v : nat) : ivehicle := nth v (in_vehicles inp) dflt_vehicle.

(* location validity (model_vehicle_type.go TemporalValues) *)
Definition loc_valid (inp : input) (s : nat) : bool :=
  if is_input_stop inp s then true
  else let v := get_vehicle inp (vehicle_of_end inp s) in
       if Nat.even (s - nstops inp) then iv_has_start v else iv_has_end v.

Definition travel_duration (inp : input) (a b : nat) : Z :=
  if loc_valid inp a && loc_valid inp b then mat (in_duration inp) a b else 0.

(* the distance expression indexes the matrix whatever the validity *)
Definition travel_distance (inp : input) (a b : nat) : Z := mat (in_distance inp) a b.

Definition stop_duration (inp : input) (s : nat) : Z :=
  if o_dis_durations (in_opts inp) then 0
  else if is_input_stop inp s then is_duration (get_stop inp s) else 0.

(* duration groups (model_vehicle_type.go TemporalValues, durationGroupsExpression):
   the group duration of [to]'s group is paid when [from] is not in that group *)
Fixpoint dgroup_find (gs : list (list nat * Z)) (i : nat) (s : nat) : option nat :=
  match gs with
  | [] => None
  | (ss, _) :: r => if existsb (Nat.eqb s) ss then Some i else dgroup_find r (S i) s
  end.
Definition dgroup_of (inp : input) (s : nat) : option nat := dgroup_find (in_dgroups inp) 0 s.
Definition dgroup_duration (inp : input) (g : nat) : Z := snd (nth g (in_dgroups inp) ([], 0)).
Definition dgroup_extra (inp : input) (from to : nat) : Z :=
  if o_dis_dgroups (in_opts inp) then 0 else
  match dgroup_of inp to with
  | None => 0
  | Some g =>
      match dgroup_of inp from with
      | Some g' => if Nat.eqb g g' then 0 else dgroup_duration inp g
      | None => dgroup_duration inp g
      end
  end.
(* the unscaled time spent at [to] coming from [from]: [stop_duration_on] below
   for a vehicle with multiplier 1 (or with the multipliers disabled) *)
Definition stop_duration_at (inp : input) (from to : nat) : Z :=
  stop_duration inp to + dgroup_extra inp from to.

(* per-vehicle stop duration multiplier (model_vehicle_type.go TemporalValues,
   factory stop duration multiplier expression): time.Duration(seconds * m),
   a truncation of a non-negative value, applied to the own duration and to
   the group duration separately; the identity when multipliers are disabled *)
Definition scale_duration (inp : input) (v : nat) (d : Z) : Z :=
  if o_dis_multipliers (in_opts inp) then d
  else let ve := get_vehicle inp v in
       if (iv_mult_den ve <=? 0) then d else (d * iv_mult_num ve) / iv_mult_den ve.
Definition stop_duration_on (inp : input) (v : nat) (from to : nat) : Z :=
  scale_duration inp v (stop_duration inp to) + scale_duration inp v (dgroup_extra inp from to).

Definition stop_windows (inp : input) (s : nat) : list (Z * Z) :=
  if o_dis_windows (in_opts inp) then []
  else if is_input_stop inp s then is_windows (get_stop inp s) else [].

(* ------------------------------------------------------------------ *)
(* Window lookup: common/rangecheck.go                                 *)
(* ------------------------------------------------------------------ *)

(* toSlotInfo for the slot of minute i (second = 60 i), windows sorted.
   Returns (inInterval, next.Min or -1).  The third branch of the Go loop
   (guarded by i+1 < len(intervals), a comparison of a minute index with the
   number of intervals) is reproduced literally. *)
Fixpoint slot_scan (second : Z) (i : Z) (nint : Z) (prev_max : option Z)
         (ws : list (Z * Z)) : bool * Z :=
  match ws with
  | [] => (false, -1)
  | (mn, mx) :: rest =>
      if (mn <=? second) && (second <? mx) then (true, -1)
      else if (second <? mn) && (0 <=? i - 1) &&
              (match prev_max with Some pm => pm <=? second | None => false end)
           then (false, mn)
      else if (mx <=? second) && (i + 1 <? nint) &&
              (match rest with (mn2, _) :: _ => second <? mn2 | [] => false end)
           then (false, match rest with (mn2, _) :: _ => mn2 | [] => -1 end)
      else slot_scan second i nint (Some mx) rest
  end.

Definition last_max (ws : list (Z * Z)) : Z := snd (last ws (0, 0)).
Definition first_min (ws : list (Z * Z)) : Z := fst (hd (0, 0) ws).

(* Check(tf) *)
Definition window_check (ws : list (Z * Z)) (t : Z) : bool * Z :=
  let minimum := Z.quot (first_min ws) 60 in
  let maximum := Z.quot (last_max ws) 60 + 1 in
  let tm := Z.quot t 60 in
  let idx := tm - minimum in
  if idx <? 0 then (false, first_min ws)
  else if maximum - minimum <=? idx then (false, -1)
  else slot_scan (tm * 60) tm (Z.of_nat (length ws)) None ws.

(* ToEarliestStartValue *)
Definition to_earliest_start (ws : list (Z * Z)) (arrival : Z) : Z :=
  match ws with
  | [] => arrival
  | _ => let '(inw, opening) := window_check ws arrival in
         if inw then arrival else if 0 <? opening then opening else arrival
  end.

(* TemporalValues: (travel, arrival, start, end) *)
Definition temporal_values (inp : input) (v : nat) (departure : Z) (from to : nat) : Z * Z * Z * Z :=
  let travel := travel_duration inp from to in
  let arrival := departure + travel in
  let es := to_earliest_start (stop_windows inp to) arrival in
  let start := Z.max arrival es in
  (travel, arrival, start, start + stop_duration_on inp v from to).

(* ------------------------------------------------------------------ *)
(* Expressions cached per stop: one level per resource, then distance  *)
(* ------------------------------------------------------------------ *)

(* value of resource r when arriving at stop [to] (sign flipped by the factory:
   a positive value consumes capacity); the vehicle's first stop carries the
   start level *)
Definition resource_value (inp : input) (v : nat) (r : nat) (to : nat) : Z :=
  if is_input_stop inp to then - nthZ (is_quantity (get_stop inp to)) r
  else 0.

Definition start_level (inp : input) (v : nat) (r : nat) : Z :=
  match iv_capacity (get_vehicle inp v) with
  | Some _ => nthZ (iv_start_level (get_vehicle inp v)) r
  | None => 0     (* startLevels() only reads vehicles that have a capacity *)
  end.

Definition capacity (inp : input) (v : nat) (r : nat) : Z :=
  match iv_capacity (get_vehicle inp v) with
  | Some c => nthZ c r
  | None => 0
  end.

(* the composed distance expression: the matrix for vehicles with a limit,
   the constant 0 for the others *)
Definition distance_value (inp : input) (v : nat) (from to : nat) : Z :=
  match iv_max_distance (get_vehicle inp v) with
  | Some _ => travel_distance inp from to
  | None => 0
  end.

(* ------------------------------------------------------------------ *)
(* Routes                                                              *)
(* ------------------------------------------------------------------ *)

Record cell := mkCell {
  c_stop : nat;
  c_travel : Z;          (* travel duration to this stop *)
  c_cumtravel : Z;
  c_arrival : Z;
  c_start : Z;
  c_end : Z;
  c_levels : list Z;     (* cumulative value per resource *)
  c_cumdist : Z;         (* cumulative value of the distance-limit expression *)
  c_wait_acc : Z;        (* maximumWaitVehicle accumulated wait *)
  c_pos : nat
}.

Fixpoint seqn (n : nat) : list nat := match n with O => [] | S k => seqn k ++ [k] end.

(* newVehicle: the first stop's cached values *)
Definition first_cell (inp : input) (v : nat) : cell :=
  let st := if o_dis_start_time (in_opts inp) then 0 else iv_start_time (get_vehicle inp v) in
  mkCell (first_stop inp v) 0 0 st st st
         (map (fun r => start_level inp v r) (seqn (in_nres inp)))
         (distance_value inp v (first_stop inp v) (first_stop inp v))
         0 0.

(* one step of the forward pass of isFeasible *)
Definition next_cell (inp : input) (v : nat) (p : cell) (s : nat) : cell :=
  let '(travel, arrival, start, en) := temporal_values inp v (c_end p) (c_stop p) s in
  let wait := if is_last_stop inp s then 0 else start - arrival in
  mkCell s travel (c_cumtravel p + travel) arrival start en
         (map (fun r => nthZ (c_levels p) r + resource_value inp v r s) (seqn (in_nres inp)))
         (c_cumdist p + distance_value inp v (c_stop p) s)
         (c_wait_acc p + wait)
         (S (c_pos p)).

(* ------------------------------------------------------------------ *)
(* Exact checks (DoesStopHaveViolations / DoesVehicleHaveViolations)   *)
(* ------------------------------------------------------------------ *)

Definition latest_start (inp : input) (s : nat) : option Z :=
  match stop_windows inp s with
  | [] => None
  | ws => Some (last_max ws)
  end.

(* latest end at the vehicle's last stop: min(end_time, start + max_duration) *)
Definition latest_end (inp : input) (v : nat) : option Z :=
  let veh := get_vehicle inp v in
  let o := in_opts inp in
  let e1 := if o_dis_end_time o then None else iv_end_time veh in
  let e2 := if o_dis_max_duration o then None
            else match iv_max_duration veh with
                 | Some d => Some ((if o_dis_start_time o then 0 else iv_start_time veh) + d)
                 | None => None end in
  match e1, e2 with
  | Some a, Some b => Some (Z.min a b)
  | Some a, None => Some a
  | None, Some b => Some b
  | None, None => None
  end.

Definition any_vehicle {A} (f : ivehicle -> option A) (inp : input) : bool :=
  existsb (fun v => match f v with Some _ => true | None => false end) (in_vehicles inp).
Definition any_stop {A} (f : istop -> option A) (inp : input) : bool :=
  existsb (fun s => match f s with Some _ => true | None => false end) (in_stops inp).

(* which constraints the factory installs at all *)
Definition has_capacity (inp : input) : bool :=
  negb (o_dis_capacity (in_opts inp)) &&
  (existsb (fun s => negb (match is_quantity s with [] => true | _ => false end)) (in_stops inp)
   || any_vehicle iv_capacity inp).
Definition has_distance_limit (inp : input) : bool :=
  negb (o_dis_distance (in_opts inp)) && any_vehicle iv_max_distance inp.
Definition has_max_stops (inp : input) : bool :=
  negb (o_dis_max_stops (in_opts inp)) && any_vehicle iv_max_stops inp.
Definition has_max_wait_stop (inp : input) : bool :=
  negb (o_dis_max_wait_stop (in_opts inp)) && any_stop is_max_wait inp.
Definition has_max_wait_vehicle (inp : input) : bool :=
  negb (o_dis_max_wait_vehicle (in_opts inp)) && any_vehicle iv_max_wait inp.
Definition has_latest_start (inp : input) : bool :=
  negb (o_dis_windows (in_opts inp)) &&
  existsb (fun s => negb (match is_windows s with [] => true | _ => false end)) (in_stops inp).
Definition has_latest_end (inp : input) : bool :=
  (negb (o_dis_end_time (in_opts inp)) && any_vehicle iv_end_time inp) ||
  (negb (o_dis_max_duration (in_opts inp)) && any_vehicle iv_max_duration inp).

Inductive cons_id := KCapacity (r : nat) | KDistance | KLatestStart | KLatestEnd
                   | KMaxWaitStop | KMaxWaitVehicle | KMaxStops | KAttributes | KUser (i : nat).

Definition ufield_value (inp : input) (c : cell) (f : ufield) : Z :=
  match f with
  | UPos => Z.of_nat (c_pos c) | UArrival => c_arrival c | UStart => c_start c | UEnd => c_end c
  | UCumTravel => c_cumtravel c | UWait => c_start c - c_arrival c
  | ULevel r => if has_capacity inp then nthZ (c_levels c) r else 0   (* no capacity constraint: no such expression *)
  end.

(* index of the first user constraint whose exact check rejects cell c *)
Fixpoint user_violation (inp : input) (temporal : bool) (c : cell) (i : nat) (us : list uatom) : option nat :=
  match us with
  | [] => None
  | a :: rest =>
      if (temporal || negb (ua_temporal a)) &&
         (negb (ua_vehicle_level a) || is_last_stop inp (c_stop c)) &&
         (ua_max a <? ufield_value inp c (ua_field a))
      then Some i else user_violation inp temporal c (S i) rest
  end.

(* stop-level exact check of all installed constraints at one cell;
   [temporal]: includeTemporal of isFeasible *)
Definition builtin_violation (inp : input) (v : nat) (temporal : bool) (c : cell) : option cons_id :=
  let s := c_stop c in
  let cap_viol :=
    if has_capacity inp then
      find (fun r => (capacity inp v r <? nthZ (c_levels c) r) || (nthZ (c_levels c) r <? 0))
           (seqn (in_nres inp))
    else None in
  match cap_viol with
  | Some r => Some (KCapacity r)
  | None =>
  if has_distance_limit inp &&
     match iv_max_distance (get_vehicle inp v) with
     | Some d => (d <? c_cumdist c) || (c_cumdist c <? 0)
     | None => false end
  then Some KDistance else
  if negb temporal then None else
  if has_latest_end inp &&
     match (if is_last_stop inp s then latest_end inp v else None) with
     | Some l => l <? c_end c | None => false end
  then Some KLatestEnd else
  if has_latest_start inp &&
     match latest_start inp s with Some l => l <? c_start c | None => false end
  then Some KLatestStart else
  if has_max_wait_stop inp &&
     match (if is_input_stop inp s then is_max_wait (get_stop inp s) else None) with
     | Some w => w <? c_start c - c_arrival c
     | None => false end
  then Some KMaxWaitStop else
  if has_max_wait_vehicle inp &&
     match iv_max_wait (get_vehicle inp v) with
     | Some w => w <? c_wait_acc c
     | None => false end
  then Some KMaxWaitVehicle else None
  end.

(* built-in constraints first, then the user's (AddConstraint order) *)
Definition stop_violation (inp : input) (v : nat) (temporal : bool) (c : cell) : option cons_id :=
  match builtin_violation inp v temporal c with
  | Some k => Some k
  | None => match user_violation inp temporal c 0 (in_user inp) with
            | Some i => Some (KUser i)
            | None => None
            end
  end.

(* forward pass from the cached cell [p] over the stops [rest]: new cells, or
   the first violation (cells after it are not recomputed by the code; the
   model does not represent them) *)
Fixpoint propagate (inp : input) (v : nat) (temporal : bool) (p : cell) (rest : list nat)
  : list cell + cons_id :=
  match rest with
  | [] => inl []
  | s :: rest' =>
      let c := next_cell inp v p s in
      match stop_violation inp v temporal c with
      | Some k => inr k
      | None =>
          match propagate inp v temporal c rest' with
          | inl cs => inl (c :: cs)
          | inr k => inr k
          end
      end
  end.

(* independent recomputation of a whole route from its stop sequence *)
Fixpoint cells_from (inp : input) (v : nat) (p : cell) (rest : list nat) : list cell :=
  match rest with
  | [] => []
  | s :: rest' => let c := next_cell inp v p s in c :: cells_from inp v c rest'
  end.

Definition from_scratch (inp : input) (v : nat) (stops : list nat) : list cell :=
  match stops with
  | [] => []
  | _ :: rest => first_cell inp v :: cells_from inp v (first_cell inp v) rest
  end.

(* ------------------------------------------------------------------ *)
(* State                                                               *)
(* ------------------------------------------------------------------ *)

Record state := mkState {
  st_routes : list (list cell);     (* per vehicle: first cell, interior, last cell *)
  st_planned : list nat;            (* unit indices; kept as duplicate-free lists *)
  st_unplanned : list nat;
  st_fixed : list nat;
  st_scores : list Z;               (* one per installed objective term *)
  st_total : Z
}.

Definition route_stops (r : list cell) : list nat := map c_stop r.
Definition get_route (s : state) (v : nat) : list cell := nth v (st_routes s) [].

Fixpoint set_nth {A} (l : list A) (i : nat) (x : A) : list A :=
  match l, i with
  | [], _ => []
  | _ :: t, O => x :: t
  | h :: t, S k => h :: set_nth t k x
  end.

Definition set_route (s : state) (v : nat) (r : list cell) : state :=
  mkState (set_nth (st_routes s) v r) (st_planned s) (st_unplanned s) (st_fixed s) (st_scores s) (st_total s).

Definition mem_nat (x : nat) (l : list nat) : bool := existsb (Nat.eqb x) l.
Definition coll_add (x : nat) (l : list nat) : list nat := if mem_nat x l then l else l ++ [x].
Definition coll_remove (x : nat) (l : list nat) : list nat := filter (fun y => negb (Nat.eqb x y)) l.

Definition get_unit (inp : input) (u : nat) : iunit := nth u (in_units inp) (mkIUnit [] []).

Definition stop_on_route (s : state) (x : nat) : bool :=
  existsb (fun r => mem_nat x (route_stops r)) (st_routes s).

(* solutionPlanStopsUnitImpl.IsPlanned: all stops planned (and at least one) *)
Definition unit_planned (inp : input) (s : state) (u : nat) : bool :=
  match iu_stops (get_unit inp u) with
  | [] => false
  | l => forallb (stop_on_route s) l
  end.

(* ------------------------------------------------------------------ *)
(* Objective                                                           *)
(* ------------------------------------------------------------------ *)

Definition last_cell (r : list cell) : cell := last r (mkCell 0 0 0 0 0 0 [] 0 0 0).
Definition route_empty (r : list cell) : bool := (length r <=? 2)%nat.

Definition sumZ (l : list Z) : Z := fold_right Z.add 0 l.

(* vehicles duration: end(last) - start(first) of every vehicle (an empty
   vehicle contributes the trip from its start to its end location) *)
Definition obj_vehicles_duration (inp : input) (s : state) : Z :=
  sumZ (map (fun r => c_end (last_cell r) - c_start (hd (last_cell r) r)) (st_routes s)).

Definition obj_travel_duration (inp : input) (s : state) : Z :=
  sumZ (map (fun r => c_cumtravel (last_cell r)) (st_routes s)).

Definition unit_penalty (inp : input) (u : nat) : Z :=
  sumZ (map (fun x => is_penalty (get_stop inp x)) (iu_stops (get_unit inp u))).

Definition obj_unplanned (inp : input) (s : state) : Z :=
  sumZ (map (unit_penalty inp) (st_unplanned s)).

Definition obj_activation (inp : input) (s : state) : Z :=
  sumZ (map (fun vr => if route_empty (snd vr) then 0 else iv_activation (fst vr))
            (combine (in_vehicles inp) (st_routes s))).

(* early / late arrival (model_objective_earliness.go, lateness of the latest
   objective): stops with a target arrival time.  Early: the stops strictly
   between first and last; late: every stop behind the first one. *)
Definition stop_target (inp : input) (x : nat) : option Z :=
  if is_input_stop inp x then is_target (get_stop inp x) else None.
Definition inner_cells (r : list cell) : list cell := removelast (tl r).
Definition early_of (inp : input) (c : cell) : Z :=
  match stop_target inp (c_stop c) with
  | Some t => is_early_pen (get_stop inp (c_stop c)) * Z.max 0 (t - c_arrival c)
  | None => 0
  end.
Definition late_of (inp : input) (c : cell) : Z :=
  match stop_target inp (c_stop c) with
  | Some t => is_late_pen (get_stop inp (c_stop c)) * Z.max 0 (c_arrival c - t)
  | None => 0
  end.
Definition obj_early (inp : input) (s : state) : Z :=
  sumZ (map (fun r => sumZ (map (early_of inp) (inner_cells r))) (st_routes s)).
Definition obj_late (inp : input) (s : state) : Z :=
  sumZ (map (fun r => sumZ (map (late_of inp) (tl r))) (st_routes s)).

(* min stops (model_objective_min_stops.go): quadratic in the shortfall, empty
   vehicles are free; stop balance (model_objective_stop_balance.go): the
   largest number of stops on one vehicle *)
Definition route_nstops (r : list cell) : Z := Z.of_nat (length r - 2).
Definition obj_min_stops (inp : input) (s : state) : Z :=
  sumZ (map (fun vr =>
              let v := fst vr in let n := route_nstops (snd vr) in
              if (n =? 0) || (iv_min_stops v =? 0) || (iv_min_stops_pen v =? 0) then 0
              else if n <? iv_min_stops v then iv_min_stops_pen v * (iv_min_stops v - n) * (iv_min_stops v - n) else 0)
            (combine (in_vehicles inp) (st_routes s))).
Definition obj_stop_balance (inp : input) (s : state) : Z :=
  fold_right Z.max 0 (map route_nstops (st_routes s)).

(* capacity excess (model_maximum.go maximumImpl.Value as an objective): per vehicle the excess of the level over the
   capacity - at the vehicle's last stop when the expression has no negative value (nothing is ever dropped off), else
   at EVERY stop of the route, the vehicle's own first and last stop included; the offset is added once when there is
   any excess *)
Definition cap_has_neg (inp : input) (r : nat) : bool :=
  existsb (fun st => 0 <? nthZ (is_quantity st) r) (in_stops inp).
Definition obj_capacity_excess (inp : input) (s : state) (r : nat) (offset : Z) : Z :=
  let total :=
    sumZ (map (fun vr =>
                 let maxv := capacity inp (fst vr) r in
                 if cap_has_neg inp r
                 then sumZ (map (fun c => Z.max 0 (nthZ (c_levels c) r - maxv)) (snd vr))
                 else Z.max 0 (nthZ (c_levels (last_cell (snd vr))) r - maxv))
              (combine (seqn (length (in_vehicles inp))) (st_routes s))) in
  if 0 <? total then total + offset else total.
Definition cap_obj_terms (inp : input) (s : state) : list Z :=
  let o := in_opts inp in
  flat_map (fun e => let '(r, (f, off)) := e in
                     if o_dis_capacity o && (0 <? f) then [f * obj_capacity_excess inp s r off] else [])
           (o_cap_obj o).

(* which of these terms the factory installs *)
Definition has_early (inp : input) : bool :=
  existsb (fun st => match is_target st with Some _ => negb (is_early_pen st =? 0) | None => false end) (in_stops inp).
Definition has_late (inp : input) : bool :=
  existsb (fun st => match is_target st with Some _ => negb (is_late_pen st =? 0) | None => false end) (in_stops inp).
Definition has_min_stops (inp : input) : bool :=
  existsb (fun v => negb (iv_min_stops v =? 0) && negb (iv_min_stops_pen v =? 0)) (in_vehicles inp).

Definition score_terms (inp : input) (s : state) : list Z :=
  let o := in_opts inp in
  (if (0 <? o_f_activation o) && existsb (fun v => negb (iv_activation v =? 0)) (in_vehicles inp)
   then [o_f_activation o * obj_activation inp s] else []) ++
  (if 0 <? o_f_travel o then [o_f_travel o * obj_travel_duration inp s] else []) ++
  (if 0 <? o_f_vehicles_duration o then [o_f_vehicles_duration o * obj_vehicles_duration inp s] else []) ++
  (if 0 <? o_f_unplanned o then [o_f_unplanned o * obj_unplanned inp s] else []) ++
  (if (0 <? o_f_early o) && has_early inp then [o_f_early o * obj_early inp s] else []) ++
  (if (0 <? o_f_late o) && has_late inp then [o_f_late o * obj_late inp s] else []) ++
  (if (0 <? o_f_min_stops o) && has_min_stops inp then [o_f_min_stops o * obj_min_stops inp s] else []) ++
  (if 0 <? o_f_stop_balance o then [o_f_stop_balance o * obj_stop_balance inp s] else []) ++
  cap_obj_terms inp s.

Definition refresh_scores (inp : input) (s : state) : state :=
  let t := score_terms inp s in
  mkState (st_routes s) (st_planned s) (st_unplanned s) (st_fixed s) t (sumZ t).

(* ------------------------------------------------------------------ *)
(* isFeasible on vehicle v from position idx (the cell at idx is cached) *)
(* ------------------------------------------------------------------ *)

(* [stops]: the whole new stop sequence of vehicle v.  The cells up to and
   including position idx are taken from the cache, the rest is recomputed.
   On success scores are refreshed. *)
Definition is_feasible (inp : input) (s : state) (v : nat) (idx : nat) (stops : list nat)
           (temporal : bool) : state + cons_id :=
  let old := get_route s v in
  let pre := firstn (S idx) old in
  match propagate inp v temporal (last_cell pre) (skipn (S idx) stops) with
  | inl cs => inl (refresh_scores inp (set_route s v (pre ++ cs)))
  | inr k => inr k
  end.

(* ------------------------------------------------------------------ *)
(* Moves                                                               *)
(* ------------------------------------------------------------------ *)

(* a stops move: the unit, the vehicle, and for each stop of the unit (in the
   order in which the stops are to appear) the gap it goes into: gap g means
   "directly before the stop currently at route position g" (1 <= g <= len-1).
   Gaps are non-decreasing. *)
Record move := mkMove { mv_unit : nat; mv_vehicle : nat; mv_places : list (nat * nat) }.

(* insert the placed stops into a stop sequence *)
Fixpoint insert_places (pos : nat) (route : list nat) (places : list (nat * nat)) : list nat :=
  match route with
  | [] => map fst places
  | x :: rest =>
      let here := filter (fun p => Nat.eqb (snd p) pos) places in
      let later := filter (fun p => negb (Nat.eqb (snd p) pos)) places in
      map fst here ++ x :: insert_places (S pos) rest later
  end.

Definition first_gap (places : list (nat * nat)) : nat :=
  match places with [] => 1%nat | (_, g) :: _ => g end.

Inductive result := Done | Rejected (k : cons_id) | NotExecutable | UndoFailed.

(* solutionMoveStopsImpl.Execute for a move whose [allowed] flag is set *)
Definition exec_move (inp : input) (s : state) (mv : move) : state * result :=
  let u := mv_unit mv in
  let v := mv_vehicle mv in
  if unit_planned inp s u then (s, NotExecutable) else
  let s1 := mkState (st_routes s) (coll_add u (st_planned s)) (coll_remove u (st_unplanned s))
                    (st_fixed s) (st_scores s) (st_total s) in
  let old_stops := route_stops (get_route s v) in
  let new_stops := insert_places 0 old_stops (mv_places mv) in
  let idx := (first_gap (mv_places mv) - 1)%nat in
  match is_feasible inp s1 v idx new_stops true with
  | inl s2 => (s2, Done)
  | inr k =>
      let s3 := mkState (st_routes s) (coll_remove u (st_planned s1)) (coll_add u (st_unplanned s1))
                        (st_fixed s) (st_scores s) (st_total s) in
      match is_feasible inp s3 v idx old_stops true with
      | inl s4 => (s4, Rejected k)
      | inr _ => (s3, UndoFailed)
      end
  end.

(* positions (gaps in the route without the unit) of the unit's stops *)
Fixpoint places_of (stops_of_unit : list nat) (pos : nat) (route : list nat) : list (nat * nat) :=
  match route with
  | [] => []
  | x :: rest =>
      if mem_nat x stops_of_unit then (x, pos) :: places_of stops_of_unit pos rest
      else places_of stops_of_unit (S pos) rest
  end.

Definition vehicle_of_unit (inp : input) (s : state) (u : nat) : option nat :=
  match iu_stops (get_unit inp u) with
  | [] => None
  | x :: _ => find (fun v => mem_nat x (route_stops (get_route s v))) (seqn (length (st_routes s)))
  end.

(* solutionPlanStopsUnitImpl.UnPlan *)
Definition unplan_unit (inp : input) (s : state) (u : nat) : state * result :=
  if negb (unit_planned inp s u) then (s, NotExecutable) else
  match vehicle_of_unit inp s u with
  | None => (s, NotExecutable)
  | Some v =>
      let us := iu_stops (get_unit inp u) in
      let old_stops := route_stops (get_route s v) in
      let places := places_of us 0 old_stops in
      let new_stops := filter (fun x => negb (mem_nat x us)) old_stops in
      let idx := (first_gap places - 1)%nat in
      let s1 := mkState (st_routes s) (coll_remove u (st_planned s)) (coll_add u (st_unplanned s))
                        (st_fixed s) (st_scores s) (st_total s) in
      match is_feasible inp s1 v idx new_stops true with
      | inl s2 => (s2, Done)
      | inr k =>
          (* re-insert through Execute (which swaps the collections itself),
             then UnPlan restores its own bookkeeping *)
          let s2 := mkState (st_routes s) (coll_add u (st_planned s1)) (coll_remove u (st_unplanned s1))
                            (st_fixed s) (st_scores s) (st_total s) in
          match is_feasible inp s2 v idx old_stops true with
          | inl s3 => (s3, Rejected k)
          | inr _ => (s2, UndoFailed)
          end
      end
  end.

(* ------------------------------------------------------------------ *)
(* NewSolution (without initial stops): every unit unplanned           *)
(* ------------------------------------------------------------------ *)

Definition empty_route (inp : input) (v : nat) : option (list cell) :=
  let f := first_cell inp v in
  match propagate inp v true f [last_stop inp v] with
  | inl cs => Some (f :: cs)
  | inr _ => None            (* "failed creating new vehicle" *)
  end.

Fixpoint all_some {A} (l : list (option A)) : option (list A) :=
  match l with
  | [] => Some []
  | None :: _ => None
  | Some x :: r => match all_some r with Some xs => Some (x :: xs) | None => None end
  end.

Definition new_solution (inp : input) : option state :=
  let nv := length (in_vehicles inp) in
  match all_some (map (empty_route inp) (seqn nv)) with
  | Some routes =>
      Some (refresh_scores inp (mkState routes [] (seqn (length (in_units inp))) [] [] 0))
  | None => None
  end.
