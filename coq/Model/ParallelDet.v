(* C13: deterministic parallel mode (run_deterministically) - what the cycle
   barrier orders and what it does not (definitions only).

   solve_solver_parallel.go: a worker starts from bestSolution.Copy() (:321,
   plain read) or from a popped start solution; it forwards its solutions to
   the aggregator over an unbuffered channel (:395); the aggregator compares
   and assigns bestSolution (:432-436, plain write).  In deterministic mode the
   dispatcher waits for all workers of a cycle (waitGroup.Wait, :404-406)
   before it starts the next cycle.  A worker is done once its last send has
   been RECEIVED - not once the aggregator has compared it.

   Scores are integers, lower is better.  A worker is a deterministic function
   from the score it starts from to the list of scores it forwards (the solver
   run itself is deterministic for a fixed seed: that part is C12). *)
From Coq Require Import List ZArith Bool Lia.
Import ListNotations.
Open Scope Z_scope.

Definition worker := Z -> list Z.

Record dstate := mkD {
  d_best : Z;                    (* bestSolution as the aggregator last wrote it *)
  d_pending : list Z;            (* received by the aggregator, not yet compared (at most one in the code) *)
  d_queue : list (list Z);       (* per running worker of the cycle: results not yet forwarded *)
  d_out : list Z                 (* sent on the result channel, newest first *)
}.

Inductive dact :=
| DStart (w : worker)     (* a worker of the current cycle reads bestSolution and runs *)
| DForward (i : nat)      (* running worker i hands its next result to the aggregator *)
| DCompare.               (* the aggregator processes one pending result *)

Definition compare1 (st : dstate) (x : Z) : dstate :=
  if d_best st <=? x then mkD (d_best st) (tl (d_pending st)) (d_queue st) (d_out st)
  else mkD x (tl (d_pending st)) (d_queue st) (x :: d_out st).

Fixpoint set_q (qs : list (list Z)) (i : nat) (q : list Z) : list (list Z) :=
  match qs, i with
  | [], _ => []
  | _ :: t, O => q :: t
  | h :: t, S k => h :: set_q t k q
  end.

Definition dstep (st : dstate) (a : dact) : option dstate :=
  match a with
  | DStart w => Some (mkD (d_best st) (d_pending st) (d_queue st ++ [w (d_best st)]) (d_out st))
  | DForward i =>
      match nth_error (d_queue st) i, d_pending st with
      | Some (x :: q), [] =>       (* unbuffered: the aggregator must be back at its receive *)
          Some (mkD (d_best st) [x] (set_q (d_queue st) i q) (d_out st))
      | _, _ => None
      end
  | DCompare =>
      match d_pending st with
      | x :: _ => Some (compare1 st x)
      | [] => None
      end
  end.

Fixpoint drun (st : dstate) (sched : list dact) : dstate :=
  match sched with
  | [] => st
  | a :: rest => match dstep st a with Some st' => drun st' rest | None => drun st rest end
  end.

Definition dinit (s0 : Z) : dstate := mkD s0 [] [] [s0].

(* the barrier: all workers of the cycle have forwarded everything *)
Definition cycle_done (st : dstate) : bool := forallb (fun q => match q with [] => true | _ => false end) (d_queue st).

(* what the barrier does NOT include: the aggregator having compared the last
   result.  [quiescent] is the stronger condition that would make the next
   cycle's read of bestSolution well defined. *)
Definition quiescent (st : dstate) : bool :=
  cycle_done st && match d_pending st with [] => true | _ => false end.

(* a two-cycle run: schedule of cycle 1, then (barrier passed) schedule of cycle 2, then drain *)
Definition two_cycles (s0 : Z) (c1 c2 : list dact) : dstate :=
  let st1 := drun (dinit s0) c1 in
  let st1' := mkD (d_best st1) (d_pending st1) [] (d_out st1) in   (* workers of cycle 1 are gone *)
  drun st1' (c2 ++ [DCompare; DCompare; DCompare; DCompare]).
