(* How the factory groups the precedence relations of an input into plan units
   (definitions only).

   factory/plan_units.go allSequences / toExistingUnit / mergeUnits.  The input
   is the list of sequences (predecessor, successor, direct) in the order
   factory/precedence.go collects them (stops in input order, per stop the
   "precedes" entries then the "succeeds" entries).  The code keeps a slice of
   units (stop set + sequences) and a map stop -> index into that slice; merging
   two units deletes one slice element and re-indexes the map.  Every slice
   access is an [nth_error] here: [None] is the Go panic "index out of range". *)

From Coq Require Import List Arith Bool.
Import ListNotations.

Definition seqt := (nat * nat * bool)%type.      (* predecessor, successor, direct *)

Record uinfo := mkUInfo { ui_stops : list nat; ui_seqs : list seqt }.

Definition smap := list (nat * nat).              (* inUnit: stop -> unit index *)

Fixpoint lookup (m : smap) (s : nat) : option nat :=
  match m with
  | [] => None
  | (k, v) :: r => if Nat.eqb k s then Some v else lookup r s
  end.

Definition set_in (m : smap) (s u : nat) : smap := (s, u) :: m.   (* later bindings shadow earlier ones *)

Definition add_stop (l : list nat) (s : nat) : list nat :=
  if existsb (Nat.eqb s) l then l else l ++ [s].

Fixpoint update_nth {A} (l : list A) (i : nat) (x : A) : list A :=
  match l, i with
  | [], _ => []
  | _ :: t, O => x :: t
  | h :: t, S k => h :: update_nth t k x
  end.

Fixpoint remove_nth {A} (l : list A) (i : nat) : list A :=
  match l, i with
  | [], _ => []
  | _ :: t, O => t
  | h :: t, S k => h :: remove_nth t k
  end.

(* toExistingUnit *)
Definition to_existing (units : list uinfo) (m : smap) (ui : nat) (q : seqt) : option (list uinfo * smap) :=
  match nth_error units ui with
  | None => None
  | Some u =>
      let '(p, s, _) := q in
      let u' := mkUInfo (add_stop (add_stop (ui_stops u) p) s) (ui_seqs u ++ [q]) in
      Some (update_nth units ui u', set_in (set_in m p ui) s ui)
  end.

(* the re-indexing loop of mergeUnits: for i, ui := range units { for s := range ui.stops { inUnit[s] = i } } *)
Fixpoint reindex (units : list uinfo) (i : nat) (m : smap) : smap :=
  match units with
  | [] => m
  | u :: r => reindex r (S i) (fold_left (fun mm s => set_in mm s i) (ui_stops u) m)
  end.

(* mergeUnits; [reidx = false] is the code without the re-indexing loop *)
Definition merge_units (reidx : bool) (u1 u2 : nat) (units : list uinfo) (m : smap) (q : seqt)
  : option (list uinfo * smap) :=
  let a := Nat.min u1 u2 in
  let b := Nat.max u1 u2 in
  match nth_error units b with
  | None => None
  | Some old =>
      let units1 := remove_nth units b in
      let m1 := if reidx then reindex units1 0 m else m in
      match nth_error units1 a with
      | None => None
      | Some tgt =>
          let m2 := fold_left (fun mm s => set_in mm s a) (ui_stops old) m1 in
          let tgt' := mkUInfo (fold_left add_stop (ui_stops old) (ui_stops tgt))
                              (ui_seqs tgt ++ ui_seqs old ++ [q]) in
          Some (update_nth units1 a tgt', m2)
      end
  end.

(* one iteration of the loop of allSequences *)
Definition step_seq (reidx : bool) (st : list uinfo * smap) (q : seqt) : option (list uinfo * smap) :=
  let '(units, m) := st in
  let '(p, s, _) := q in
  match lookup m p, lookup m s with
  | Some i1, None => to_existing units m i1 q
  | None, Some i2 => to_existing units m i2 q
  | Some i1, Some i2 =>
      if Nat.eqb i1 i2 then
        match nth_error units i1 with
        | None => None
        | Some u => Some (update_nth units i1 (mkUInfo (ui_stops u) (ui_seqs u ++ [q])), m)
        end
      else merge_units reidx i1 i2 units m q
  | None, None =>
      let n := length units in
      Some (units ++ [mkUInfo (add_stop [p] s) [q]], set_in (set_in m p n) s n)
  end.

Fixpoint run_seqs (reidx : bool) (st : list uinfo * smap) (qs : list seqt) : option (list uinfo * smap) :=
  match qs with
  | [] => Some st
  | q :: r => match step_seq reidx st q with None => None | Some st' => run_seqs reidx st' r end
  end.

(* allSequences: the sequences of every unit, in unit order; None = panic *)
Definition all_sequences_gen (reidx : bool) (qs : list seqt) : option (list uinfo) :=
  match run_seqs reidx ([], []) qs with
  | None => None
  | Some (units, _) => Some units
  end.

Definition all_sequences (qs : list seqt) : option (list uinfo) := all_sequences_gen true qs.

(* ---- specification vocabulary ------------------------------------- *)

(* two stops are connected by the sequences seen so far *)
Inductive connected (qs : list seqt) : nat -> nat -> Prop :=
| conn_refl : forall x, connected qs x x
| conn_step : forall x y z d, (In (x, y, d) qs \/ In (y, x, d) qs) -> connected qs y z -> connected qs x z.
