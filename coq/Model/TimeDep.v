(* Model of timeDependentDurationExpressionImpl (model_expression_time_dependent.go).

   Definitions only (no proofs): the model still runs when a proof breaks.

   Times are seconds since the model epoch.  Frame boundaries are integers
   (the code requires minute boundaries), departures and durations are
   rationals.  The linked list of expressionElement is a [list elem] from
   startElement on; the minute map [t.elements] is the function [map_lookup];
   [t.endElement] (which the code never re-binds when the last node is split)
   is represented by its observable fields: start = [td_endstart], end =
   [max_time], expression = default, next = nil.

   An element does not hold an expression but the *index* of one: 0 is the
   default expression, k > 0 an expression passed to SetExpression (the caller
   names it).  [vals k] is the value of expression k for the (vehicle type, from,
   to) triple under study; theorems quantify over [vals]. *)

From Coq Require Import List ZArith QArith Qround Bool.
Import ListNotations.
Open Scope Q_scope.

Definition max_time : Z := (24 * 365 * 200 * 3600)%Z.
Definition week : Z := (24 * 7 * 3600)%Z.

Record elem := mkElem { e_start : Z; e_end : Z; e_expr : nat }.

Record td := mkTd {
  td_elems : list elem;      (* startElement, startElement.next, ... *)
  td_endstart : Z;           (* t.endElement.start *)
  td_earliest : Z;
  td_latest : Z
}.

Definition td_empty : td := mkTd [] 0 0 0.

Inductive set_result := SetOk | SetErr (code : nat).
(* error codes: 1 start before epoch, 2 start after end, 3 start not on a
   minute, 4 end not on a minute, 5 negative values, 6 longer than a week,
   7 overlap *)

(* ---- updateMap ---------------------------------------------------- *)

(* startElement.end = startElement.next.start *)
Definition fix_first (l : list elem) : list elem :=
  match l with
  | e :: (n :: _) as rest => mkElem (e_start e) (e_start n) (e_expr e) :: rest
  | _ => l
  end.

(* end of the last element that has a successor, walking from the second *)
Fixpoint last_middle_end (l : list elem) (acc : Z) : Z :=
  match l with
  | [] => acc
  | [_] => acc
  | e :: rest => last_middle_end rest (e_end e)
  end.

Definition update_map (l : list elem) (old_endstart : Z) : list elem * Z :=
  let l' := fix_first l in
  (l', last_middle_end (tl l') old_endstart).

(* ---- SetExpression ------------------------------------------------ *)

(* for element.next != nil && element.start < s && element.end <= s *)
Fixpoint find_split (s : Z) (before : list elem) (l : list elem)
  : list elem * option elem * list elem :=
  match l with
  | [] => (before, None, [])
  | [e] => (before, Some e, [])
  | e :: rest =>
      if ((e_start e <? s) && (e_end e <=? s))%Z
      then find_split s (before ++ [e]) rest
      else (before, Some e, rest)
  end.

(* The overlap test: the new frame overlaps when the element it starts in is a
   frame (old and new code), and - since the repair - when that element is a gap
   that ends before the new frame does.  [set_expression_lenient] is the code
   before the repair: a frame that starts in a gap and reaches into a LATER frame
   was accepted and left an element of negative length behind
   (C17_overlap_accepted_refuted). *)
Definition set_expression (t : td) (s e : Z) (k : nat) (neg : bool) : td * set_result :=
  if (s <? 0)%Z then (t, SetErr 1) else
  if (e <? s)%Z then (t, SetErr 2) else
  if negb (s mod 60 =? 0)%Z then (t, SetErr 3) else
  if negb (e mod 60 =? 0)%Z then (t, SetErr 4) else
  if neg then (t, SetErr 5) else
  let earliest := if ((s <? td_earliest t) || (td_earliest t =? 0))%Z then s else td_earliest t in
  let latest := if ((td_latest t <? e) || (td_latest t =? 0))%Z then e else td_latest t in
  if (week <? latest - earliest)%Z then (t, SetErr 6) else
  let ne := mkElem s e k in
  match td_elems t with
  | [] =>
      let l := [mkElem 0 s 0; ne; mkElem e max_time 0] in
      let '(l', es) := update_map l e in
      (mkTd l' es earliest latest, SetOk)
  | _ =>
      match find_split s [] (td_elems t) with
      | (before, Some el, after) =>
          if ((negb (Nat.eqb (e_expr el) 0) && (e_start el <? e)) ||
              (Nat.eqb (e_expr el) 0 && (e_end el <? e)))%Z
          then
            (* the error is returned after earliest/latest were updated and
               the expression was appended to t.expressions *)
            (mkTd (td_elems t) (td_endstart t) earliest latest, SetErr 7)
          else
            let l := before ++ [mkElem (e_start el) s (e_expr el); ne;
                                mkElem e (e_end el) (e_expr el)] ++ after in
            let '(l', es) := update_map l (td_endstart t) in
            (mkTd l' es earliest latest, SetOk)
      | _ => (t, SetErr 99)
      end
  end.

Definition set_expression_lenient (t : td) (s e : Z) (k : nat) (neg : bool) : td * set_result :=
  if (s <? 0)%Z then (t, SetErr 1) else
  if (e <? s)%Z then (t, SetErr 2) else
  if negb (s mod 60 =? 0)%Z then (t, SetErr 3) else
  if negb (e mod 60 =? 0)%Z then (t, SetErr 4) else
  if neg then (t, SetErr 5) else
  let earliest := if ((s <? td_earliest t) || (td_earliest t =? 0))%Z then s else td_earliest t in
  let latest := if ((td_latest t <? e) || (td_latest t =? 0))%Z then e else td_latest t in
  if (week <? latest - earliest)%Z then (t, SetErr 6) else
  let ne := mkElem s e k in
  match td_elems t with
  | [] =>
      let l := [mkElem 0 s 0; ne; mkElem e max_time 0] in
      let '(l', es) := update_map l e in
      (mkTd l' es earliest latest, SetOk)
  | _ =>
      match find_split s [] (td_elems t) with
      | (before, Some el, after) =>
          if (negb (Nat.eqb (e_expr el) 0) && (e_start el <? e))%Z
          then
            (* the error is returned after earliest/latest were updated and
               the expression was appended to t.expressions *)
            (mkTd (td_elems t) (td_endstart t) earliest latest, SetErr 7)
          else
            let l := before ++ [mkElem (e_start el) s (e_expr el); ne;
                                mkElem e (e_end el) (e_expr el)] ++ after in
            let '(l', es) := update_map l (td_endstart t) in
            (mkTd l' es earliest latest, SetOk)
      | _ => (t, SetErr 99)
      end
  end.

(* ---- getElementAtValue ------------------------------------------- *)

Definition minute_of (v : Q) : Z := (60 * Qfloor (v / 60))%Z.

(* for v := start; v < end; v += 60 { elements[int64(v)] = element } *)
Definition in_map (m : Z) (e : elem) : bool :=
  ((e_start e <=? m) && (m <? e_end e) && ((m - e_start e) mod 60 =? 0))%Z.

(* middle elements only (not the first, not the one without successor);
   later elements overwrite earlier keys; the result is the element together
   with its successors *)
Fixpoint map_lookup_mid (m : Z) (l : list elem) : option (list elem) :=
  match l with
  | [] => None
  | [_] => None
  | e :: rest =>
      match map_lookup_mid m rest with
      | Some r => Some r
      | None => if in_map m e then Some (e :: rest) else None
      end
  end.

Definition map_lookup (m : Z) (t : td) : option (list elem) :=
  map_lookup_mid m (tl (td_elems t)).

Fixpoint map_is_empty_mid (l : list elem) : bool :=
  match l with
  | [] => true
  | [_] => true
  | e :: rest => (e_end e <=? e_start e)%Z && map_is_empty_mid rest
  end.

Definition map_is_empty (t : td) : bool := map_is_empty_mid (tl (td_elems t)).

Definition get_element (t : td) (v : Q) : option (list elem) :=
  let m := minute_of v in
  match td_elems t with
  | [] => None
  | first :: _ =>
      if (m <? e_end first)%Z then Some (td_elems t)
      else if (td_endstart t <=? m)%Z then Some [mkElem (td_endstart t) max_time 0]
      else map_lookup m t
  end.

(* ---- ValueAtValue ------------------------------------------------- *)

Inductive tdres := Val (q : Q) | Panic.

Definition is_nil {A} (l : list A) : bool := match l with [] => true | _ => false end.

Fixpoint walk (vals : nat -> Q) (fc dur : Q) (rest : list elem) : tdres :=
  match rest with
  | [] => Panic                           (* nil element dereferenced *)
  | e :: rest' =>
      let req := (1 - fc) * vals (e_expr e) in
      if Qeq_bool req 0 then Val dur else
      let can := (inject_Z (e_end e) - inject_Z (e_start e)) / req in
      (* the last element has no successor: it is in force from its start on *)
      if Qle_bool 1 can || is_nil rest' then Val (dur + req) else
      (* Qred: same rational, reduced representation (keeps the numbers small when the model is run) *)
      walk vals (Qred (fc + can * (1 - fc))) (Qred (dur + can * req)) rest'
  end.

Definition value_at_value (t : td) (vals : nat -> Q) (v : Q) : tdres :=
  if map_is_empty t then Val (vals 0%nat) else
  match get_element t v with
  | None => Panic
  | Some [] => Panic
  | Some (el :: rest) =>
      let d := vals (e_expr el) in
      if Qeq_bool d 0 then Val 0 else
      if Qle_bool d 0 then Panic else
      let fc := Qred ((inject_Z (e_end el) - v) / d) in
      if Qle_bool 1 fc || is_nil rest then Val d else
      walk vals fc (Qred (fc * d)) rest
  end.

(* ExpressionAtValue: which expression is in force at v *)
Definition expression_at_value (t : td) (v : Q) : nat :=
  if map_is_empty t then 0%nat else
  match map_lookup (minute_of v) t with
  | Some (el :: _) => e_expr el
  | _ => 0%nat
  end.

(* a whole sequence of SetExpression calls, as the factory issues them *)
Fixpoint set_expressions_lenient (t : td) (frames : list (Z * Z * nat)) : td * list set_result :=
  match frames with
  | [] => (t, [])
  | (s, e, k) :: rest =>
      let '(t', r) := set_expression_lenient t s e k false in
      let '(t'', rs) := set_expressions_lenient t' rest in
      (t'', r :: rs)
  end.

Fixpoint set_expressions (t : td) (frames : list (Z * Z * nat)) : td * list set_result :=
  match frames with
  | [] => (t, [])
  | (s, e, k) :: rest =>
      let '(t', r) := set_expression t s e k false in
      let '(t'', rs) := set_expressions t' rest in
      (t'', r :: rs)
  end.
