(* Discipline checkers over the fingerprints that /verif/translator extracts
   (definitions only): lockset analysis of a synchronisation skeleton (C14),
   freshness analysis of the Copy table (C11). *)
From Coq Require Import List String Bool Arith.
From NR Require Import Model.Skeleton.
Import ListNotations.
Open Scope string_scope.

(* ------------------------------------------------------------------ *)
(* Lockset analysis                                                    *)
(* ------------------------------------------------------------------ *)

Record access := mkAccess {
  a_gor : nat;          (* goroutine: 0 = the function body, k = k-th go statement *)
  a_multi : bool;       (* that go statement sits in a loop: several instances run together *)
  a_var : string;
  a_write : bool;
  a_locks : list string;   (* mutexes held *)
  a_init : bool         (* executed by the function body before it starts any goroutine *)
}.

Definition mem_str (x : string) (l : list string) : bool := existsb (String.eqb x) l.
Definition remove_str (x : string) (l : list string) : list string :=
  filter (fun y => negb (String.eqb x y)) l.

(* traversal state *)
Record tstate := mkT { t_next : nat; t_locks : list string; t_started : bool; t_acc : list access }.

(* [fuel] bounds the nesting depth (structural recursion over nested lists) *)
Fixpoint walk_sk (fuel : nat) (g : nat) (multi inloop : bool) (st : tstate) (body : list sk) : tstate :=
  match fuel with
  | O => st
  | S fuel' =>
    fold_left (fun st s =>
      match s with
      | SRead v => mkT (t_next st) (t_locks st) (t_started st)
                       (t_acc st ++ [mkAccess g multi v false (t_locks st) (Nat.eqb g 0 && negb (t_started st))])
      | SWrite v => mkT (t_next st) (t_locks st) (t_started st)
                        (t_acc st ++ [mkAccess g multi v true (t_locks st) (Nat.eqb g 0 && negb (t_started st))])
      | SLock m => mkT (t_next st) (m :: t_locks st) (t_started st) (t_acc st)
      | SUnlock m => mkT (t_next st) (remove_str m (t_locks st)) (t_started st) (t_acc st)
      | SGo b =>
          let id := S (t_next st) in
          let st1 := walk_sk fuel' id inloop false (mkT id [] true (t_acc st)) b in
          mkT (t_next st1) (t_locks st) true (t_acc st1)
      | SFor b => walk_sk fuel' g multi true st b
      | SRange _ b => walk_sk fuel' g multi true st b
      | SIf b e => walk_sk fuel' g multi inloop (walk_sk fuel' g multi inloop st b) e
      | SSelect cases => fold_left (fun st c => walk_sk fuel' g multi inloop st (snd c)) cases st
      | SDefer b =>
          let st1 := walk_sk fuel' g multi inloop (mkT (t_next st) [] (t_started st) (t_acc st)) b in
          mkT (t_next st1) (t_locks st) (t_started st1) (t_acc st1)
      | SCallback b => walk_sk fuel' g multi inloop st b
      | SWgWait _ =>
          (* in the function body itself a Wait joins the goroutines started so far
             (they all signal Done when they return): what follows is sequential again *)
          if Nat.eqb g 0 then mkT (t_next st) (t_locks st) false (t_acc st) else st
      | _ => st
      end) body st
  end.

Definition accesses (body : list sk) : list access :=
  t_acc (walk_sk 40 0 false false (mkT 0 [] false []) body).

Definition common_lock (a b : access) : bool := existsb (fun m => mem_str m (a_locks b)) (a_locks a).

(* may run concurrently and conflict, with no common mutex *)
Definition unprotected_pair (a b : access) : bool :=
  String.eqb (a_var a) (a_var b) &&
  (negb (Nat.eqb (a_gor a) (a_gor b)) || a_multi a) &&
  (a_write a || a_write b) &&
  negb (a_init a) && negb (a_init b) &&
  negb (common_lock a b).

Fixpoint dedup (l : list string) : list string :=
  match l with [] => [] | x :: r => if mem_str x r then dedup r else x :: dedup r end.

(* variables with an unprotected conflicting pair *)
Definition racy_vars (body : list sk) : list string :=
  let acc := accesses body in
  dedup (flat_map (fun a => if existsb (unprotected_pair a) acc then [a_var a] else []) acc).

(* does a goroutine started in [body] call [f] ? (e.g. "Random": the solution's
   random source is handed to a helper goroutine) *)
Fixpoint calls_in (fuel : nat) (f : string) (ingo : bool) (body : list sk) : bool :=
  match fuel with
  | O => false
  | S fuel' =>
    existsb (fun s =>
      match s with
      | SCall g => ingo && String.eqb f g
      | SGo b => calls_in fuel' f true b
      | SDefer b | SCallback b | SFor b | SRange _ b => calls_in fuel' f ingo b
      | SIf b e => calls_in fuel' f ingo b || calls_in fuel' f ingo e
      | SSelect cases => existsb (fun c => calls_in fuel' f ingo (snd c)) cases
      | _ => false
      end) body
  end.
Definition goroutine_calls (f : string) (body : list sk) : bool := calls_in 40 f false body.

(* is there a call of [f] that is not between Lock m and Unlock m ?  ([held]: m is held on entry; nested blocks
   inherit the state of the point where they start and do not change it for what follows them) *)
Fixpoint unlocked_call (fuel : nat) (f m : string) (held : bool) (body : list sk) : bool :=
  match fuel with
  | O => true
  | S fuel' =>
    match body with
    | [] => false
    | s :: rest =>
        match s with
        | SLock m' => unlocked_call fuel' f m (held || String.eqb m m') rest
        | SUnlock m' => unlocked_call fuel' f m (held && negb (String.eqb m m')) rest
        | SCall g => (negb held && String.eqb f g) || unlocked_call fuel' f m held rest
        | SGo b => unlocked_call fuel' f m false b || unlocked_call fuel' f m held rest
        | SDefer b | SCallback b | SFor b | SRange _ b => unlocked_call fuel' f m held b || unlocked_call fuel' f m held rest
        | SIf b e => unlocked_call fuel' f m held b || unlocked_call fuel' f m held e || unlocked_call fuel' f m held rest
        | SSelect cases => existsb (fun c => unlocked_call fuel' f m held (snd c)) cases || unlocked_call fuel' f m held rest
        | _ => unlocked_call fuel' f m held rest
        end
    end
  end.
Definition call_outside_lock (f m : string) (body : list sk) : bool := unlocked_call 200 f m false body.

(* ------------------------------------------------------------------ *)
(* Copy table                                                          *)
(* ------------------------------------------------------------------ *)

Definition prefix_of (p s : string) : bool := String.prefix p s.

Definition mutable_class (c : string) : bool :=
  String.eqb c "slice" || String.eqb c "map" || String.eqb c "pointer" ||
  String.eqb c "named:solutionPlanUnitCollectionBaseImpl".

(* treatments that give the copy storage of its own *)
Definition fresh_treatment (t : string) : bool :=
  prefix_of "copyslice" t || prefix_of "make" t || prefix_of "clone" t ||
  prefix_of "new:" t || prefix_of "call:rand.New" t.

(* maps and collections whose elements are themselves mutable need their
   elements rebuilt too: the treatment must mention an element-wise rebuild *)
Fixpoint contains (needle hay : string) : bool :=
  match hay with
  | EmptyString => String.eqb needle EmptyString
  | String _ rest => prefix_of needle hay || contains needle rest
  end.

Definition elements_rebuilt (t : string) : bool :=
  contains "elem:copyslice" t || contains "elem:make" t || contains "elem:call:" t ||
  contains "elem:local:score" t || contains "method:add(call:copySolutionPlanUnit)" t.

(* data copied from the original must come from the SAME field of the original
   (copyslice:<field>, clone:<field>, elem:copyslice:<field> as the translator records them) *)
Definition source_ok (f t : string) : bool :=
  (if prefix_of "copyslice:" t then String.eqb t ("copyslice:" ++ f) || prefix_of ("copyslice:" ++ f ++ "+") t else true) &&
  (if prefix_of "clone:" t then String.eqb t ("clone:" ++ f) || prefix_of ("clone:" ++ f ++ "+") t else true) &&
  (if contains "elem:copyslice:" t then contains ("elem:copyslice:" ++ f) t else true).

(* a constructor that is handed a field of the original itself (recorded by the
   translator as new:<fn>(alias:s.<field>)) builds an object that shares it *)
Definition row_ok (row : string * string * string) : bool :=
  let '(f, c, t) := row in
  if negb (mutable_class c) then true
  else fresh_treatment t && source_ok f t && negb (contains "(alias:" t) &&
       (if String.eqb c "map" then elements_rebuilt t else true).

Definition copy_violations (table : list (string * string * string)) : list string :=
  map (fun r => fst (fst r)) (filter (fun r => negb (row_ok r)) table).

(* ------------------------------------------------------------------ *)
(* Projections of a skeleton (what a given property depends on)         *)
(* ------------------------------------------------------------------ *)

Fixpoint filter_sk (fuel : nat) (keep : sk -> bool) (body : list sk) : list sk :=
  match fuel with
  | O => []
  | S fuel' =>
    flat_map (fun s =>
      match s with
      | SGo b => [SGo (filter_sk fuel' keep b)]
      | SDefer b => match filter_sk fuel' keep b with [] => [] | b' => [SDefer b'] end
      | SCallback b => match filter_sk fuel' keep b with [] => [] | b' => [SCallback b'] end
      | SFor b => match filter_sk fuel' keep b with [] => [] | b' => [SFor b'] end
      | SRange c b => if keep (SRange c []) then [SRange c (filter_sk fuel' keep b)]
                      else match filter_sk fuel' keep b with [] => [] | b' => [SFor b'] end
      | SIf b e => match filter_sk fuel' keep b, filter_sk fuel' keep e with
                   | [], [] => [] | b', e' => [SIf b' e'] end
      | SSelect cases =>
          let cs := map (fun c => (fst c, filter_sk fuel' keep (snd c))) cases in
          if existsb (fun c => match snd c with [] => false | _ => true end) cs then [SSelect cs] else []
      | leaf => if keep leaf then [leaf] else []
      end) body
  end.

Definition project (keep : sk -> bool) (body : list sk) : list sk := filter_sk 40 keep body.

Definition names (l : list string) (x : string) : bool := mem_str x l.

(* channel / budget / closing structure (C15) *)
Definition keep_protocol (s : sk) : bool :=
  match s with
  | SSend _ | SRecv _ | SClose _ | SRange _ _ | SWgAdd _ | SWgDone _ | SWgWait _ | SAtomic _ _
  | SBreak _ | SReturn => true
  | SCall f => names ["cancel"; "Solve"; "WithDeadline"; "WithTimeout"; "WithCancel"] f   (* where the deadline is installed *)
  | _ => false
  end.

(* best-solution tracking (C06) *)
Definition keep_best (s : sk) : bool :=
  match s with
  | SSend c | SRange c _ => names ["resultChannel"; "syncResultChannel"; "solutions"; "solutionChannel"] c
  | SRead v | SWrite v => names ["bestSolution"; "s.bestSolution"] v
  | SCall f => names ["Copy"] f
  | SContinue => true
  | _ => false
  end.

(* barrier and hand-offs (C13) *)
Definition keep_handoff (s : sk) : bool :=
  match s with
  | SWgAdd _ | SWgDone _ | SWgWait _ | SLock _ | SUnlock _ => true
  | SRead v | SWrite v => names ["bestSolution"; "solutions"] v
  | SAtomic v _ => names ["iterationsLeft"] v
  | SSend c | SRange c _ => names ["syncResultChannel"; "parallelCount"] c
  | SRecv c => names ["parallelCount"] c
  | SCall f => names ["Copy"] f
  | _ => false
  end.

(* shared memory and its protection (C14): everything but control-flow leaves *)
Definition keep_memory (s : sk) : bool :=
  match s with
  | SRead _ | SWrite _ | SLock _ | SUnlock _ | SAtomic _ _ | SWgWait _ | SWgAdd _ | SWgDone _ => true
  | SCall f => names ["Random"; "Perm"; "Copy"] f
  | _ => false
  end.

(* ------------------------------------------------------------------ *)
(* Field locksets of objects shared between the runs (C14)              *)
(* ------------------------------------------------------------------ *)

(* one access of a field of the receiver in a method of a type that owns
   mutexes, as the translator lists it (Gen/Skeleton_fieldlocks.v): type,
   method, field (path), write?, receiver mutexes held at that point *)
Definition faccess := (string * string * string * bool * list string)%type.
Definition fa_type (a : faccess) : string := fst (fst (fst (fst a))).
Definition fa_method (a : faccess) : string := snd (fst (fst (fst a))).
Definition fa_field (a : faccess) : string := snd (fst (fst a)).
Definition fa_write (a : faccess) : bool := snd (fst a).
Definition fa_locks (a : faccess) : list string := snd a.

Definition same_field (a b : faccess) : bool :=
  String.eqb (fa_type a) (fa_type b) && String.eqb (fa_field a) (fa_field b).
Definition fa_common_lock (a b : faccess) : bool :=
  existsb (fun m => existsb (String.eqb m) (fa_locks b)) (fa_locks a).

(* the lockset condition, pairwise: two accesses of one field, one of them a
   write, neither in an exempted method, hold no common mutex *)
Definition field_conflicts (exempt : string -> bool) (l : list faccess) : list (string * string * string * string) :=
  flat_map (fun a =>
    flat_map (fun b =>
      if same_field a b && fa_write a && negb (fa_common_lock a b) &&
         negb (exempt (fa_method a)) && negb (exempt (fa_method b))
      then [(fa_type a, fa_field a, fa_method a, fa_method b)] else []) l) l.

(* the rows of the fields that some method accesses under a mutex *)
Definition guarded_somewhere (l : list faccess) (a : faccess) : bool :=
  existsb (fun b => same_field a b && negb (match fa_locks b with [] => true | _ => false end)) l.
Definition project_guarded (l : list faccess) : list faccess := filter (guarded_somewhere l) l.
