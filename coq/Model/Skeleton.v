(* The language of synchronisation skeletons that /verif/translator extracts
   from the Go source (definitions only). *)
From Coq Require Import List String.
Import ListNotations.

Inductive sk :=
| SGo (body : list sk)
| SDefer (body : list sk)
| SCallback (body : list sk)          (* runs on the goroutine that triggers the event *)
| SFor (body : list sk)
| SRange (ch : string) (body : list sk)
| SSelect (cases : list (string * list sk))
| SIf (body els : list sk)
| SSend (ch : string)
| SRecv (ch : string)
| SClose (ch : string)
| SLock (m : string)
| SUnlock (m : string)
| SWgAdd (w : string)
| SWgDone (w : string)
| SWgWait (w : string)
| SAtomic (v op : string)
| SRead (v : string)
| SWrite (v : string)
| SCall (f : string)
| SBreak (label : string)
| SContinue
| SReturn.
