(* Model of the constraint ESTIMATES (EstimateIsViolated) that gate a move
   before it is offered as executable, for models built from the JSON schema
   (definitions only).

   model_maximum.go EstimateIsViolated (capacity per resource, distance limit),
   model_latest.go estimateDeltaScore(asConstraint) (latest start, latest end),
   model_constraint_maximum_wait_stop.go / _vehicle.go, _maximum_stops.go,
   _attributes.go; solution_stop_generator.go (the hypothetical route);
   solution.go checkConstraintsAndEstimateDeltaScore; solution_move_stops.go
   NewMoveStops / IsExecutable / Execute. *)

From Coq Require Import List ZArith Bool Arith Lia.
From NR Require Import Model.Engine.
Import ListNotations.
Open Scope Z_scope.

Definition dummy_cell : cell := mkCell 0 0 0 0 0 0 [] 0 0 0.

Definition unit_stops (inp : input) (u : nat) : list nat := iu_stops (get_unit inp u).

Definition last_gap (places : list (nat * nat)) : nat := last (map snd places) 1%nat.

(* the hypothetical route of a move, as solutionStopGeneratorImpl yields it
   with startAtFirst = false: the cached cell of the stop in front of the
   first position, the stops that follow it in the NEW route up to the end of
   the vehicle, and how many of them lie before-or-at the stop that follows
   the last position (the generator's end when endAtLast = false) *)
Record hypo := mkHypo { h_prev : cell; h_suffix : list nat; h_upto : nat; h_old : list cell }.

Definition hypo_of (inp : input) (s : state) (mv : move) : hypo :=
  let old := get_route s (mv_vehicle mv) in
  let new_stops := insert_places 0 (route_stops old) (mv_places mv) in
  let idx := (first_gap (mv_places mv) - 1)%nat in
  mkHypo (nth idx old dummy_cell) (skipn (S idx) new_stops)
         (last_gap (mv_places mv) + length (mv_places mv) - idx)%nat old.

Definition cell_of_stop (old : list cell) (x : nat) : cell :=
  match find (fun c => Nat.eqb (c_stop c) x) old with Some c => c | None => dummy_cell end.

(* ------------------------------------------------------------------ *)
(* maximum: capacity of resource r                                     *)
(* ------------------------------------------------------------------ *)

Definition res_has_neg (inp : input) (r : nat) : bool :=
  existsb (fun st => 0 <? nthZ (is_quantity st) r) (in_stops inp).
Definition res_has_pos (inp : input) (r : nat) : bool :=
  existsb (fun st => nthZ (is_quantity st) r <? 0) (in_stops inp) ||
  existsb (fun v => match iv_capacity v with
                    | Some _ => 0 <? nthZ (iv_start_level v) r | None => false end) (in_vehicles inp).

(* walk [n] stops, adding f prev stop; violated when a level leaves [0, maxv] *)
Fixpoint walk_levels (f : nat -> nat -> Z) (maxv : Z) (level : Z) (prev : nat) (stops : list nat) (n : nat)
  : bool * Z * nat :=      (* violated, level reached, last stop visited *)
  match n, stops with
  | S n', x :: rest =>
      let level' := level + f prev x in
      if (maxv <? level') || (level' <? 0) then (true, level', x)
      else walk_levels f maxv level' x rest n'
  | _, _ => (false, level, prev)
  end.

Definition est_capacity (inp : input) (s : state) (mv : move) (r : nat) : bool :=
  let v := mv_vehicle mv in
  let us := unit_stops inp (mv_unit mv) in
  let val := fun x => resource_value inp v r x in
  let no_neg := negb (res_has_neg inp r) in
  let maxv := capacity inp v r in
  if no_neg && forallb (fun x => val x =? 0) us then false                 (* hasNoEffect *)
  else if res_has_neg inp r && negb (res_has_pos inp r) then true            (* only negative contributions *)
  else
    let h := hypo_of inp s mv in
    if no_neg then                                                          (* end-level shortcut *)
      maxv <? nthZ (c_levels (last_cell (h_old h))) r + sumZ (map val us)
    else
      let '(viol, level, _) :=
        walk_levels (fun _ x => val x) maxv (nthZ (c_levels (h_prev h)) r) (c_stop (h_prev h)) (h_suffix h) (h_upto h) in
      if viol then true else
      (* downstream of the move: only when the level at the stop after the move changed *)
      let nxt := nth (last_gap (mv_places mv)) (h_old h) dummy_cell in
      if nthZ (c_levels nxt) r =? level then false
      else
        let down := removelast (skipn (S (last_gap (mv_places mv))) (route_stops (h_old h))) in
        let '(viol2, _, _) := walk_levels (fun _ x => val x) maxv level 0%nat down (length down) in
        viol2.

(* maximum: distance limit (composed per vehicle type expression, no negative values) *)
Definition est_distance (inp : input) (s : state) (mv : move) : bool :=
  let v := mv_vehicle mv in
  match iv_max_distance (get_vehicle inp v) with
  | None => false                       (* limit MaxFloat64, expression constant 0 *)
  | Some maxv =>
      let h := hypo_of inp s mv in
      let '(viol, level, lastx) :=
        walk_levels (fun a b => distance_value inp v a b) maxv (c_cumdist (h_prev h)) (c_stop (h_prev h))
                    (h_suffix h) (h_upto h) in
      if viol then true
      else maxv <? level - c_cumdist (cell_of_stop (h_old h) lastx) + c_cumdist (last_cell (h_old h))
  end.

(* ------------------------------------------------------------------ *)
(* temporal estimates: forward simulation over the hypothetical route   *)
(* ------------------------------------------------------------------ *)

(* simulate; [check prev_end arrival start end stop] returns true when violated *)
Fixpoint sim_all (inp : input) (v : nat) (endv : Z) (prev : nat) (stops : list nat)
         (check : Z -> Z -> Z -> nat -> bool) : bool :=
  match stops with
  | [] => false
  | x :: rest =>
      let '(_, arrival, start, en) := temporal_values inp v endv prev x in
      if check arrival start en x then true else sim_all inp v en x rest check
  end.

Definition est_latest_start (inp : input) (s : state) (mv : move) : bool :=
  let h := hypo_of inp s mv in
  sim_all inp (mv_vehicle mv) (c_end (h_prev h)) (c_stop (h_prev h)) (h_suffix h)
          (fun _ start _ x => match latest_start inp x with Some l => l <? start | None => false end).

Definition est_latest_end (inp : input) (s : state) (mv : move) : bool :=
  let h := hypo_of inp s mv in
  let v := mv_vehicle mv in
  sim_all inp v (c_end (h_prev h)) (c_stop (h_prev h)) (h_suffix h)
          (fun _ _ en x => match (if is_last_stop inp x then latest_end inp v else None) with
                           | Some l => l <? en | None => false end).

(* max-wait estimates: simulation with the early break "all stops of the unit
   placed and the arrival at AND THE END OF a planned stop are unchanged".
   The comparison of the ends was added by the repair of the duration-group
   defect (with duration groups the time spent at a stop depends on the stop in
   front of it, so an unchanged arrival does not imply an unchanged end);
   [check_end = false] is the code before that repair (arrival only). *)
(* accumulated wait cached at the stop in front of x on the old route *)
Fixpoint prev_acc_aux (p : cell) (l : list cell) (x : nat) : Z :=
  match l with
  | [] => 0
  | c :: r => if Nat.eqb (c_stop c) x then c_wait_acc p else prev_acc_aux c r x
  end.
Definition prev_acc (old : list cell) (x : nat) : Z :=
  match old with [] => 0 | c :: r => prev_acc_aux c r x end.

(* [guard acc x]: extra condition of the early break (the vehicle constraint only
   stops when the wait accumulated so far did not grow w.r.t. the cached one) *)
Fixpoint sim_wait (check_end : bool) (inp : input) (v : nat) (us : list nat) (old : list cell) (endv : Z) (prev : nat)
         (stops : list nat) (to_place : nat) (acc : Z)
         (violated : Z -> Z -> nat -> bool)   (* accumulated wait, this wait, stop *)
         (guard : Z -> nat -> bool)
  : bool :=
  match stops with
  | [] => false
  | x :: rest =>
      let '(_, arrival, start, en) := temporal_values inp v endv prev x in
      let planned := negb (mem_nat x us) in
      let to_place' := if planned then to_place else (to_place - 1)%nat in
      if (Nat.eqb to_place' 0) && planned && (arrival =? c_arrival (cell_of_stop old x)) &&
         (negb check_end || (en =? c_end (cell_of_stop old x))) && guard acc x then false
      else
        let wait := start - arrival in
        let acc' := acc + wait in
        if violated acc' wait x then true
        else sim_wait check_end inp v us old en x rest to_place' acc' violated guard
  end.

Definition est_max_wait_stop_gen (check_end : bool) (inp : input) (s : state) (mv : move) : bool :=
  let h := hypo_of inp s mv in
  let us := unit_stops inp (mv_unit mv) in
  sim_wait check_end inp (mv_vehicle mv) us (h_old h) (c_end (h_prev h)) (c_stop (h_prev h)) (h_suffix h) (length us) 0
           (fun _ wait x => match (if is_input_stop inp x then is_max_wait (get_stop inp x) else None) with
                            | Some w => w <? wait | None => false end)
           (fun _ _ => true).

Definition est_max_wait_vehicle_gen (check_end : bool) (inp : input) (s : state) (mv : move) : bool :=
  let h := hypo_of inp s mv in
  let us := unit_stops inp (mv_unit mv) in
  match iv_max_wait (get_vehicle inp (mv_vehicle mv)) with
  | None => false
  | Some w =>
      sim_wait check_end inp (mv_vehicle mv) us (h_old h) (c_end (h_prev h)) (c_stop (h_prev h)) (h_suffix h) (length us)
               (c_wait_acc (h_prev h)) (fun acc _ _ => w <? acc)
               (fun acc x => acc <=? prev_acc (h_old h) x)
  end.

(* the code as it is now (after the repair) *)
Definition est_max_wait_stop (inp : input) (s : state) (mv : move) : bool :=
  est_max_wait_stop_gen true inp s mv.
Definition est_max_wait_vehicle (inp : input) (s : state) (mv : move) : bool :=
  est_max_wait_vehicle_gen true inp s mv.

(* the code before the repair: the break looks at the arrival only (kept for
   the refutation theorems of Props/C09.v) *)
Definition est_max_wait_stop_arrival_only (inp : input) (s : state) (mv : move) : bool :=
  est_max_wait_stop_gen false inp s mv.
Definition est_max_wait_vehicle_arrival_only (inp : input) (s : state) (mv : move) : bool :=
  est_max_wait_vehicle_gen false inp s mv.

(* ------------------------------------------------------------------ *)
(* max stops, attributes                                               *)
(* ------------------------------------------------------------------ *)

Definition est_max_stops (inp : input) (s : state) (mv : move) : bool :=
  match iv_max_stops (get_vehicle inp (mv_vehicle mv)) with
  | None => false
  | Some m => m <? Z.of_nat (length (get_route s (mv_vehicle mv)) - 2 + length (mv_places mv))
  end.

Definition has_attributes (inp : input) : bool :=
  negb (o_dis_attributes (in_opts inp)) &&
  (existsb (fun st => negb (match is_attrs st with [] => true | _ => false end)) (in_stops inp) ||
   existsb (fun v => negb (match iv_attrs v with [] => true | _ => false end)) (in_vehicles inp)).

Definition stop_compatible (inp : input) (v : nat) (x : nat) : bool :=
  match is_attrs (get_stop inp x) with
  | [] => true
  | ats => existsb (fun a => mem_nat a (iv_attrs (get_vehicle inp v))) ats
  end.

Definition est_attributes (inp : input) (s : state) (mv : move) : bool :=
  negb (forallb (stop_compatible inp (mv_vehicle mv)) (unit_stops inp (mv_unit mv))).

(* ------------------------------------------------------------------ *)
(* all installed constraints                                           *)
(* ------------------------------------------------------------------ *)

Definition estimate_violated (inp : input) (s : state) (mv : move) : bool :=
  (has_attributes inp && est_attributes inp s mv) ||
  (has_capacity inp && existsb (est_capacity inp s mv) (seqn (in_nres inp))) ||
  (has_distance_limit inp && est_distance inp s mv) ||
  (has_latest_end inp && est_latest_end inp s mv) ||
  (has_latest_start inp && est_latest_start inp s mv) ||
  (has_max_stops inp && est_max_stops inp s mv) ||
  (has_max_wait_stop inp && est_max_wait_stop inp s mv) ||
  (has_max_wait_vehicle inp && est_max_wait_vehicle inp s mv).

(* NewMoveStops + IsExecutable *)
Definition move_executable (inp : input) (s : state) (mv : move) : bool :=
  negb (unit_planned inp s (mv_unit mv)) && negb (estimate_violated inp s mv).

(* NewMoveStops; IsExecutable; Execute *)
Definition exec_checked (inp : input) (s : state) (mv : move) : state * result :=
  if move_executable inp s mv then exec_move inp s mv else (s, NotExecutable).

(* the same gate with the max-wait estimates of the code BEFORE the repair of the
   duration-group defect (for the refutation theorems only) *)
Definition estimate_violated_arrival_only (inp : input) (s : state) (mv : move) : bool :=
  (has_attributes inp && est_attributes inp s mv) ||
  (has_capacity inp && existsb (est_capacity inp s mv) (seqn (in_nres inp))) ||
  (has_distance_limit inp && est_distance inp s mv) ||
  (has_latest_end inp && est_latest_end inp s mv) ||
  (has_latest_start inp && est_latest_start inp s mv) ||
  (has_max_stops inp && est_max_stops inp s mv) ||
  (has_max_wait_stop inp && est_max_wait_stop_arrival_only inp s mv) ||
  (has_max_wait_vehicle inp && est_max_wait_vehicle_arrival_only inp s mv).

Definition move_executable_arrival_only (inp : input) (s : state) (mv : move) : bool :=
  negb (unit_planned inp s (mv_unit mv)) && negb (estimate_violated_arrival_only inp s mv).

Definition exec_checked_arrival_only (inp : input) (s : state) (mv : move) : state * result :=
  if move_executable_arrival_only inp s mv then exec_move inp s mv else (s, NotExecutable).
