(* Protocol models of the solver loops (definitions only).

   solve_solver.go  solveImpl.Solve / invoke / newBestSolution / Reset
   solve_solver_parallel.go  parallelSolverImpl.Solve (dispatcher, workers,
                             aggregator, budget counters)

   Nothing here draws random numbers, runs operators or schedules goroutines:
   operator results, worker results and the schedule are explicit arguments
   (oracles), and the theorems quantify over all of them. *)

From Coq Require Import List ZArith Bool Lia.
Import ListNotations.
Open Scope Z_scope.

(* ------------------------------------------------------------------ *)
(* 1. Single solver (solve_solver.go)                                  *)
(* ------------------------------------------------------------------ *)

(* One operator invocation: the operator may call Solver.Reset(x) any number
   of times (work := x; best := x when x < best, nothing is sent), leaves the
   work solution with score [w]; [can_improve] is CanResultInImprovement. *)
Record exec := mkExec { ex_resets : list Z; ex_work : Z; ex_can_improve : bool }.

Record sstate := mkS { s_work : Z; s_best : Z; s_sent : list Z (* newest first *) }.

Definition sinit (start : Z) : sstate := mkS start start [start].

Definition sreset (st : sstate) (x : Z) : sstate :=
  mkS x (if x <? s_best st then x else s_best st) (s_sent st).

Definition sexec (st : sstate) (e : exec) : sstate :=
  let st1 := fold_left sreset (ex_resets e) st in
  let w := ex_work e in
  if ex_can_improve e && (w <? s_best st1)
  then mkS w w (w :: s_sent st1)          (* newBestSolution + send on the channel *)
  else mkS w (s_best st1) (s_sent st1).

Definition srun (start : Z) (es : list exec) : sstate := fold_left sexec es (sinit start).

(* ------------------------------------------------------------------ *)
(* 2. Aggregator (solve_solver_parallel.go:410-444)                    *)
(* ------------------------------------------------------------------ *)

Record astate := mkA { a_best : Z; a_out : list Z (* newest first *) }.

Definition fold_min (x : Z) (l : list Z) : Z := fold_left Z.min l x.

(* initial best among the start solutions (:259-267), reported first (:290) *)
Definition ainit (s0 : Z) (starts : list Z) : astate :=
  let b := fold_left (fun b x => if x <? b then x else b) starts s0 in mkA b [b].

Definition arecv (st : astate) (x : Z) : astate :=
  if a_best st <=? x then st else mkA x (x :: a_out st).

Definition arun (s0 : Z) (starts : list Z) (received : list Z) : astate :=
  fold_left arecv received (ainit s0 starts).

(* ------------------------------------------------------------------ *)
(* 3. Parallel solver with budget, barrier and cancellation            *)
(* ------------------------------------------------------------------ *)

Inductive wphase :=
| WNew                       (* spawned, has not grabbed budget yet *)
| WRun (granted done : Z) (queue : list Z)   (* solving; [queue]: solutions on its channel not yet forwarded, oldest first *)
| WParked                    (* no budget left: waits for ctx.Done() *)
| WDone (granted done : Z).   (* returned; keeps its counters *)

Record pstate := mkP {
  p_iterations : Z;          (* options.Iterations (>= 0) *)
  p_runs : nat;              (* parallelRuns *)
  p_deterministic : bool;
  p_left : Z;                (* iterationsLeft *)
  p_total : Z;               (* totalIterations *)
  p_cancelled : bool;        (* ctx done *)
  p_workers : list wphase;   (* by run number - 1 *)
  p_in_cycle : nat;          (* runs started by the dispatcher in the current cycle *)
  p_disp_done : bool;        (* dispatcher returned: syncResultChannel closed *)
  p_agg : astate;
  p_pending : option Z;      (* received by the aggregator, not yet compared *)
  p_closed : bool            (* resultChannel closed *)
}.

Inductive action :=
| ASpawn                      (* dispatcher: semaphore acquired, waitGroup.Add, go worker *)
| ACycleEnd                   (* dispatcher: inner for loop finished (barrier passed when deterministic) *)
| AGrab (r : nat) (opt : Z)   (* worker r: iterationsLeft.Add(-opt) and the three-way branch *)
| AIterate (r : nat)          (* worker r's solver completes one iteration: Iterated -> totalIterations.Add(1) *)
| AProduce (r : nat) (score : Z)  (* worker r's solver sends a solution on its channel *)
| AForward (r : nat)          (* worker r: syncResultChannel <- head of its queue (rendezvous with the aggregator) *)
| AFinish (r : nat)           (* worker r returns: semaphore released, waitGroup.Done *)
| ACompare                    (* aggregator processes the pending result *)
| ACancel                     (* deadline or caller cancellation *)
| ADispatcherExit             (* dispatcher saw ctx.Done, waited for all workers, closes the sync channel *)
| AClose.                     (* aggregator: range ended, close(resultChannel) *)

Definition pinit (iterations : Z) (runs : nat) (det : bool) (s0 : Z) (starts : list Z) : pstate :=
  mkP iterations runs det iterations 0 false [] 0 false (ainit s0 starts) None false.

Definition is_active (w : wphase) : bool := match w with WDone _ _ => false | _ => true end.
Definition active_count (ws : list wphase) : nat := length (filter is_active ws).

Fixpoint set_w (ws : list wphase) (r : nat) (w : wphase) : list wphase :=
  match ws, r with
  | [], _ => []
  | _ :: t, O => w :: t
  | h :: t, S k => h :: set_w t k w
  end.

Definition upd_w (st : pstate) (r : nat) (w : wphase) : pstate :=
  mkP (p_iterations st) (p_runs st) (p_deterministic st) (p_left st) (p_total st) (p_cancelled st)
      (set_w (p_workers st) r w) (p_in_cycle st) (p_disp_done st) (p_agg st) (p_pending st) (p_closed st).

(* [pstep st a = None]: the action is not enabled in st *)
Definition pstep (st : pstate) (a : action) : option pstate :=
  match a with
  | ASpawn =>
      if p_disp_done st || p_cancelled st then None else
      if (p_in_cycle st <? p_runs st)%nat && (active_count (p_workers st) <? p_runs st)%nat
      then Some (mkP (p_iterations st) (p_runs st) (p_deterministic st) (p_left st) (p_total st)
                     (p_cancelled st) (p_workers st ++ [WNew]) (S (p_in_cycle st)) false
                     (p_agg st) (p_pending st) (p_closed st))
      else None
  | ACycleEnd =>
      if p_disp_done st then None else
      if (p_in_cycle st =? p_runs st)%nat &&
         (negb (p_deterministic st) || (active_count (p_workers st) =? 0)%nat)
      then Some (mkP (p_iterations st) (p_runs st) (p_deterministic st) (p_left st) (p_total st)
                     (p_cancelled st) (p_workers st) 0 false (p_agg st) (p_pending st) (p_closed st))
      else None
  | AGrab r opt =>
      match nth_error (p_workers st) r with
      | Some WNew =>
          if opt <? 0 then None else
          let updated := p_left st - opt in
          let w := if updated + opt <=? 0 then WParked
                   else if updated <? 0 then WRun (updated + opt) 0 []
                   else WRun opt 0 [] in
          Some (mkP (p_iterations st) (p_runs st) (p_deterministic st) updated (p_total st)
                    (p_cancelled st) (set_w (p_workers st) r w) (p_in_cycle st) (p_disp_done st)
                    (p_agg st) (p_pending st) (p_closed st))
      | _ => None
      end
  | AIterate r =>
      match nth_error (p_workers st) r with
      | Some (WRun g d q) =>
          if d <? g then
            let total := p_total st + 1 in
            Some (mkP (p_iterations st) (p_runs st) (p_deterministic st) (p_left st) total
                      (p_cancelled st || (p_iterations st <=? total))
                      (set_w (p_workers st) r (WRun g (d + 1) q)) (p_in_cycle st) (p_disp_done st)
                      (p_agg st) (p_pending st) (p_closed st))
          else None
      | _ => None
      end
  | AProduce r x =>
      match nth_error (p_workers st) r with
      | Some (WRun g d q) => Some (upd_w st r (WRun g d (q ++ [x])))
      | _ => None
      end
  | AForward r =>
      match nth_error (p_workers st) r, p_pending st with
      | Some (WRun g d (x :: q)), None =>
          if p_closed st then None else
          Some (mkP (p_iterations st) (p_runs st) (p_deterministic st) (p_left st) (p_total st)
                    (p_cancelled st) (set_w (p_workers st) r (WRun g d q)) (p_in_cycle st)
                    (p_disp_done st) (p_agg st) (Some x) (p_closed st))
      | _, _ => None
      end
  | AFinish r =>
      match nth_error (p_workers st) r with
      | Some (WRun g d []) => Some (upd_w st r (WDone g d))     (* solver channel drained and closed *)
      | Some WParked => if p_cancelled st then Some (upd_w st r (WDone 0 0)) else None
      | _ => None
      end
  | ACompare =>
      match p_pending st with
      | Some x => Some (mkP (p_iterations st) (p_runs st) (p_deterministic st) (p_left st) (p_total st)
                            (p_cancelled st) (p_workers st) (p_in_cycle st) (p_disp_done st)
                            (arecv (p_agg st) x) None (p_closed st))
      | None => None
      end
  | ACancel =>
      Some (mkP (p_iterations st) (p_runs st) (p_deterministic st) (p_left st) (p_total st) true
                (p_workers st) (p_in_cycle st) (p_disp_done st) (p_agg st) (p_pending st) (p_closed st))
  | ADispatcherExit =>
      if p_cancelled st && negb (p_disp_done st) && (active_count (p_workers st) =? 0)%nat
      then Some (mkP (p_iterations st) (p_runs st) (p_deterministic st) (p_left st) (p_total st)
                     (p_cancelled st) (p_workers st) (p_in_cycle st) true (p_agg st) (p_pending st) (p_closed st))
      else None
  | AClose =>
      if p_disp_done st && negb (p_closed st) &&
         match p_pending st with None => true | Some _ => false end
      then Some (mkP (p_iterations st) (p_runs st) (p_deterministic st) (p_left st) (p_total st)
                     (p_cancelled st) (p_workers st) (p_in_cycle st) (p_disp_done st) (p_agg st) None true)
      else None
  end.

(* run a schedule; actions that are not enabled are skipped (a schedule is any
   list of actions, so quantifying over schedules covers all interleavings) *)
Fixpoint prun (st : pstate) (sched : list action) : pstate :=
  match sched with
  | [] => st
  | a :: rest => match pstep st a with Some st' => prun st' rest | None => prun st rest end
  end.

(* performed iterations of worker phases *)
Definition w_done (w : wphase) : Z := match w with WRun _ d _ => d | WDone _ d => d | _ => 0 end.
Definition w_granted (w : wphase) : Z := match w with WRun g _ _ => g | WDone g _ => g | _ => 0 end.
