(* The SkipVehicle hint of the constraint estimates (definitions only).

   EstimateIsViolated answers (violated, hint).  solution.go checkConstraints /
   checkConstraintsAndEstimateDeltaScore walk the constraints of the model in
   their installed order and hand back the hint of the FIRST violated one; the
   best-move searches (solution_vehicle.go bestMovePlanSingleStop on its first
   position, bestMoveSequence / firstMovePlanStopsUnit on every combination)
   give the whole vehicle up when that hint says SkipVehicle.  The searches are
   complete only if a SkipVehicle hint is never wrong: whenever it is given,
   NO placement of the unit on that vehicle passes the estimates.

   Which estimates hint SkipVehicle (model_maximum.go, _maximum_stops.go,
   _attributes.go): attributes and maximum stops whenever they are violated;
   the maximum of a resource in its two position-independent branches (only
   negative contributions; no negative contributions and the level at the end
   of the vehicle plus the unit's own contribution exceeds the maximum); the
   distance limit, the temporal estimates and the wait estimates never. *)

From Coq Require Import List ZArith Bool Arith.
From NR Require Import Model.Engine Model.Estimates Model.Search.
Import ListNotations.
Open Scope Z_scope.

Definition hint_capacity (inp : input) (s : state) (mv : move) (r : nat) : bool :=
  let v := mv_vehicle mv in
  let us := unit_stops inp (mv_unit mv) in
  let val := fun x => resource_value inp v r x in
  let no_neg := negb (res_has_neg inp r) in
  let maxv := capacity inp v r in
  if no_neg && forallb (fun x => val x =? 0) us then false
  else if res_has_neg inp r && negb (res_has_pos inp r) then true
  else if no_neg then maxv <? nthZ (c_levels (last_cell (get_route s v))) r + sumZ (map val us)
  else false.

(* the installed constraints as the estimate sees them on one move:
   (name, violated, hints SkipVehicle) *)
Inductive cname := CNAttributes | CNCapacity (r : nat) | CNDistance | CNEnd | CNLatestStart
                 | CNMaxStops | CNWaitStop | CNWaitVehicle.

Definition estimates_with_hints (inp : input) (s : state) (mv : move) : list (cname * bool * bool) :=
  (if has_attributes inp then [(CNAttributes, est_attributes inp s mv, est_attributes inp s mv)] else []) ++
  (if has_capacity inp
   then map (fun r => (CNCapacity r, est_capacity inp s mv r, hint_capacity inp s mv r)) (seqn (in_nres inp))
   else []) ++
  (if has_distance_limit inp then [(CNDistance, est_distance inp s mv, false)] else []) ++
  (if has_latest_end inp then [(CNEnd, est_latest_end inp s mv, false)] else []) ++
  (if has_latest_start inp then [(CNLatestStart, est_latest_start inp s mv, false)] else []) ++
  (if has_max_stops inp then [(CNMaxStops, est_max_stops inp s mv, est_max_stops inp s mv)] else []) ++
  (if has_max_wait_stop inp then [(CNWaitStop, est_max_wait_stop inp s mv, false)] else []) ++
  (if has_max_wait_vehicle inp then [(CNWaitVehicle, est_max_wait_vehicle inp s mv, false)] else []).

(* checkConstraints on the constraints in some order: None = feasible,
   Some h = violated and the hint of the first violated constraint says
   SkipVehicle iff h *)
Definition first_violated_hint (l : list (cname * bool * bool)) : option bool :=
  match find (fun c => snd (fst c)) l with
  | Some c => Some (snd c)
  | None => None
  end.

(* some violated constraint hints SkipVehicle *)
Definition skip_vehicle (inp : input) (s : state) (mv : move) : bool :=
  existsb (fun c => snd (fst c) && snd c) (estimates_with_hints inp s mv).

(* two moves place the same unit on the same vehicle (same number of stops) *)
Definition same_target (mv mv' : move) : Prop :=
  mv_unit mv' = mv_unit mv /\ mv_vehicle mv' = mv_vehicle mv /\
  length (mv_places mv') = length (mv_places mv).

(* the single-stop move that puts stop x of unit u in front of position g of vehicle v *)
Definition single_move (u v x g : nat) : move := mkMove u v [(x, g)].
