(* Extraction of the executable models.  ExtrOcamlBasic only: bool, option,
   unit, list, prod, sumbool, sumor map to OCaml's; nat, positive, Z, Q stay
   Coq datatypes.  No Extract Constant. *)
From Coq Require Import ExtrOcamlBasic.
From Coq Require Import List ZArith QArith.
From NR Require Import Model.TimeDep Model.Engine Model.Estimates Model.Search Model.Format Model.Units Model.SolverLoop Model.PlanUnitsBuild Model.NoMix Model.Hints Model.SolUser.

Extraction "model.ml"
  TimeDep.td_empty TimeDep.set_expression TimeDep.value_at_value
  TimeDep.expression_at_value
  Z.add Z.mul Z.opp Z.of_nat Z.to_nat Nat.add Nat.mul
  Qred Qplus Qmult Qminus Qdiv Qcompare
  Engine.new_solution Engine.exec_move Engine.unplan_unit Engine.get_unit Engine.from_scratch Engine.has_max_wait_vehicle Engine.has_capacity Engine.has_distance_limit
  Estimates.move_executable Estimates.exec_checked Engine.unit_planned
  Search.all_orders Search.generate_all Search.all_combinations Search.sequence_generator
  Format.format_solution
  Units.g_new_solution Units.g_exec_move Units.g_exec_checked Units.g_move_executable Units.g_unplan_unit
  Units.g_unplan_group Units.g_exec_units Units.g_unplan_vehicle Units.members_of Units.member_group Units.top_planned Units.is_group_id Units.g_format_solution
  SolverLoop.srun SolverLoop.arun SolverLoop.pinit SolverLoop.prun
  PlanUnitsBuild.all_sequences
  NoMix.nm_history NoMix.nm_validate NoMix.item_of_delta NoMix.nm_contents
  Hints.estimates_with_hints
  SolUser.sol_guard SolUser.sol_ok SolUser.sol_violation.
