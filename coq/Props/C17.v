(* C17: the time-dependent duration expression built by SetExpression calls
   (model: NR.Model.TimeDep) on a disjoint, minute-aligned layout that spans
   at most one week, whatever the order of the calls.
   Proofs are in NR.Proofs.TimeDep_proofs; this file only states the
   theorems.  A frame is (start second, end second, expression index);
   index 0 is the default expression; [vals k] is the value of expression k. *)

From Coq Require Import List ZArith QArith.
From NR Require Import Model.TimeDep Proofs.TimeDep_proofs Proofs.TimeDep_accepted.
Import ListNotations.
Open Scope Q_scope.

(* every call of the sequence is accepted *)
Theorem C17_accepts : forall fs,
  layout_ok fs ->
  Forall (fun r => r = SetOk) (snd (set_expressions td_empty fs)).
Proof. exact C17_accepts_proof. Qed.
Print Assumptions C17_accepts.

(* the expression in force at v is that of the frame containing v, the
   default one outside every frame *)
Theorem C17_frame_lookup : forall fs v,
  layout_ok fs -> 0 <= v -> v < inject_Z max_time ->
  (forall s e k, In (s, e, k) fs -> in_frame v (s, e, k) ->
     expression_at_value (fst (set_expressions td_empty fs)) v = k) /\
  ((forall f, In f fs -> ~ in_frame v f) ->
     expression_at_value (fst (set_expressions td_empty fs)) v = 0%nat).
Proof. exact C17_frame_lookup_proof. Qed.
Print Assumptions C17_frame_lookup.

(* durations are never negative *)
Theorem C17_nonneg : forall fs vals v x,
  layout_ok fs -> vals_ok vals -> 0 <= v ->
  value_at_value (fst (set_expressions td_empty fs)) vals v = Val x ->
  0 <= x.
Proof. exact C17_nonneg_proof. Qed.
Print Assumptions C17_nonneg.

(* FIFO: leaving later never means arriving earlier *)
Theorem C17_fifo : forall fs vals v1 v2 x1 x2,
  layout_ok fs -> vals_ok vals -> 0 <= v1 -> v1 <= v2 ->
  value_at_value (fst (set_expressions td_empty fs)) vals v1 = Val x1 ->
  value_at_value (fst (set_expressions td_empty fs)) vals v2 = Val x2 ->
  v1 + x1 <= v2 + x2.
Proof. exact C17_fifo_proof. Qed.
Print Assumptions C17_fifo.

(* a trip that fits in one frame takes that frame's duration *)
Theorem C17_inside_one_frame : forall fs vals s e k v x,
  layout_ok fs -> vals_ok vals -> In (s, e, k) fs ->
  inject_Z s <= v -> v < inject_Z e -> v + vals k <= inject_Z e ->
  value_at_value (fst (set_expressions td_empty fs)) vals v = Val x ->
  x == vals k.
Proof. exact C17_inside_one_frame_proof. Qed.
Print Assumptions C17_inside_one_frame.

(* a trip outside every frame that ends before the next frame takes the
   default duration *)
Theorem C17_outside_frames : forall fs vals v x,
  layout_ok fs -> vals_ok vals -> 0 <= v ->
  (forall f, In f fs -> ~ in_frame v f) ->
  (forall s e k, In (s, e, k) fs -> v <= inject_Z s -> v + vals 0%nat <= inject_Z s) ->
  value_at_value (fst (set_expressions td_empty fs)) vals v = Val x ->
  x == vals 0%nat.
Proof. exact C17_outside_frames_proof. Qed.
Print Assumptions C17_outside_frames.

(* no panic: every non-negative departure has a value, however late
   (fs = [] included) *)
Theorem C17_total : forall fs vals v,
  layout_ok fs -> vals_ok vals -> 0 <= v ->
  exists x, value_at_value (fst (set_expressions td_empty fs)) vals v = Val x.
Proof. exact C17_total_proof. Qed.
Print Assumptions C17_total.

(* REFUTED for the code before the repair (set_expression_lenient): "for any
   set of time frames" includes frames the library accepts.  Two overlapping
   frames listed out of chronological order were both accepted - the overlap
   test only looked at the element the new frame starts in - and leaving later
   then arrives EARLIER.  The repaired code (set_expression, what the theorems
   above are about) answers the second call with the overlap error and keeps
   the first frame. *)
Theorem C17_overlap_accepted_refuted :
  exists x1 x2,
    snd (set_expressions_lenient td_empty ov_frames) = [SetOk; SetOk] /\
    vals_ok ov_vals /\ 0 <= 431999 # 8 /\ 431999 # 8 <= 54000 /\
    value_at_value (fst (set_expressions_lenient td_empty ov_frames)) ov_vals (431999 # 8) = Val x1 /\
    value_at_value (fst (set_expressions_lenient td_empty ov_frames)) ov_vals 54000 = Val x2 /\
    54000 + x2 < (431999 # 8) + x1 /\
    snd (set_expressions td_empty ov_frames) = [SetOk; SetErr 7] /\
    td_elems (fst (set_expressions td_empty ov_frames)) = td_elems (fst (set_expressions td_empty [(54000, 54120, 2%nat)]%Z)).
Proof. exact C17_overlap_accepted_refuted_proof. Qed.
Print Assumptions C17_overlap_accepted_refuted.

(* "For ANY set of time frames": the theorems above are about layouts with
   pairwise disjoint frames.  With the repaired overlap test they extend to
   EVERY list of well-formed frames (minute-aligned, non-empty, inside the
   horizon, a frame expression each: frame_ok) that the library accepts,
   whatever the order of the calls and without any disjointness hypothesis -
   an overlapping frame is never accepted.  If every call is answered ok the
   expression built is well-formed (or still empty) ... *)
Theorem C17_accepted_is_well_formed : forall fs,
  Forall frame_ok fs ->
  Forall (fun r => r = SetOk) (snd (set_expressions td_empty fs)) ->
  (fs = [] /\ fst (set_expressions td_empty fs) = td_empty) \/ wf_td (fst (set_expressions td_empty fs)).
Proof. exact accepted_is_wf_proof. Qed.
Print Assumptions C17_accepted_is_well_formed.

(* ... durations are never negative ... *)
Theorem C17_accepted_nonneg : forall fs vals v x,
  Forall frame_ok fs -> Forall (fun r => r = SetOk) (snd (set_expressions td_empty fs)) ->
  vals_ok vals -> 0 <= v ->
  value_at_value (fst (set_expressions td_empty fs)) vals v = Val x -> 0 <= x.
Proof. exact accepted_nonneg_proof. Qed.
Print Assumptions C17_accepted_nonneg.

(* ... and leaving later never arrives earlier.  (For the code before the
   repair this is false: C17_overlap_accepted_refuted above.) *)
Theorem C17_accepted_fifo : forall fs vals v1 v2 x1 x2,
  Forall frame_ok fs -> Forall (fun r => r = SetOk) (snd (set_expressions td_empty fs)) ->
  vals_ok vals -> 0 <= v1 -> v1 <= v2 ->
  value_at_value (fst (set_expressions td_empty fs)) vals v1 = Val x1 ->
  value_at_value (fst (set_expressions td_empty fs)) vals v2 = Val x2 ->
  v1 + x1 <= v2 + x2.
Proof. exact accepted_fifo_proof. Qed.
Print Assumptions C17_accepted_fifo.
