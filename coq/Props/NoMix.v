(* The no-mix constraint: the fast estimate is sound for the exact rule
   (Model/NoMix.v).  Statements only; the proofs are in Proofs/NoMix_proofs.v.

   The exact rule (nm_update / nm_run) answers with an ERROR, which the engine
   cannot treat as a rejected move: a move the estimate lets through and the
   exact rule then refuses is an engine error (properties C09 and C16).  The
   theorems below say that this cannot happen, on any route, for any unit and
   any placement, and that it could with each of the three things the code did
   differently before it was repaired. *)

From Coq Require Import List ZArith Bool Arith.
Import ListNotations.
From NR.Model Require Import NoMix.
From NR.Proofs Require Import NoMix_proofs.
Open Scope Z_scope.

(* ---- 1. what a consistent route is ---------------------------------- *)

(* the exact rule in closed form: with positive quantities a route is accepted
   exactly when, in front of every stop, no content has been removed more often
   than inserted and at most one content is on board *)
Theorem NM_run_spec : forall its,
  items_positive its = true ->
  ((exists ds, nm_run nd_first its = Some ds) <->
   (forall k, (k <= length its)%nat ->
      (forall n, 0 <= name_sum n (firstn k its)) /\
      (forall n m, 0 < name_sum n (firstn k its) -> 0 < name_sum m (firstn k its) -> n = m))).
Proof. exact nm_run_spec. Qed.
Print Assumptions NM_run_spec.

(* the quantity the code reports is the sum of the deltas so far *)
Theorem NM_run_quantity : forall its ds k d,
  nm_run nd_first its = Some ds ->
  nth_error ds k = Some d ->
  nd_q d = fold_right Z.add 0 (map item_delta (firstn (S k) its)).
Proof. exact nm_run_quantity. Qed.
Print Assumptions NM_run_quantity.

(* ---- 2. the estimate is sound --------------------------------------- *)

(* any consistent route [o] (items of the stops behind the first stop, the
   last stop of the vehicle included), any items placed at any gaps: if the
   estimate does not object, the exact rule accepts the new route *)
Theorem NM_estimate_sound : forall o ds pl,
  nm_run nd_first o = Some ds ->
  items_positive o = true ->
  items_positive (map fst pl) = true ->
  items_named (map fst pl) = true ->
  unit_balanced (map fst pl) = true ->
  places_ok (length o) 0 pl = true ->
  nm_estimate_places true true (nd_first :: ds) pl = false ->
  exists ds', nm_run nd_first (nm_merge o pl) = Some ds'.
Proof. exact nm_estimate_sound. Qed.
Print Assumptions NM_estimate_sound.

(* the hypotheses can be met and the estimate does let moves through *)
Example NM_estimate_sound_nonvacuous :
  let o := [Ins 1 2; Rem 1 1; Rem 1 1; NoItem] in
  let pl := [(NoItem, 0%nat); (Ins 1 1, 1%nat); (Rem 1 1, 3%nat)] in
  exists ds, nm_run nd_first o = Some ds /\
    items_positive o = true /\ items_positive (map fst pl) = true /\ items_named (map fst pl) = true /\
    unit_balanced (map fst pl) = true /\ places_ok (length o) 0 pl = true /\
    nm_estimate_places true true (nd_first :: ds) pl = false.
Proof. exact nm_estimate_sound_nonvacuous. Qed.
Print Assumptions NM_estimate_sound_nonvacuous.

(* ---- 3. ... and was not, four times ---------------------------------- *)

(* the estimate that decided from the FIRST stop of the move alone whether the
   move carries items (skip = false): a unit whose first stop carries none *)
Theorem NM_first_stop_only_refuted : exists o ds pl,
  nm_run nd_first o = Some ds /\
  items_positive o = true /\ items_positive (map fst pl) = true /\
  items_named o = true /\ items_named (map fst pl) = true /\
  unit_balanced (map fst pl) = true /\ unit_one_name None (map fst pl) = true /\
  places_ok (length o) 0 pl = true /\
  nm_estimate_places false true (nd_first :: ds) pl = false /\
  nm_run nd_first (nm_merge o pl) = None.
Proof. exact nm_first_stop_only_refuted. Qed.
Print Assumptions NM_first_stop_only_refuted.

(* the estimate that let a unit remove what OTHER units had on board in front
   of the first stop of the move (strict = false) *)
Theorem NM_base_quantity_refuted : exists o ds pl,
  nm_run nd_first o = Some ds /\
  items_positive o = true /\ items_positive (map fst pl) = true /\
  items_named o = true /\ items_named (map fst pl) = true /\
  unit_balanced (map fst pl) = true /\ unit_one_name None (map fst pl) = true /\
  places_ok (length o) 0 pl = true /\
  nm_estimate_places true false (nd_first :: ds) pl = false /\
  nm_run nd_first (nm_merge o pl) = None.
Proof. exact nm_base_quantity_refuted. Qed.
Print Assumptions NM_base_quantity_refuted.

(* items of quantity zero on the route (kept as items that remove nothing) *)
Theorem NM_zero_quantity_refuted : exists o ds pl,
  nm_run nd_first o = Some ds /\
  items_positive (map fst pl) = true /\
  items_named o = true /\ items_named (map fst pl) = true /\
  unit_balanced (map fst pl) = true /\ unit_one_name None (map fst pl) = true /\
  places_ok (length o) 0 pl = true /\
  nm_estimate_places true true (nd_first :: ds) pl = false /\
  nm_run nd_first (nm_merge o pl) = None.
Proof. exact nm_zero_quantity_refuted. Qed.
Print Assumptions NM_zero_quantity_refuted.

(* a content whose name is the empty string, which the code uses for "nothing
   on board": a stop without an item behind the end of a tour looks like a stop
   of the tour of that content *)
Theorem NM_empty_name_refuted : exists o ds pl,
  nm_run nd_first o = Some ds /\
  items_positive o = true /\ items_positive (map fst pl) = true /\
  items_named o = true /\
  unit_balanced (map fst pl) = true /\ unit_one_name None (map fst pl) = true /\
  places_ok (length o) 0 pl = true /\
  nm_estimate_places true true (nd_first :: ds) pl = false /\
  nm_run nd_first (nm_merge o pl) = None.
Proof. exact nm_empty_name_refuted. Qed.
Print Assumptions NM_empty_name_refuted.

(* ---- 4. histories ---------------------------------------------------- *)

(* any script of plans and un-plans, started on the empty vehicle: no
   operation ever ends in an error, *)
Theorem NM_history_never_errors : forall inp ops,
  nm_input_ok inp = true ->
  forallb (fun x => negb (out_is_error (fst x))) (nm_history inp [] ops) = true.
Proof. exact nm_history_never_errors. Qed.
Print Assumptions NM_history_never_errors.

(* a move the estimate called executable was executed (C09), *)
Theorem NM_history_executable_is_done : forall inp ops r route,
  nm_input_ok inp = true ->
  In (OPlan true r, route) (nm_history inp [] ops) -> r = NMDone.
Proof. exact nm_history_executable_is_done. Qed.
Print Assumptions NM_history_executable_is_done.

(* and every route on the way is accepted by the exact rule and holds whole
   units only *)
Theorem NM_history_routes_consistent : forall inp ops o route,
  nm_input_ok inp = true ->
  In (o, route) (nm_history inp [] ops) ->
  (exists ds, nm_run nd_first (nm_route_items inp route) = Some ds) /\
  NoDup route /\
  (forall u, (u < length (nmi_units inp))%nat ->
     (forall s, In s (nm_unit inp u) -> In s route) \/
     (forall s, In s (nm_unit inp u) -> ~ In s route)).
Proof. exact nm_history_routes_consistent. Qed.
Print Assumptions NM_history_routes_consistent.

Example NM_history_nonvacuous :
  let inp := mkNMInput [Ins 1 2; Rem 1 1; Rem 1 1; NoItem; Ins 1 1; Rem 1 1; Ins 2 1; Rem 2 1]
                       [[0; 1; 2]; [3; 4; 5]; [6; 7]]%nat in
  nm_input_ok inp = true /\
  map fst (nm_history inp [] [NPlan 0 [0; 0; 0]; NPlan 1 [0; 1; 2]; NPlan 2 [1; 1]; NPlan 2 [4; 6];
                              NUnplan 0; NPlan 0 [0; 3; 3]]%nat)
  = [OPlan true NMDone; OPlan true NMDone; OPlan true NMDone; OSkip; OUnplan NMDone; OPlan false NMNotDone].
Proof. exact nm_history_nonvacuous. Qed.
Print Assumptions NM_history_nonvacuous.
