(* C03, the "ordered" part: the stops of a planned unit are on their route in an
   order the unit's precedence arcs allow: for every arc (a, b, direct) of a
   unit with a and b on a route, a is before b, and b directly follows a when
   the arc is direct.

   The engine (NR.Model.Engine) executes whatever placement a move carries
   ([move_ok] does not mention the arcs); the order is established by the move
   generators (NR.Model.Search: allowed orders of the unit, placements that
   keep direct pairs together and split no direct pair already on the route).
   These theorems say that the engine PRESERVES the order under such moves,
   that the generators' specification yields such moves, and that the
   hypothesis cannot be dropped.

   Model: NR.Model.Engine, NR.Model.Search; proofs: NR.Proofs.Order_proofs.
   This file only states the theorems.

   Definitions used in the statements (NR.Proofs.Order_proofs; [index_of] is
   the one of NR.Model.Search, the position of the first occurrence):

   wf_arcs inp :=
     forall u, u < nunits inp -> forall a b d,
       In (a, b, d) (iu_arcs (get_unit inp u)) ->
       In a (iu_stops (get_unit inp u)) /\ In b (iu_stops (get_unit inp u))
       the endpoints of a unit's arcs are stops of that unit (units are the
       connected components of the precedence graph).  NOT part of wf_input;
       it is the first half of [arcs_wf] of Props/C10.v for every unit.
       Needed: see Order_needs_wf_arcs.
   route_ordered arcs r :=
     forall a b d, In (a, b, d) arcs -> In a r -> In b r ->
       index_of a r < index_of b r /\ (d = true -> index_of b r = S (index_of a r))
   ordered inp s :=
     forall u v, u < nunits inp -> v < nveh inp ->
       route_ordered (iu_arcs (get_unit inp u)) (route_stops (get_route s v))
   direct_pair arcs x y := "(x, y, true) is in arcs"            (a bool)
   pair_of arcs od k  := direct_pair arcs (nth k od 0) (nth (S k) od 0)
       the [pair] argument of generate / placement_ok: stops k and k+1 of the
       order being placed are a direct pair of the unit
   split_of inp r g   := existsb (fun u => direct_pair (iu_arcs u) (nth (g-1) r 0) (nth g r 0))
                                 (in_units inp)
       the [split] argument: gap g (directly before route position g) lies
       between two stops that are a direct pair of some unit
   move_ordered inp s mv :=
     let arcs := iu_arcs (get_unit inp (mv_unit mv)) in
     let od   := map fst (mv_places mv) in      (stops, in insertion order)
     let gaps := map snd (mv_places mv) in
     let r    := route_stops (get_route s (mv_vehicle mv)) in
     order_ok arcs od = true /\                                (allowed order)
     pairs_together (pair_of arcs od) 0 gaps = true /\         (direct pair: same gap)
     forallb (fun g => negb (split_of inp r g)) gaps = true    (no direct pair split)
   fresh_ordered inp s h := like [fresh]: every op is [op_ok] for the state it
     is executed on, and additionally every OpPlan mv is [move_ordered] there. *)

From Coq Require Import List Bool Arith ZArith Permutation Sorted.
From NR Require Import Model.Engine Model.Search Proofs.Engine_inv Proofs.Engine_spec
                       Proofs.Order_proofs.
Import ListNotations.
Local Open Scope nat_scope.

(* ---- 1. the engine preserves the order ------------------------------------ *)

(* whatever the result: Done (the route of mv_vehicle becomes insert_places of
   the old one), Rejected (rollback restores the routes), NotExecutable *)
Theorem Order_exec_move : forall inp s mv,
  wf_input inp -> wf_arcs inp -> InvT inp s -> ordered inp s ->
  move_ok inp s mv -> move_ordered inp s mv ->
  ordered inp (fst (exec_move inp s mv)).
Proof. exact Order_exec_move_proof. Qed.
Print Assumptions Order_exec_move.

(* removing a whole unit keeps the relative order of the other stops and
   separates no neighbours (no condition on the unit; wf_arcs not needed) *)
Theorem Order_unplan_unit : forall inp s u,
  wf_input inp -> InvT inp s -> ordered inp s -> u < nunits inp ->
  ordered inp (fst (unplan_unit inp s u)).
Proof. exact Order_unplan_unit_proof. Qed.
Print Assumptions Order_unplan_unit.

Theorem Order_start : forall inp s0,
  wf_input inp -> wf_arcs inp -> new_solution inp = Some s0 -> ordered inp s0.
Proof. exact Order_start_proof. Qed.
Print Assumptions Order_start.

(* ---- 2. every state of an order-respecting history ------------------------ *)

Theorem Order_reachable : forall inp s0 h,
  wf_input inp -> wf_arcs inp -> new_solution inp = Some s0 -> fresh_ordered inp s0 h ->
  Forall (fun s => ordered inp s /\ InvT inp s) (run inp s0 h).
Proof. exact Order_reachable_proof. Qed.
Print Assumptions Order_reachable.

(* such a history is in particular fresh: C01..C08 apply to its states *)
Theorem Order_fresh_ordered_fresh : forall inp s h,
  fresh_ordered inp s h -> fresh inp s h.
Proof. exact Order_fresh_ordered_fresh_proof. Qed.
Print Assumptions Order_fresh_ordered_fresh.

(* the user-facing corollary *)
Theorem Order_unit_on_route : forall inp s0 h s u v a b d,
  wf_input inp -> wf_arcs inp ->
  new_solution inp = Some s0 -> fresh_ordered inp s0 h -> In s (run inp s0 h) ->
  u < nunits inp -> v < nveh inp ->
  In (a, b, d) (iu_arcs (get_unit inp u)) ->
  In a (route_stops (get_route s v)) -> In b (route_stops (get_route s v)) ->
  index_of a (route_stops (get_route s v)) < index_of b (route_stops (get_route s v)) /\
  (d = true ->
   index_of b (route_stops (get_route s v)) = S (index_of a (route_stops (get_route s v)))).
Proof. exact Order_unit_on_route_proof. Qed.
Print Assumptions Order_unit_on_route.

(* the same without positions: the route reads  pre, a, mid, b, post  and mid is
   empty for a direct arc *)
Theorem Order_unit_on_route_split : forall inp s0 h s u v a b d,
  wf_input inp -> wf_arcs inp ->
  new_solution inp = Some s0 -> fresh_ordered inp s0 h -> In s (run inp s0 h) ->
  u < nunits inp -> v < nveh inp ->
  In (a, b, d) (iu_arcs (get_unit inp u)) ->
  In a (route_stops (get_route s v)) -> In b (route_stops (get_route s v)) ->
  exists pre mid post,
    route_stops (get_route s v) = pre ++ a :: mid ++ b :: post /\ (d = true -> mid = []).
Proof. exact Order_unit_on_route_split_proof. Qed.
Print Assumptions Order_unit_on_route_split.

(* ---- 3. the generators build such moves ----------------------------------- *)

(* specification form: an allowed order [od] of unit u (order_ok) and a gap list
   accepted by placement_ok, with split / pair read off the route of v and the
   order; m = number of gaps of the route.  The move is well-formed (move_ok)
   and order-respecting. *)
Theorem Order_placement_ok_moves : forall inp s u v od l,
  u < nunits inp -> v < nveh inp ->
  Permutation od (iu_stops (get_unit inp u)) -> od <> [] ->
  order_ok (iu_arcs (get_unit inp u)) od = true ->
  placement_ok (split_of inp (route_stops (get_route s v)))
               (pair_of (iu_arcs (get_unit inp u)) od)
               (length od) (length (get_route s v) - 1) l = true ->
  move_ok inp s (mkMove u v (combine od l)) /\ move_ordered inp s (mkMove u v (combine od l)).
Proof. exact Order_placement_ok_moves_proof. Qed.
Print Assumptions Order_placement_ok_moves.

(* enumeration form (through C10_all_orders_spec and C10_generate_spec): [od] is
   one of the allowed orders, [l] one of the gap lists generate_all builds *)
Theorem Order_generated_moves : forall inp s u v od l,
  wf_input inp -> u < nunits inp -> v < nveh inp ->
  In od (all_orders (iu_stops (get_unit inp u)) (iu_arcs (get_unit inp u))) ->
  In l (generate_all (split_of inp (route_stops (get_route s v)))
                     (pair_of (iu_arcs (get_unit inp u)) od)
                     (length od) (length (get_route s v) - 1)) ->
  move_ok inp s (mkMove u v (combine od l)) /\ move_ordered inp s (mkMove u v (combine od l)).
Proof. exact Order_generated_moves_proof. Qed.
Print Assumptions Order_generated_moves.

(* 1 and 3 together: executing an enumerated move keeps the state ordered *)
Theorem Order_generated_exec : forall inp s u v od l,
  wf_input inp -> wf_arcs inp -> InvT inp s -> ordered inp s ->
  u < nunits inp -> v < nveh inp ->
  In od (all_orders (iu_stops (get_unit inp u)) (iu_arcs (get_unit inp u))) ->
  In l (generate_all (split_of inp (route_stops (get_route s v)))
                     (pair_of (iu_arcs (get_unit inp u)) od)
                     (length od) (length (get_route s v) - 1)) ->
  ordered inp (fst (exec_move inp s (mkMove u v (combine od l)))) /\
  InvT inp (fst (exec_move inp s (mkMove u v (combine od l)))).
Proof. exact Order_generated_exec_proof. Qed.
Print Assumptions Order_generated_exec.

(* ---- 4. non-vacuity ------------------------------------------------------- *)

(* ox_inp: one vehicle (first stop 3, last stop 4), unit 0 = stops [0; 1] with
   the arc (0, 1, true), unit 1 = stop [2].
   ox_mv_good = mkMove 0 0 [(0, 1); (1, 1)]: 0 and 1 into the same gap.
   ox_h = [OpPlan ox_mv_good; OpPlan (mkMove 1 0 [(2, 3)]); OpUnplan 0]. *)
Example Order_example :
  wf_input ox_inp /\ wf_arcs ox_inp /\ new_solution ox_inp = Some ox_s0 /\
  move_ok ox_inp ox_s0 ox_mv_good /\ move_ordered ox_inp ox_s0 ox_mv_good /\
  exec_move ox_inp ox_s0 ox_mv_good = (ox_s1, Done) /\
  route_stops (get_route ox_s1 0) = [3; 0; 1; 4] /\
  ordered ox_inp ox_s1 /\
  fresh_ordered ox_inp ox_s0 ox_h /\
  map (fun s => route_stops (get_route s 0)) (run ox_inp ox_s0 ox_h)
  = [[3; 4]; [3; 0; 1; 4]; [3; 0; 1; 2; 4]; [3; 2; 4]].
Proof. exact Order_example_proof. Qed.
Print Assumptions Order_example.

(* the theorems apply to that history *)
Example Order_example_run :
  Forall (fun s => ordered ox_inp s /\ InvT ox_inp s) (run ox_inp ox_s0 ox_h).
Proof. exact ox_run_ordered. Qed.
Print Assumptions Order_example_run.

(* ---- 5. the hypotheses are needed ------------------------------------------ *)

(* a move_ok move that is not move_ordered, executed with result Done from an
   ordered state, reaches a state that is not ordered.
   Witness: ox_inp, start solution, mkMove 0 0 [(1, 1); (0, 1)] (1 before 0):
   route [3; 1; 0; 4]. *)
Theorem Order_needs_move_ordered :
  exists inp s mv,
    wf_input inp /\ wf_arcs inp /\ InvT inp s /\ ordered inp s /\ move_ok inp s mv /\
    ~ move_ordered inp s mv /\ snd (exec_move inp s mv) = Done /\
    ~ ordered inp (fst (exec_move inp s mv)).
Proof. exact needs_move_ordered. Qed.
Print Assumptions Order_needs_move_ordered.

(* the same statement with a second witness that fails only part (iii) of
   move_ordered: ox_inp with unit 0 planned (route [3; 0; 1; 4]) and
   mkMove 1 0 [(2, 2)], stop 2 of the OTHER unit into the gap between the direct
   pair 0, 1: route [3; 0; 2; 1; 4]. *)
Theorem Order_needs_no_split :
  exists inp s mv,
    wf_input inp /\ wf_arcs inp /\ InvT inp s /\ ordered inp s /\ move_ok inp s mv /\
    order_ok (iu_arcs (get_unit inp (mv_unit mv))) (map fst (mv_places mv)) = true /\
    ~ move_ordered inp s mv /\ snd (exec_move inp s mv) = Done /\
    ~ ordered inp (fst (exec_move inp s mv)).
Proof. exact needs_no_split. Qed.
Print Assumptions Order_needs_no_split.

(* without wf_arcs even the start solution can fail: unit arcs [(3, 3, false)],
   a loop on the vehicle's first stop *)
Theorem Order_needs_wf_arcs :
  exists inp s0, wf_input inp /\ new_solution inp = Some s0 /\ ~ wf_arcs inp /\ ~ ordered inp s0.
Proof. exact needs_wf_arcs. Qed.
Print Assumptions Order_needs_wf_arcs.
