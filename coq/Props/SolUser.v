(* C19, third level: user constraints with a per-SOLUTION exact check and an
   estimate that always answers "not violated" (Model/SolUser.v: rules on the
   routes - balance of the route sizes, a cap on the stops planned - as a guard
   around the operations of the engine of Model/Engine.v; sf_step = the guarded
   step, sf_reachable = the states of the guarded engine from a start solution
   that satisfies the rules).  Proofs are in NR.Proofs.SolUser_proofs; this file
   only states the theorems.  Definitions used from the proofs files:
     step / op / op_ok / reachable / same_obs  (Proofs/Engine_inv.v)
     sf_step inp atoms s o = sol_guard atoms (length (in_user inp)) s (step inp s o)
     sf_reachable: closure of sf_new_solution under sf_step on well-formed ops. *)
From Coq Require Import List ZArith Bool Arith.
From NR Require Import Model.Engine Model.SolUser Proofs.Engine_inv Proofs.Engine_spec Proofs.SolUser_proofs.
Import ListNotations.
Open Scope Z_scope.

(* every state of the guarded engine is a state of the engine: all theorems of
   C01 ... C09 and C19 about reachable states hold for it, with any user rules *)
Theorem SolUser_reachable_is_reachable : forall inp atoms s,
  sf_reachable inp atoms s -> reachable inp s.
Proof. exact sf_reachable_is_reachable_proof. Qed.
Print Assumptions SolUser_reachable_is_reachable.

(* no solution ever reached violates a solution-level rule, although the
   estimates never object: after any history of plans and un-plans *)
Theorem SolUser_never_violated : forall inp atoms s,
  wf_input inp -> sf_reachable inp atoms s -> sol_ok atoms s = true.
Proof. exact sf_never_violated_proof. Qed.
Print Assumptions SolUser_never_violated.

(* a move or un-plan that does not end Done - rejected by a solution-level
   rule or by anything else - leaves the solution observably as it was *)
Theorem SolUser_rejection_restores : forall inp atoms s o,
  wf_input inp -> sf_reachable inp atoms s -> op_ok inp s o ->
  snd (sf_step inp atoms s o) <> Done -> same_obs (fst (sf_step inp atoms s o)) s.
Proof. exact sf_rejection_restores_proof. Qed.
Print Assumptions SolUser_rejection_restores.

(* a rejection by solution-level rule i is genuine: the engine had completed
   the operation, the state it had reached violates rule i (and no earlier
   one), and the state handed back is the one before the operation *)
Theorem SolUser_rejection_is_genuine : forall inp atoms s o i,
  snd (sf_step inp atoms s o) = Rejected (KUser (length (in_user inp) + i)) ->
  snd (step inp s o) <> Rejected (KUser (length (in_user inp) + i)) ->
  snd (step inp s o) = Done /\ sol_violation atoms (fst (step inp s o)) 0 = Some i /\
  fst (sf_step inp atoms s o) = s.
Proof. exact sf_rejection_is_genuine_proof. Qed.
Print Assumptions SolUser_rejection_is_genuine.

(* conservative: without solution-level rules the guarded engine is the engine *)
Theorem SolUser_conservative : forall inp s o, sf_step inp [] s o = step inp s o.
Proof. exact sf_conservative_proof. Qed.
Print Assumptions SolUser_conservative.

(* non-vacuity, and the guard is needed: two vehicles, rule "route sizes differ
   by at most 1"; the first stop is accepted, the second on the same vehicle is
   completed by the engine (sizes 2, 0), rejected by the rule, and the state is
   the one before; without the guard the engine reaches the violating state *)
Theorem SolUser_example :
  wf_input mt_inp /\ sf_new_solution mt_inp su_atoms = Some mt_s0 /\
  sf_step mt_inp su_atoms mt_s0 (OpPlan mt_mv1) = (mt_s1, Done) /\ route_sizes mt_s1 = [1; 0] /\
  sf_reachable mt_inp su_atoms mt_s1 /\ move_ok mt_inp mt_s1 mt_mv2 /\
  step mt_inp mt_s1 (OpPlan mt_mv2) = (mt_s2, Done) /\ route_sizes mt_s2 = [2; 0] /\
  sf_step mt_inp su_atoms mt_s1 (OpPlan mt_mv2) = (mt_s1, Rejected (KUser 0)) /\
  reachable mt_inp mt_s2 /\ sol_ok su_atoms mt_s2 = false.
Proof. exact SolUser_example_proof. Qed.
Print Assumptions SolUser_example.
