(* C06: the solver never hands back a worse solution.

   Models: NR.Model.SolverLoop (single solver loop, aggregator, parallel
   solver as a labelled transition system).  Proofs: NR.Proofs.SolverLoop_proofs;
   this file only states the theorems.  Scores are integers, LOWER is better.

   [decreasing l] := StronglySorted Z.gt l   (oldest first, strictly decreasing)
   [s_sent] / [a_out] are newest first, hence the [rev].
   [benign start es] : no operator ever calls Reset with a solution better than
                       the best known at that moment.
   [ptrace st sched] : ghost trace, the scores of the AProduce actions of
                       [sched] that were enabled, in order.
   [in_flight st]    : scores queued on worker channels or pending in the
                       aggregator. *)

From Coq Require Import List ZArith.
From NR Require Import Model.SolverLoop Proofs.SolverLoop_proofs.
Import ListNotations.
Open Scope Z_scope.

(* ---------------- single solver ---------------- *)

Theorem C06_single_decreasing : forall start es,
  decreasing (rev (s_sent (srun start es))).
Proof. exact C06_single_decreasing_proof. Qed.
Print Assumptions C06_single_decreasing.

Theorem C06_single_first_is_start : forall start es,
  exists tl, rev (s_sent (srun start es)) = start :: tl.
Proof. exact C06_single_first_is_start_proof. Qed.
Print Assumptions C06_single_first_is_start.

Theorem C06_single_sent_ge_best : forall start es,
  Forall (fun x => s_best (srun start es) <= x) (s_sent (srun start es)).
Proof. exact C06_single_sent_ge_best_proof. Qed.
Print Assumptions C06_single_sent_ge_best.

(* the last solution sent is the best one, provided no operator resets the
   solver to a solution better than the best (hypothesis [benign]) *)
Theorem C06_single_last_is_best : forall start es,
  benign start es ->
  hd start (s_sent (srun start es)) = s_best (srun start es).
Proof. exact C06_single_last_is_best_proof. Qed.
Print Assumptions C06_single_last_is_best.

Theorem C06_single_no_resets_benign : forall start es,
  (forall e, In e es -> ex_resets e = []) -> benign start es.
Proof. exact no_resets_benign_proof. Qed.
Print Assumptions C06_single_no_resets_benign.

(* REFUTED without [benign]: an operator that resets to a better solution
   lowers [best] but nothing is sent (witness: start 10, one operator that
   resets to 5 and leaves a work solution of 7). *)
Theorem C06_single_last_is_best_refuted :
  exists start es, hd start (s_sent (srun start es)) <> s_best (srun start es).
Proof. exact C06_single_last_is_best_refuted_proof. Qed.
Print Assumptions C06_single_last_is_best_refuted.

(* ---------------- aggregator ---------------- *)

Theorem C06_aggregator_decreasing : forall s0 starts received,
  decreasing (rev (a_out (arun s0 starts received))).
Proof. exact C06_aggregator_decreasing_proof. Qed.
Print Assumptions C06_aggregator_decreasing.

Theorem C06_aggregator_first_is_min_start : forall s0 starts received,
  exists tl, rev (a_out (arun s0 starts received)) = fold_left Z.min starts s0 :: tl.
Proof. exact C06_aggregator_first_is_min_start_proof. Qed.
Print Assumptions C06_aggregator_first_is_min_start.

Theorem C06_aggregator_last_is_min : forall s0 starts received,
  hd s0 (a_out (arun s0 starts received)) = fold_left Z.min (starts ++ received) s0 /\
  a_best (arun s0 starts received) = fold_left Z.min (starts ++ received) s0.
Proof. exact C06_aggregator_last_is_min_proof. Qed.
Print Assumptions C06_aggregator_last_is_min.

(* ---------------- parallel solver, every schedule ---------------- *)

Theorem C06_parallel : forall iters runs det s0 starts sched,
  let st := prun (pinit iters runs det s0 starts) sched in
  decreasing (rev (a_out (p_agg st))) /\
  (exists tl, rev (a_out (p_agg st)) = fold_left Z.min starts s0 :: tl) /\
  hd s0 (a_out (p_agg st)) = a_best (p_agg st).
Proof. exact C06_parallel_proof. Qed.
Print Assumptions C06_parallel.

(* once the result channel is closed, every score any worker produced has
   been compared: the final best is the minimum of the starts and of
   everything produced *)
Theorem C06_parallel_nothing_lost : forall iters runs det s0 starts sched,
  let st := prun (pinit iters runs det s0 starts) sched in
  p_closed st = true ->
  a_best (p_agg st) =
    fold_left Z.min (starts ++ ptrace (pinit iters runs det s0 starts) sched) s0.
Proof. exact C06_parallel_nothing_lost_proof. Qed.
Print Assumptions C06_parallel_nothing_lost.

(* the invariant behind it, valid in every reachable state: best so far
   together with what is still in flight accounts for everything produced *)
Theorem C06_parallel_accounting : forall iters runs det s0 starts sched,
  let st := prun (pinit iters runs det s0 starts) sched in
  fold_left Z.min (in_flight st) (a_best (p_agg st)) =
    fold_left Z.min (starts ++ ptrace (pinit iters runs det s0 starts) sched) s0.
Proof. exact C06_parallel_accounting_proof. Qed.
Print Assumptions C06_parallel_accounting.
