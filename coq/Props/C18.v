(* C18: checking a solution never alters it.

   The solution checker (check/check.go) probes each unplanned unit: it
   executes the unit's best move and, when the move completes, immediately
   un-plans the unit again.  On the model (NR.Model.Engine: exec_move,
   unplan_unit) execute-then-unplan is the identity up to [same_obs]: same
   routes (every cached cell), same planned / unplanned / fixed sets, same
   scores and total.
   Proofs: NR.Proofs.C18_proofs.  This file only states the theorems.
   [reachable inp s]: see Props/C04.v.  [same_obs], [move_ok]: see Props/C07.v,
   NR.Proofs.Engine_inv.
   [probe inp s mv] (NR.Proofs.C18_proofs) is unfolded by C18_probe_unfold. *)

From Coq Require Import List ZArith.
From NR Require Import Model.Engine Proofs.Engine_inv Proofs.Engine_spec Proofs.C18_proofs.
Import ListNotations.

(* after a completed move, un-planning the unit completes too (it is never
   rejected and never "not executable") and gives back the old solution *)
Theorem C18_execute_then_unplan_restores : forall inp s mv s1,
  wf_input inp -> reachable inp s -> move_ok inp s mv ->
  exec_move inp s mv = (s1, Done) ->
  exists s2, unplan_unit inp s1 (mv_unit mv) = (s2, Done) /\ same_obs s2 s.
Proof. exact C18_execute_then_unplan_restores_proof. Qed.
Print Assumptions C18_execute_then_unplan_restores.

(* one probe: execute; on Done un-plan again; otherwise keep what Execute
   returned (it has rolled back by itself) *)
Theorem C18_probe_unfold : forall inp s mv,
  probe inp s mv =
  match exec_move inp s mv with
  | (s1, Done) => fst (unplan_unit inp s1 (mv_unit mv))
  | (s1, _) => s1
  end.
Proof. exact C18_probe_unfold_proof. Qed.
Print Assumptions C18_probe_unfold.

Theorem C18_probe_preserves : forall inp s mv,
  wf_input inp -> reachable inp s -> move_ok inp s mv ->
  reachable inp (probe inp s mv) /\ same_obs (probe inp s mv) s.
Proof. exact C18_probe_preserves_proof. Qed.
Print Assumptions C18_probe_preserves.

(* any sequence of probes, whatever their outcomes, leaves the solution
   observably unchanged *)
Theorem C18_probe_sequence_preserves : forall inp s mvs,
  wf_input inp -> reachable inp s -> Forall (move_ok inp s) mvs ->
  reachable inp (fold_left (probe inp) mvs s) /\ same_obs (fold_left (probe inp) mvs s) s.
Proof. exact C18_probe_sequence_preserves_proof. Qed.
Print Assumptions C18_probe_sequence_preserves.

(* the same when each move is well formed for the state it is probed on (the
   checker computes the best move on the current solution); the two forms
   agree because [move_ok] is stable under [same_obs] *)
Theorem C18_probes_ok_unfold : forall inp s mv rest,
  (probes_ok inp s [] <-> True) /\
  (probes_ok inp s (mv :: rest) <-> move_ok inp s mv /\ probes_ok inp (probe inp s mv) rest).
Proof. exact C18_probes_ok_unfold_proof. Qed.
Print Assumptions C18_probes_ok_unfold.

Theorem C18_probe_sequence_stepwise : forall inp s mvs,
  wf_input inp -> reachable inp s -> probes_ok inp s mvs ->
  reachable inp (fold_left (probe inp) mvs s) /\ same_obs (fold_left (probe inp) mvs s) s.
Proof. exact C18_probe_sequence_stepwise_proof. Qed.
Print Assumptions C18_probe_sequence_stepwise.

Theorem C18_move_ok_stable : forall inp a b mv,
  same_obs a b -> (move_ok inp a mv <-> move_ok inp b mv).
Proof. exact C18_move_ok_stable_proof. Qed.
Print Assumptions C18_move_ok_stable.

(* "plannable" answers are truthful: Done means the unit was unplanned before
   and is planned after *)
Theorem C18_truthful : forall inp s mv s1,
  exec_move inp s mv = (s1, Done) ->
  unit_planned inp s (mv_unit mv) = false /\
  (wf_input inp -> reachable inp s -> move_ok inp s mv ->
   unit_planned inp s1 (mv_unit mv) = true /\
   In (mv_unit mv) (st_unplanned s) /\ In (mv_unit mv) (st_planned s1)).
Proof. exact C18_truthful_proof. Qed.
Print Assumptions C18_truthful.

(* non-vacuity (Proofs/C18_proofs.v): on the run of Proofs/Engine_spec.v the
   probe of unit 1 completes both steps and returns exactly the old state *)
Theorem C18_example_probe :
  snd (exec_move ex2_inp ex2_s1 ex2_mv2) = Done /\
  snd (unplan_unit ex2_inp (fst (exec_move ex2_inp ex2_s1 ex2_mv2)) 1) = Done /\
  probe ex2_inp ex2_s1 ex2_mv2 = ex2_s1.
Proof. exact ex18_probe_done. Qed.
Print Assumptions C18_example_probe.
