(* FixedInv: initial stops marked fixed stay on their vehicle, and the planned /
   unplanned / fixed bookkeeping stays consistent - on inputs WITH initial stops
   (fixed or not, units of several stops of which only SOME carry the fixed
   flag included) and WITHOUT stop groups, for every history of stops moves,
   checked moves, unit un-plans and vehicle un-plans.

   Model: NR.Model.Units (g_new_solution with place_units / prune_route,
   g_exec_move, g_exec_checked, g_unplan_unit, g_unplan_vehicle).  Proofs:
   NR.Proofs.FixedInv_proofs.  This file only states the theorems.

   Vocabulary (spelled out by the *_unfold theorems below):
   [gi_initial gi]  per vehicle: the initial stops in order, each with its
                    [fixed] flag.  "vehicle v lists stop x" means
                    In x (map fst (nth v (gi_initial gi) [])).
   [stop_fixed gi x] some vehicle lists x with the flag set (Model/Units.v).
   [unit_fixed gi u] one of the stops of stops-unit u is fixed (Model/Units.v).
   [wf_ginput_fixed gi]  the hypotheses on the initial stops:
                    no stop groups; not more initial lists than vehicles; every
                    listed stop is an input stop; no stop is listed twice (neither
                    by one vehicle nor by two); a vehicle that lists one stop of a
                    unit lists all the stops of that unit.
                    [wf_ginput_fixedb] is a boolean check that implies it.
   [routes_ok inp s] the route half of the engine invariant (Props/Units.v): caches
                    equal their recomputation, every cell passes the exact checks,
                    no stop twice, a unit is entirely on ONE route or on none.
   [FInv gi s]      routes_ok; planned / unplanned / fixed are duplicate-free,
                    pairwise disjoint and hold every unit index exactly once;
                    (a) fixed = the fixed units (a function of the input alone);
                    (b) a fixed unit has ALL its stops on the route of the vehicle
                        that lists them;
                    (c) a unit that is not fixed: planned iff all its stops are on
                        routes, unplanned iff none is;
                    (d) every input stop on a route belongs to a planned or fixed
                        unit;
                    and the scores are those the objective gives.
   [move_ok inp s mv] the move is well formed for s (Proofs/Engine_inv.v): all the
                    stops of the unit, each once, gaps non-decreasing and inside
                    the route.
   [fop], [fop_step], [fop_ok], [fops_ok], [fops_run], [fops_answers],
   [f_reachable]    operations (plan move / checked move / un-plan unit / un-plan
                    vehicle), their execution, their side condition (moves are
                    move_ok; un-plans: any unit, any vehicle), histories from
                    g_new_solution.
   [g_unplan_vehicle_old]  g_unplan_vehicle with the filter on the flag of the
                    stop only (the code before its repair).
   Scope: no stop groups; g_unplan_group / g_exec_units not covered (they need
   groups).  UndoFailed: shown impossible for all four operations (it is part of
   each conclusion; no answer is assumed away). *)

From Coq Require Import List ZArith Bool Arith.
From NR Require Import Model.Engine Model.Estimates Model.Units
                       Proofs.Engine_inv Proofs.Units_proofs Proofs.FixedInv_proofs.
Import ListNotations.
Local Open Scope nat_scope.

(* ================================================================== *)
(* Vocabulary                                                          *)
(* ================================================================== *)

Theorem FixedInv_wf_ginput_fixed_unfold : forall gi,
  wf_ginput_fixed gi <->
  gi_groups gi = [] /\
  length (gi_initial gi) <= nveh (gi_inp gi) /\
  Forall (fun x => x < nstops (gi_inp gi)) (concat (map (map fst) (gi_initial gi))) /\
  NoDup (concat (map (map fst) (gi_initial gi))) /\
  (forall v u x y, u < nunits (gi_inp gi) ->
     In x (iu_stops (get_unit (gi_inp gi) u)) -> In y (iu_stops (get_unit (gi_inp gi) u)) ->
     In x (map fst (nth v (gi_initial gi) [])) -> In y (map fst (nth v (gi_initial gi) []))).
Proof. exact wf_ginput_fixed_unfold_proof. Qed.
Print Assumptions FixedInv_wf_ginput_fixed_unfold.

Theorem FixedInv_wf_ginput_fixedb_unfold : forall gi,
  wf_ginput_fixedb gi =
  (match gi_groups gi with [] => true | _ => false end) &&
  (length (gi_initial gi) <=? length (in_vehicles (gi_inp gi))) &&
  forallb (fun x => x <? nstops (gi_inp gi)) (concat (map (map fst) (gi_initial gi))) &&
  nodupb (concat (map (map fst) (gi_initial gi))) &&
  forallb (fun l =>
     forallb (fun u => negb (existsb (fun x => mem_nat x (map fst l)) (iu_stops u))
                       || forallb (fun y => mem_nat y (map fst l)) (iu_stops u))
             (in_units (gi_inp gi)))
    (gi_initial gi).
Proof. exact wf_ginput_fixedb_unfold_proof. Qed.
Print Assumptions FixedInv_wf_ginput_fixedb_unfold.

Theorem FixedInv_nodupb_unfold : forall x r,
  nodupb [] = true /\ nodupb (x :: r) = negb (mem_nat x r) && nodupb r.
Proof. exact nodupb_unfold_proof. Qed.
Print Assumptions FixedInv_nodupb_unfold.

Theorem FixedInv_wf_ginput_fixedb_sound : forall gi,
  wf_ginput_fixedb gi = true -> wf_ginput_fixed gi.
Proof. exact wf_ginput_fixedb_sound. Qed.
Print Assumptions FixedInv_wf_ginput_fixedb_sound.

Theorem FixedInv_unfold : forall gi s,
  FInv gi s <->
  ((* engine *) routes_ok (gi_inp gi) s /\
   (* collections *)
   (NoDup (st_planned s) /\ NoDup (st_unplanned s) /\ NoDup (st_fixed s) /\
    (forall u, In u (st_planned s) -> In u (st_unplanned s) -> False) /\
    (forall u, In u (st_planned s) -> In u (st_fixed s) -> False) /\
    (forall u, In u (st_unplanned s) -> In u (st_fixed s) -> False) /\
    (forall u, u < nunits (gi_inp gi) <->
               In u (st_planned s) \/ In u (st_unplanned s) \/ In u (st_fixed s))) /\
   (* a *) (forall u, In u (st_fixed s) <-> u < nunits (gi_inp gi) /\ unit_fixed gi u = true) /\
   (* b *) (forall u, In u (st_fixed s) ->
              exists v, v < nveh (gi_inp gi) /\
                forall y, In y (iu_stops (get_unit (gi_inp gi) u)) ->
                          In y (map fst (nth v (gi_initial gi) [])) /\
                          In y (route_stops (get_route s v))) /\
   (* c *) (forall u, u < nunits (gi_inp gi) -> unit_fixed gi u = false ->
              (In u (st_planned s) <-> unit_planned (gi_inp gi) s u = true) /\
              (In u (st_unplanned s) <->
               forall x, In x (iu_stops (get_unit (gi_inp gi) u)) -> stop_on_route s x = false)) /\
   (* scores *) (st_scores s = g_score_terms gi s /\ st_total s = sumZ (g_score_terms gi s))) /\
  (* d *) (forall x, In x (interior_stops s) ->
             exists u, u < nunits (gi_inp gi) /\ In x (iu_stops (get_unit (gi_inp gi) u)) /\
                       (In u (st_planned s) \/ In u (st_fixed s))).
Proof. exact FInv_unfold_proof. Qed.
Print Assumptions FixedInv_unfold.

Theorem FixedInv_fop_unfold : forall gi s,
  (forall mv, fop_step gi s (FPlan mv) = g_exec_move gi s mv /\
              (fop_ok gi s (FPlan mv) <-> move_ok (gi_inp gi) s mv)) /\
  (forall mv, fop_step gi s (FChecked mv) = g_exec_checked gi s mv /\
              (fop_ok gi s (FChecked mv) <-> move_ok (gi_inp gi) s mv)) /\
  (forall u, fop_step gi s (FUnplanUnit u) = g_unplan_unit gi s u /\
             (fop_ok gi s (FUnplanUnit u) <-> True)) /\
  (forall v, fop_step gi s (FUnplanVehicle v) = g_unplan_vehicle gi s v /\
             (fop_ok gi s (FUnplanVehicle v) <-> True)).
Proof. exact fop_unfold_proof. Qed.
Print Assumptions FixedInv_fop_unfold.

Theorem FixedInv_fops_unfold : forall gi s o h,
  (fops_ok gi s [] <-> True) /\
  (fops_ok gi s (o :: h) <-> fop_ok gi s o /\ fops_ok gi (fst (fop_step gi s o)) h) /\
  fops_run gi s [] = [s] /\
  fops_run gi s (o :: h) = s :: fops_run gi (fst (fop_step gi s o)) h /\
  fops_answers gi s [] = [] /\
  fops_answers gi s (o :: h) = snd (fop_step gi s o) :: fops_answers gi (fst (fop_step gi s o)) h.
Proof. exact fops_unfold_proof. Qed.
Print Assumptions FixedInv_fops_unfold.

Theorem FixedInv_f_reachable_unfold : forall gi s,
  f_reachable gi s <->
  exists s0 h, g_new_solution gi = Some s0 /\ fops_ok gi s0 h /\ In s (fops_run gi s0 h).
Proof. exact f_reachable_unfold_proof. Qed.
Print Assumptions FixedInv_f_reachable_unfold.

(* ================================================================== *)
(* 1. The start solution                                               *)
(* ================================================================== *)

(* whatever place_units / prune_route decide: a unit that is not fixed and does
   not fit stays unplanned and off the routes; a fixed unit that does not fit
   makes g_new_solution fail, so when it succeeds every fixed unit is on the
   vehicle that lists it and is booked fixed *)
Theorem FixedInv_start : forall gi,
  wf_input (gi_inp gi) -> wf_ginput_fixed gi ->
  forall s0, g_new_solution gi = Some s0 -> FInv gi s0.
Proof. exact FInv_start_stmt. Qed.
Print Assumptions FixedInv_start.

(* ================================================================== *)
(* 2. The four operations                                              *)
(* ================================================================== *)

(* any answer: Done, Rejected (rollback: the routes are those of s), or
   NotExecutable (the unit is planned or fixed: nothing changes); never UndoFailed *)
Theorem FixedInv_exec_move : forall gi,
  wf_input (gi_inp gi) -> wf_ginput_fixed gi ->
  forall s s' mv r,
  FInv gi s -> move_ok (gi_inp gi) s mv -> g_exec_move gi s mv = (s', r) ->
  r <> UndoFailed /\ FInv gi s' /\ (r <> Done -> st_routes s' = st_routes s) /\
  (unit_planned (gi_inp gi) s (mv_unit mv) = true \/ unit_fixed gi (mv_unit mv) = true ->
   r = NotExecutable /\ s' = s).
Proof. exact FInv_exec_move_stmt. Qed.
Print Assumptions FixedInv_exec_move.

Theorem FixedInv_exec_checked : forall gi,
  wf_input (gi_inp gi) -> wf_ginput_fixed gi ->
  forall s s' mv r,
  FInv gi s -> move_ok (gi_inp gi) s mv -> g_exec_checked gi s mv = (s', r) ->
  r <> UndoFailed /\ FInv gi s' /\ (r <> Done -> st_routes s' = st_routes s).
Proof. exact FInv_exec_checked_stmt. Qed.
Print Assumptions FixedInv_exec_checked.

(* any unit index; a fixed unit answers NotExecutable and nothing changes *)
Theorem FixedInv_unplan_unit : forall gi,
  wf_input (gi_inp gi) -> wf_ginput_fixed gi ->
  forall s s' u r,
  FInv gi s -> g_unplan_unit gi s u = (s', r) ->
  r <> UndoFailed /\ FInv gi s' /\ (r <> Done -> st_routes s' = st_routes s) /\
  (unit_fixed gi u = true -> r = NotExecutable /\ s' = s).
Proof. exact FInv_unplan_unit_stmt. Qed.
Print Assumptions FixedInv_unplan_unit.

(* any vehicle index; Done, Rejected (rollback) or NotExecutable (nothing to take
   off); never UndoFailed.  (This one does not need wf_ginput_fixed.) *)
Theorem FixedInv_unplan_vehicle : forall gi,
  wf_input (gi_inp gi) ->
  forall s s' v r,
  FInv gi s -> g_unplan_vehicle gi s v = (s', r) ->
  r <> UndoFailed /\ FInv gi s' /\ (r <> Done -> st_routes s' = st_routes s) /\
  (r = NotExecutable -> s' = s) /\
  (* a fixed unit keeps every stop, flagged or not, on its vehicle *)
  (forall u y w, u < nunits (gi_inp gi) -> unit_fixed gi u = true ->
     In y (iu_stops (get_unit (gi_inp gi) u)) ->
     In y (route_stops (get_route s w)) -> In y (route_stops (get_route s' w))) /\
  (* what is taken off: the input stops of vehicle v whose unit is not fixed *)
  (r = Done ->
     route_stops (get_route s' v)
     = filter (fun x => negb (is_input_stop (gi_inp gi) x &&
                              negb (unit_fixed gi (unit_of_stop (gi_inp gi) x))))
              (route_stops (get_route s v)) /\
     forall w, w <> v -> get_route s' w = get_route s w).
Proof. exact FInv_unplan_vehicle_stmt. Qed.
Print Assumptions FixedInv_unplan_vehicle.

(* (a) again: the fixed collection never changes - as a set between any two
   states satisfying FInv, and literally along a history *)
Theorem FixedInv_fixed_constant : forall gi s s',
  FInv gi s -> FInv gi s' -> forall u, In u (st_fixed s) <-> In u (st_fixed s').
Proof. exact FInv_fixed_constant_stmt. Qed.
Print Assumptions FixedInv_fixed_constant.

Theorem FixedInv_history_fixed : forall gi,
  wf_input (gi_inp gi) -> wf_ginput_fixed gi ->
  forall h s, FInv gi s -> fops_ok gi s h ->
  Forall (fun s' => st_fixed s' = st_fixed s) (fops_run gi s h).
Proof. exact FInv_history_fixed_stmt. Qed.
Print Assumptions FixedInv_history_fixed.

(* ================================================================== *)
(* 3. Histories                                                        *)
(* ================================================================== *)

(* every state met (the start state included) satisfies FInv, and no operation
   answers UndoFailed *)
Theorem FixedInv_history : forall gi,
  wf_input (gi_inp gi) -> wf_ginput_fixed gi ->
  forall s0 h, g_new_solution gi = Some s0 -> fops_ok gi s0 h ->
  Forall (FInv gi) (fops_run gi s0 h) /\
  Forall (fun r => r <> UndoFailed) (fops_answers gi s0 h).
Proof. exact FInv_history_proof. Qed.
Print Assumptions FixedInv_history.

Theorem FixedInv_reachable : forall gi,
  wf_input (gi_inp gi) -> wf_ginput_fixed gi ->
  forall s, f_reachable gi s -> FInv gi s.
Proof. exact f_reachable_FInv. Qed.
Print Assumptions FixedInv_reachable.

(* the corollary, stated on the routes: a stop that carries the fixed flag is on
   the route of the vehicle that lists it as an initial stop *)
Theorem FixedInv_fixed_stops_stay : forall gi,
  wf_input (gi_inp gi) -> wf_ginput_fixed gi ->
  forall s, f_reachable gi s ->
  forall x v, stop_fixed gi x = true -> In x (map fst (nth v (gi_initial gi) [])) ->
              In x (route_stops (get_route s v)).
Proof. exact f_reachable_fixed_on_route. Qed.
Print Assumptions FixedInv_fixed_stops_stay.

Theorem FixedInv_flagged_stops_stay : forall gi,
  wf_input (gi_inp gi) -> wf_ginput_fixed gi ->
  forall s, f_reachable gi s ->
  forall x v, In (x, true) (nth v (gi_initial gi) []) -> In x (route_stops (get_route s v)).
Proof. exact f_reachable_flagged_on_route. Qed.
Print Assumptions FixedInv_flagged_stops_stay.

(* ================================================================== *)
(* 4. Non-vacuity                                                      *)
(* ================================================================== *)

(* f_gi: three stops, two vehicles (first / last stops 3 4 and 5 6), no
   constraints; unit 0 = stops [0; 1], unit 1 = stop [2]; vehicle 0 lists the
   initial stops 0 (NOT fixed) and 1 (fixed), vehicle 1 lists none *)
Theorem FixedInv_example_inputs :
  gi_initial f_gi = [[(0, false); (1, true)]; []] /\ gi_groups f_gi = [] /\
  map iu_stops (in_units (gi_inp f_gi)) = [[0; 1]; [2]] /\
  length (in_vehicles (gi_inp f_gi)) = 2 /\
  wf_input (gi_inp f_gi) /\ wf_ginput_fixedb f_gi = true /\ wf_ginput_fixed f_gi /\
  stop_fixed f_gi 0 = false /\ stop_fixed f_gi 1 = true /\
  unit_fixed f_gi 0 = true /\ unit_fixed f_gi 1 = false.
Proof.
  exact (conj eq_refl (conj eq_refl (conj eq_refl (conj eq_refl
        (conj f_wf (conj eq_refl (conj f_wfg f_flags))))))).
Qed.
Print Assumptions FixedInv_example_inputs.

Theorem FixedInv_example_start :
  g_new_solution f_gi = Some f_s0 /\ FInv f_gi f_s0 /\
  map route_stops (st_routes f_s0) = [[3; 0; 1; 4]; [5; 6]] /\
  st_planned f_s0 = [] /\ st_unplanned f_s0 = [1] /\ st_fixed f_s0 = [0].
Proof. exact (conj f_new (conj f_s0_FInv f_s0_shape)). Qed.
Print Assumptions FixedInv_example_start.

(* the fixed unit cannot be un-planned; right after the start there is nothing
   to take off vehicle 0 *)
Theorem FixedInv_example_not_executable :
  g_unplan_unit f_gi f_s0 0 = (f_s0, NotExecutable) /\
  g_unplan_vehicle f_gi f_s0 0 = (f_s0, NotExecutable).
Proof. exact (conj f_unplan_fixed_unit f_unplan_vehicle_start). Qed.
Print Assumptions FixedInv_example_not_executable.

(* plan the free unit between the two stops of the fixed unit, then un-plan the
   vehicle: stop 2 leaves, stop 1 (flagged) AND stop 0 (not flagged) stay *)
Theorem FixedInv_example_unplan_vehicle :
  f_mv = mkMove 1 0 [(2, 2)] /\ move_ok (gi_inp f_gi) f_s0 f_mv /\
  g_exec_move f_gi f_s0 f_mv = (f_s1, Done) /\
  map route_stops (st_routes f_s1) = [[3; 0; 2; 1; 4]; [5; 6]] /\
  st_planned f_s1 = [1] /\ st_unplanned f_s1 = [] /\ st_fixed f_s1 = [0] /\
  g_unplan_vehicle f_gi f_s1 0 = (f_s2, Done) /\
  map route_stops (st_routes f_s2) = [[3; 0; 1; 4]; [5; 6]] /\
  st_planned f_s2 = [] /\ st_unplanned f_s2 = [1] /\ st_fixed f_s2 = [0].
Proof.
  exact (conj eq_refl (conj f_mv_ok (conj f_plan (conj (proj1 f_s1_shape) (conj (proj1 (proj2 f_s1_shape))
        (conj (proj1 (proj2 (proj2 f_s1_shape))) (conj (proj2 (proj2 (proj2 f_s1_shape)))
        (conj f_unplan_vehicle f_s2_shape)))))))).
Qed.
Print Assumptions FixedInv_example_unplan_vehicle.

Theorem FixedInv_example_history :
  f_h = [FPlan f_mv; FUnplanUnit 0; FUnplanVehicle 0; FUnplanVehicle 0] /\
  fops_ok f_gi f_s0 f_h /\
  fops_run f_gi f_s0 f_h = [f_s0; f_s1; f_s1; f_s2; f_s2] /\
  fops_answers f_gi f_s0 f_h = [Done; NotExecutable; Done; NotExecutable] /\
  Forall (FInv f_gi) [f_s0; f_s1; f_s1; f_s2; f_s2].
Proof.
  exact (conj eq_refl (conj f_history_ok (conj (proj1 f_history_run) (conj (proj2 f_history_run)
        f_history_FInv)))).
Qed.
Print Assumptions FixedInv_example_history.

(* the hypotheses of wf_ginput_fixed cannot be dropped: on the stops / units /
   vehicles of the example, g_new_solution SUCCEEDS and FInv fails when
   f_part  = initial stops [[(1, false)]; []]: only stop 1 of unit [0; 1] listed;
   f_twice = [[(2, false)]; [(2, false)]]: stop 2 listed by both vehicles;
   f_many  = [[]; []; [(2, true)]]: a flagged stop in a list without vehicle *)
Theorem FixedInv_wf_ginput_fixed_needed :
  (gi_initial f_part = [[(1, false)]; []] /\ gi_inp f_part = gi_inp f_gi /\
   gi_initial f_twice = [[(2, false)]; [(2, false)]] /\ gi_inp f_twice = gi_inp f_gi /\
   gi_initial f_many = [[]; []; [(2, true)]] /\ gi_inp f_many = gi_inp f_gi) /\
  (g_new_solution f_part = Some f_part_s0 /\
   map route_stops (st_routes f_part_s0) = [[3; 1; 4]; [5; 6]] /\
   st_planned f_part_s0 = [0] /\ st_unplanned f_part_s0 = [1] /\ st_fixed f_part_s0 = [] /\
   unit_planned (gi_inp f_gi) f_part_s0 0 = false /\ ~ FInv f_part f_part_s0) /\
  (g_new_solution f_twice = Some f_twice_s0 /\
   map route_stops (st_routes f_twice_s0) = [[3; 2; 4]; [5; 2; 6]] /\ ~ FInv f_twice f_twice_s0) /\
  (g_new_solution f_many = Some f_many_s0 /\ unit_fixed f_many 1 = true /\
   map route_stops (st_routes f_many_s0) = [[3; 4]; [5; 6]] /\ st_fixed f_many_s0 = [] /\
   ~ FInv f_many f_many_s0).
Proof.
  exact (conj (conj eq_refl (conj eq_refl (conj eq_refl (conj eq_refl (conj eq_refl eq_refl)))))
              wf_ginput_fixed_needed_proof).
Qed.
Print Assumptions FixedInv_wf_ginput_fixed_needed.

(* ================================================================== *)
(* 5. The vehicle un-plan before its repair breaks the invariant       *)
(* ================================================================== *)

Theorem FixedInv_unplan_vehicle_old_unfold : forall gi s v,
  g_unplan_vehicle_old gi s v =
  let inp := gi_inp gi in
  let old_stops := route_stops (get_route s v) in
  let removable := filter (fun x => negb (stop_fixed gi x)) old_stops in
  let inner := filter (fun x => is_input_stop inp x) removable in
  match inner with
  | [] => (s, NotExecutable)
  | _ =>
      let units := map (unit_of_stop inp) inner in
      let s1 := fold_left (fun st u => with_colls st (coll_remove u (st_planned st)) (coll_add u (st_unplanned st)) (st_fixed st)) units s in
      let new_stops := filter (fun x => negb (mem_nat x inner)) old_stops in
      let idx := index_in (hd 0 inner) old_stops - 1 in
      match g_is_feasible gi s1 v idx new_stops true with
      | inl s2 => (s2, Done)
      | inr k =>
          let s2 := fold_left (fun st u => with_colls st (coll_add u (st_planned st)) (coll_remove u (st_unplanned st)) (st_fixed st)) units s1 in
          match g_is_feasible gi (with_colls s (st_planned s2) (st_unplanned s2) (st_fixed s2)) v idx old_stops true with
          | inl s3 => (s3, Rejected k)
          | inr _ => (s2, UndoFailed)
          end
      end
  end.
Proof. exact g_unplan_vehicle_old_unfold_proof. Qed.
Print Assumptions FixedInv_unplan_vehicle_old_unfold.

(* the witness of section 4, right after the start: the partially flagged fixed
   unit is split (its unflagged stop leaves the route, the flagged one stays) and
   is booked both fixed and unplanned *)
Theorem FixedInv_unplan_vehicle_old_refuted :
  exists gi s s',
    wf_input (gi_inp gi) /\ wf_ginput_fixed gi /\ g_new_solution gi = Some s /\ FInv gi s /\
    g_unplan_vehicle_old gi s 0 = (s', Done) /\
    iu_stops (get_unit (gi_inp gi) 0) = [0; 1] /\
    stop_fixed gi 0 = false /\ stop_fixed gi 1 = true /\ In 0 (st_fixed s') /\
    stop_on_route s 0 = true /\ stop_on_route s' 0 = false /\ stop_on_route s' 1 = true /\
    In 0 (st_unplanned s') /\
    ~ FInv gi s'.
Proof. exact unplan_vehicle_old_refuted_proof. Qed.
Print Assumptions FixedInv_unplan_vehicle_old_refuted.

Theorem FixedInv_unplan_vehicle_old_example :
  g_unplan_vehicle_old f_gi f_s0 0 = (f_bad, Done) /\
  map route_stops (st_routes f_bad) = [[3; 1; 4]; [5; 6]] /\
  st_planned f_bad = [] /\ st_unplanned f_bad = [1; 0] /\ st_fixed f_bad = [0] /\
  ~ FInv f_gi f_bad.
Proof.
  exact (conj f_old_run (conj (proj1 f_bad_shape) (conj (proj1 (proj2 f_bad_shape))
        (conj (proj1 (proj2 (proj2 f_bad_shape))) (conj (proj2 (proj2 (proj2 f_bad_shape))) f_bad_not_FInv))))).
Qed.
Print Assumptions FixedInv_unplan_vehicle_old_example.
