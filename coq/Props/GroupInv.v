(* GroupInv: the POSITIVE counterpart of the defect witnesses N1 N2 N4 N7 of
   Props/Units.v.  On inputs with stop groups and NO initial stops the
   bookkeeping (collections, scores) and the output ARE consistent on every
   state that is only manipulated through group-level operations that succeed:
   stops moves / un-plans of units that are NO members of a group, units moves
   (g_exec_units) and group un-plans (g_unplan_group) all of whose member
   un-plans answer Done.

   Model: NR.Model.Units.  Proofs: NR.Proofs.GroupInv_proofs.  This file only
   states the theorems.

   Vocabulary (spelled out by the *_unfold theorems below):
   [wf_ginput gi]   the groups are non-empty, and their concatenation is a
                    duplicate-free list of unit indices < nunits (so: distinct
                    members, pairwise disjoint groups).
   [is_top gi id]   id is a top-level id: a unit index < nunits that is no member
                    of a group, or nunits + g for a group g.
   [group_id gi id] id = nunits + g, g a group.
   [GInv gi s]      (i)   routes_ok (Props/Units.v);
                    (ii)  planned / unplanned are duplicate-free, hold exactly
                          the top-level ids, each in exactly one of the two;
                          fixed is empty;
                    (iii) for a top-level id: in planned <-> top_planned, and if
                          it is in unplanned NO member is on a route (groups
                          are all-on or all-off);
                    (iv)  st_scores = g_score_terms, st_total = their sum.
   [GInv_ns gi s]   (i)-(iii) only ("no scores").
   [unplan_group_all_done gi s id]  the boolean replay of the loop of
                    g_unplan_group: every member un-plan it asks answers Done.
   [gop], [gop_step], [gop_ok], [gops_ok], [gops_run], [gops_answers]
                    group-level operations, their execution, their side
                    conditions, histories.  NOTE: this [gop] is
                    NR.Proofs.GroupInv_proofs.gop, not the [gop] of
                    Proofs/Units_proofs.v (raw operations of the flat
                    correspondence).
   Scope: no initial / fixed stops (gi_initial all empty); g_unplan_vehicle is
   not covered; a stops move / un-plan of a MEMBER unit on its own is excluded
   (that is N1 / N4). *)

From Coq Require Import List ZArith Permutation.
From NR Require Import Model.Engine Model.Estimates Model.Format Model.Units
                       Proofs.Engine_inv Proofs.Engine_spec Proofs.Units_proofs
                       Proofs.GroupInv_proofs.
Import ListNotations.
Local Open Scope nat_scope.

(* ================================================================== *)
(* Vocabulary                                                          *)
(* ================================================================== *)

Theorem GInv_wf_ginput_unfold : forall gi,
  wf_ginput gi <->
  Forall (fun g => g <> []) (gi_groups gi) /\
  NoDup (concat (gi_groups gi)) /\
  Forall (fun u => u < nunits_of gi) (concat (gi_groups gi)).
Proof. exact wf_ginput_unfold_proof. Qed.
Print Assumptions GInv_wf_ginput_unfold.

Theorem GInv_is_top_unfold : forall gi id,
  is_top gi id <->
  (id < nunits_of gi /\ member_group gi id = None) \/
  (exists g, id = nunits_of gi + g /\ g < length (gi_groups gi)).
Proof. exact is_top_unfold_proof. Qed.
Print Assumptions GInv_is_top_unfold.

Theorem GInv_group_id_unfold : forall gi id,
  group_id gi id <-> exists g, id = nunits_of gi + g /\ g < length (gi_groups gi).
Proof. exact group_id_unfold_proof. Qed.
Print Assumptions GInv_group_id_unfold.

Theorem GInv_unfold : forall gi s,
  GInv gi s <->
  ((* i *) routes_ok (gi_inp gi) s /\
   (* ii *) (NoDup (st_planned s) /\ NoDup (st_unplanned s) /\ st_fixed s = [] /\
             (forall id, In id (st_planned s) \/ In id (st_unplanned s) -> is_top gi id) /\
             (forall id, is_top gi id -> In id (st_planned s) \/ In id (st_unplanned s)) /\
             (forall id, In id (st_planned s) -> In id (st_unplanned s) -> False)) /\
   (* iii *) (forall id, is_top gi id ->
                (In id (st_planned s) <-> top_planned gi s id = true) /\
                (In id (st_unplanned s) ->
                 forall m, In m (members_of gi id) -> unit_planned (gi_inp gi) s m = false))) /\
  (* iv *) (st_scores s = g_score_terms gi s /\ st_total s = sumZ (g_score_terms gi s)).
Proof. exact GInv_unfold_proof. Qed.
Print Assumptions GInv_unfold.

Theorem GInv_ns_unfold : forall gi s,
  GInv gi s <-> GInv_ns gi s /\ st_scores s = g_score_terms gi s /\ st_total s = sumZ (g_score_terms gi s).
Proof. exact GInv_ns_unfold_proof. Qed.
Print Assumptions GInv_ns_unfold.

Theorem GInv_unplan_group_all_done_unfold : forall gi s id m rest st,
  unplan_group_all_done gi s id
  = unplan_members_done gi (move_to_unplanned s id) (members_of gi id) /\
  unplan_members_done gi st [] = true /\
  unplan_members_done gi st (m :: rest)
  = (if unit_planned (gi_inp gi) st m then
       match g_unplan_unit gi st m with
       | (st', Done) => unplan_members_done gi st' rest
       | _ => false
       end
     else unplan_members_done gi st rest).
Proof. exact unplan_group_all_done_unfold_proof. Qed.
Print Assumptions GInv_unplan_group_all_done_unfold.

(* under the invariant the collections are a function of the routes (as sets) *)
Theorem GInv_ns_colls_determined : forall gi s s',
  GInv_ns gi s -> GInv_ns gi s' -> st_routes s' = st_routes s ->
  same_set (st_planned s') (st_planned s) /\ same_set (st_unplanned s') (st_unplanned s).
Proof. exact GInv_ns_colls_determined_proof. Qed.
Print Assumptions GInv_ns_colls_determined.

(* ================================================================== *)
(* 1. The start solution                                               *)
(* ================================================================== *)

Theorem GInv_start : forall gi s0,
  wf_input (gi_inp gi) -> wf_ginput gi -> Forall (fun l => l = []) (gi_initial gi) ->
  g_new_solution gi = Some s0 -> GInv gi s0.
Proof. exact GInv_start_stmt. Qed.
Print Assumptions GInv_start.

(* ================================================================== *)
(* 2. A stops move of a unit that is no member of a group              *)
(* ================================================================== *)

(* whatever the answer (Done, Rejected = rollback, NotExecutable); UndoFailed
   cannot happen; when the answer is not Done the routes are those of s (and
   then, by GInv_ns_colls_determined, the collections are the same sets) *)
Theorem GInv_exec_move_nonmember : forall gi s mv s' r,
  wf_input (gi_inp gi) -> wf_ginput gi -> GInv gi s ->
  member_group gi (mv_unit mv) = None -> move_ok (gi_inp gi) s mv ->
  g_exec_move gi s mv = (s', r) ->
  r <> UndoFailed /\ GInv gi s' /\ (r <> Done -> st_routes s' = st_routes s).
Proof. exact GInv_exec_move_nonmember_stmt. Qed.
Print Assumptions GInv_exec_move_nonmember.

Theorem GInv_exec_checked_nonmember : forall gi s mv s' r,
  wf_input (gi_inp gi) -> wf_ginput gi -> GInv gi s ->
  member_group gi (mv_unit mv) = None -> move_ok (gi_inp gi) s mv ->
  g_exec_checked gi s mv = (s', r) ->
  r <> UndoFailed /\ GInv gi s' /\ (r <> Done -> st_routes s' = st_routes s).
Proof. exact GInv_exec_checked_nonmember_stmt. Qed.
Print Assumptions GInv_exec_checked_nonmember.

(* ================================================================== *)
(* 3. The un-plan of a unit that is no member of a group               *)
(* ================================================================== *)

(* no bound on u is needed: an index beyond the units is "not planned" *)
Theorem GInv_unplan_nonmember : forall gi s u s' r,
  wf_input (gi_inp gi) -> wf_ginput gi -> GInv gi s ->
  member_group gi u = None ->
  g_unplan_unit gi s u = (s', r) ->
  r <> UndoFailed /\ GInv gi s' /\ (r <> Done -> st_routes s' = st_routes s).
Proof. exact GInv_unplan_nonmember_stmt. Qed.
Print Assumptions GInv_unplan_nonmember.

(* ================================================================== *)
(* 4. A units move that answers Done                                   *)
(* ================================================================== *)

(* the scores ARE fresh afterwards: the last member move refreshes them while
   the group is already booked planned *)
Theorem GInv_exec_units_done : forall gi s id subs s',
  wf_input (gi_inp gi) -> wf_ginput gi -> GInv gi s ->
  group_id gi id -> In id (st_unplanned s) ->
  subs_fresh gi (move_to_planned s id) subs ->
  Permutation (map sb_unit subs) (members_of gi id) ->
  g_exec_units gi s id subs = (s', Done) ->
  GInv gi s' /\ In id (st_planned s') /\ ~ In id (st_unplanned s') /\ top_planned gi s' id = true.
Proof. exact GInv_exec_units_done_stmt. Qed.
Print Assumptions GInv_exec_units_done.

(* stronger: the scores of s may be stale (a Done units move REPAIRS them),
   "unplanned" follows from the answer, the covering is two inclusions *)
Theorem GInv_exec_units_done_strong : forall gi s id subs s',
  wf_input (gi_inp gi) -> wf_ginput gi -> GInv_ns gi s -> group_id gi id ->
  subs_fresh gi (move_to_planned s id) subs ->
  incl (map sb_unit subs) (members_of gi id) -> incl (members_of gi id) (map sb_unit subs) ->
  g_exec_units gi s id subs = (s', Done) ->
  GInv gi s' /\ In id (st_planned s') /\ top_planned gi s' id = true.
Proof. exact GInv_exec_units_done_strong_stmt. Qed.
Print Assumptions GInv_exec_units_done_strong.

(* ================================================================== *)
(* 5. A units move that does not answer Done                           *)
(* ================================================================== *)

(* (i)-(iii) hold, the routes are those of s, the collections the same sets
   (unplanned may be reordered: the group id moves to the end) *)
Theorem GInv_exec_units_rejected : forall gi s id subs s' r,
  wf_input (gi_inp gi) -> wf_ginput gi -> GInv_ns gi s -> group_id gi id ->
  subs_fresh gi (move_to_planned s id) subs ->
  incl (map sb_unit subs) (members_of gi id) ->
  g_exec_units gi s id subs = (s', r) -> r <> Done ->
  r <> UndoFailed /\ GInv_ns gi s' /\ st_routes s' = st_routes s /\
  same_set (st_planned s') (st_planned s) /\ same_set (st_unplanned s') (st_unplanned s).
Proof. exact GInv_exec_units_rejected_stmt. Qed.
Print Assumptions GInv_exec_units_rejected.

(* ... but (iv) may be lost (defect N7, Props/Units.v
   N7_rejected_group_move_stale_score): the same witness, under all the
   hypotheses of GInv_exec_units_done except the answer *)
Theorem GInv_exec_units_rejected_stale_scores :
  exists gi s id subs k s',
    wf_input (gi_inp gi) /\ wf_ginput gi /\ Forall (fun l => l = []) (gi_initial gi) /\
    GInv gi s /\ group_id gi id /\ In id (st_unplanned s) /\
    subs_fresh gi (move_to_planned s id) subs /\
    Permutation (map sb_unit subs) (members_of gi id) /\
    g_exec_units gi s id subs = (s', Rejected k) /\
    GInv_ns gi s' /\ st_total s' <> sumZ (g_score_terms gi s') /\ ~ GInv gi s'.
Proof. exact GInv_exec_units_rejected_stale_scores_proof. Qed.
Print Assumptions GInv_exec_units_rejected_stale_scores.

(* ================================================================== *)
(* 6. A group un-plan all of whose member un-plans answer Done         *)
(* ================================================================== *)

(* (when a member un-plan is rejected: defect N2; see
   GInv_example_unplan_condition_not_vacuous below) *)
Theorem GInv_unplan_group_all_done : forall gi s id s' r,
  wf_input (gi_inp gi) -> wf_ginput gi -> Forall (fun l => l = []) (gi_initial gi) ->
  GInv_ns gi s -> group_id gi id -> In id (st_planned s) ->
  unplan_group_all_done gi s id = true ->
  g_unplan_group gi s id = (s', r) ->
  r = Done /\ GInv gi s' /\ In id (st_unplanned s') /\ ~ In id (st_planned s') /\
  forall m, In m (members_of gi id) -> unit_planned (gi_inp gi) s' m = false.
Proof. exact GInv_unplan_group_all_done_stmt. Qed.
Print Assumptions GInv_unplan_group_all_done.

(* ================================================================== *)
(* 7. Histories                                                        *)
(* ================================================================== *)

Theorem GInv_gop_unfold : forall gi s,
  (forall mv, (gop_step gi s (GPlanUnit mv) = g_exec_move gi s mv) /\
              (gop_ok gi s (GPlanUnit mv) <->
               member_group gi (mv_unit mv) = None /\ move_ok (gi_inp gi) s mv)) /\
  (forall u, (gop_step gi s (GUnplanUnit u) = g_unplan_unit gi s u) /\
             (gop_ok gi s (GUnplanUnit u) <-> member_group gi u = None)) /\
  (forall id subs, (gop_step gi s (GPlanGroup id subs) = g_exec_units gi s id subs) /\
             (gop_ok gi s (GPlanGroup id subs) <->
              group_id gi id /\ In id (st_unplanned s) /\
              subs_fresh gi (move_to_planned s id) subs /\
              Permutation (map sb_unit subs) (members_of gi id) /\
              snd (g_exec_units gi s id subs) = Done)) /\
  (forall id, (gop_step gi s (GUnplanGroup id) = g_unplan_group gi s id) /\
             (gop_ok gi s (GUnplanGroup id) <->
              group_id gi id /\ In id (st_planned s) /\ unplan_group_all_done gi s id = true)).
Proof. exact gop_unfold_proof. Qed.
Print Assumptions GInv_gop_unfold.

Theorem GInv_gops_unfold : forall gi s o h,
  (gops_ok gi s [] <-> True) /\
  (gops_ok gi s (o :: h) <-> gop_ok gi s o /\ gops_ok gi (fst (gop_step gi s o)) h) /\
  gops_run gi s [] = [s] /\
  gops_run gi s (o :: h) = s :: gops_run gi (fst (gop_step gi s o)) h /\
  gops_answers gi s [] = [] /\
  gops_answers gi s (o :: h) = snd (gop_step gi s o) :: gops_answers gi (fst (gop_step gi s o)) h.
Proof. exact gops_unfold_proof. Qed.
Print Assumptions GInv_gops_unfold.

(* every state met (the start state included) satisfies GInv, and no
   operation answers UndoFailed.  Choice: [gop_ok] asks GPlanGroup to answer
   Done, so the full invariant is carried ... *)
Theorem GInv_history : forall gi s0 h,
  wf_input (gi_inp gi) -> wf_ginput gi -> Forall (fun l => l = []) (gi_initial gi) ->
  g_new_solution gi = Some s0 -> gops_ok gi s0 h ->
  Forall (GInv gi) (gops_run gi s0 h) /\
  Forall (fun r => r <> UndoFailed) (gops_answers gi s0 h).
Proof. exact GInv_history_stmt. Qed.
Print Assumptions GInv_history.

(* ... and when units moves may be rejected ([gop_ok_ns]: no answer asked of
   GPlanGroup, the members only need to be covered when it answers Done),
   "GInv up to the scores" is carried *)
Theorem GInv_gop_ok_ns_unfold : forall gi s,
  (forall mv, gop_ok_ns gi s (GPlanUnit mv) <->
              member_group gi (mv_unit mv) = None /\ move_ok (gi_inp gi) s mv) /\
  (forall u, gop_ok_ns gi s (GUnplanUnit u) <-> member_group gi u = None) /\
  (forall id subs, gop_ok_ns gi s (GPlanGroup id subs) <->
              group_id gi id /\ subs_fresh gi (move_to_planned s id) subs /\
              incl (map sb_unit subs) (members_of gi id) /\
              (snd (g_exec_units gi s id subs) = Done -> incl (members_of gi id) (map sb_unit subs))) /\
  (forall id, gop_ok_ns gi s (GUnplanGroup id) <->
              group_id gi id /\ In id (st_planned s) /\ unplan_group_all_done gi s id = true) /\
  (forall o, gop_ok gi s o -> gop_ok_ns gi s o) /\
  (forall o h, (gops_ok_ns gi s [] <-> True) /\
     (gops_ok_ns gi s (o :: h) <-> gop_ok_ns gi s o /\ gops_ok_ns gi (fst (gop_step gi s o)) h)).
Proof. exact gop_ok_ns_unfold_proof. Qed.
Print Assumptions GInv_gop_ok_ns_unfold.

Theorem GInv_ns_history : forall gi s0 h,
  wf_input (gi_inp gi) -> wf_ginput gi -> Forall (fun l => l = []) (gi_initial gi) ->
  g_new_solution gi = Some s0 -> gops_ok_ns gi s0 h ->
  Forall (GInv_ns gi) (gops_run gi s0 h) /\
  Forall (fun r => r <> UndoFailed) (gops_answers gi s0 h).
Proof. exact GInv_ns_history_stmt. Qed.
Print Assumptions GInv_ns_history.

(* ================================================================== *)
(* 8. The output                                                       *)
(* ================================================================== *)

(* every input stop is reported exactly once, as unplanned or on a route
   (the statement of C20_each_input_stop_once with g_format_solution; only
   (i)-(iii) are needed).  [interior_stops s]: see Props/C20.v *)
Theorem GInv_format_each_stop_once : forall gi s,
  wf_input (gi_inp gi) -> wf_ginput gi -> GInv_ns gi s ->
  Permutation (out_unplanned (g_format_solution gi s) ++ interior_stops s)
              (seq 0 (nstops (gi_inp gi))).
Proof. exact GInv_format_each_stop_once_stmt. Qed.
Print Assumptions GInv_format_each_stop_once.

(* the vehicles are those of the core formatter (so C20_vehicles,
   C20_listed_stops, ... of Props/C20.v apply as they are); the reported
   objective is the sum of the reported terms, which are the recomputation *)
Theorem GInv_format_rest : forall gi s,
  GInv gi s ->
  out_vehicles (g_format_solution gi s) = out_vehicles (format_solution (gi_inp gi) s) /\
  out_total (g_format_solution gi s) = sumZ (out_terms (g_format_solution gi s)) /\
  out_terms (g_format_solution gi s) = g_score_terms gi s.
Proof. exact GInv_format_rest_stmt. Qed.
Print Assumptions GInv_format_rest.

(* ================================================================== *)
(* 9. Non-vacuity                                                      *)
(* ================================================================== *)

(* e_gi: one vehicle of capacity 1; stop 0 picks up 1, stop 1 delivers 1, stop 2
   carries nothing; one stops unit per stop; units 0 and 1 form the group
   [1; 0] (id 3), unit 2 is free.  History e_h: plan the group, plan unit 2,
   un-plan the group.  Everything succeeds. *)
Theorem GInv_example_inputs :
  wf_input (gi_inp e_gi) /\ wf_ginput e_gi /\ Forall (fun l => l = []) (gi_initial e_gi) /\
  g_new_solution e_gi = Some e_s0 /\
  e_h = [GPlanGroup 3 [mkSub 0 0 [(0, 4)]; mkSub 1 0 [(1, 4)]];
         GPlanUnit (mkMove 2 0 [(2, 1)]); GUnplanGroup 3].
Proof.
  exact (conj e_wf (conj e_wfg (conj e_no_initial (conj e_new eq_refl)))).
Qed.
Print Assumptions GInv_example_inputs.

Theorem GInv_example_history_ok : gops_ok e_gi e_s0 e_h.
Proof. exact e_history_ok. Qed.
Print Assumptions GInv_example_history_ok.

Theorem GInv_example_history_run :
  gops_run e_gi e_s0 e_h = [e_s0; e_s1; e_s2; e_s3] /\
  gops_answers e_gi e_s0 e_h = [Done; Done; Done].
Proof. exact (conj e_history_states e_history_answers). Qed.
Print Assumptions GInv_example_history_run.

Theorem GInv_example_history_ginv : Forall (GInv e_gi) [e_s0; e_s1; e_s2; e_s3].
Proof. exact e_history_ginv. Qed.
Print Assumptions GInv_example_history_ginv.

(* routes, planned, unplanned, total of the four states *)
Theorem GInv_example_history_shape :
  map (fun s => (map route_stops (st_routes s), st_planned s, st_unplanned s, st_total s))
      [e_s0; e_s1; e_s2; e_s3]
  = [([[3; 4]], [], [2; 3], 28%Z);
     ([[3; 0; 1; 4]], [3], [2], 10%Z);
     ([[3; 2; 0; 1; 4]], [3; 2], [], 4%Z);
     ([[3; 2; 4]], [2], [3], 22%Z)].
Proof. exact e_history_shape. Qed.
Print Assumptions GInv_example_history_shape.

(* the output of every state: (unplanned stops, stops on the routes) *)
Theorem GInv_example_history_output :
  map (fun s => (out_unplanned (g_format_solution e_gi s), interior_stops s))
      [e_s0; e_s1; e_s2; e_s3]
  = [([2; 1; 0], []); ([2], [0; 1]); ([], [2; 0; 1]); ([1; 0], [2])].
Proof. exact e_history_output. Qed.
Print Assumptions GInv_example_history_output.

Theorem GInv_example_final_output :
  Permutation (out_unplanned (g_format_solution e_gi e_s3) ++ interior_stops e_s3) (seq 0 (nstops e_inp)).
Proof. exact e_final_output_perm. Qed.
Print Assumptions GInv_example_final_output.

(* the "succeeds" condition of GUnplanGroup can fail: on the witness run of
   N2 (Props/Units.v; the group is listed as [0; 1]) the replay answers false *)
Theorem GInv_example_unplan_condition_not_vacuous :
  g_exec_units w_gi w_s0 w_gid w_subs = (w_s1, Done) /\
  unplan_group_all_done w_gi w_s1 w_gid = false.
Proof. exact (conj w_planned w_unplan_group_not_all_done). Qed.
Print Assumptions GInv_example_unplan_condition_not_vacuous.
