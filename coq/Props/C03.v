(* C03 (part covered by the engine model): every input stop is on at most one
   route, at most once; a route is the vehicle's first stop, input stops, the
   vehicle's last stop; the stops of a unit are all on ONE route or on none.

   NOT covered here: the order of a unit's stops on the route (precedes /
   succeeds, direct adjacency), stop groups, alternates and fixed (initial)
   stops.  In this model a move carries an arbitrary placement of the unit's
   stops ([move_ok] does not require the DAG order), so order is a property of
   the move generators, not of the engine; it is the subject of a separate
   model.

   Model: NR.Model.Engine; proofs: NR.Proofs.Engine_inv, NR.Proofs.Engine_spec.
   This file only states the theorems.
   [reachable inp s]: see Props/C04.v (C04_reachable_unfold). *)

From Coq Require Import List ZArith.
From NR Require Import Model.Engine Proofs.Engine_inv Proofs.Engine_spec.
Import ListNotations.

Theorem C03_exactly_once : forall inp s,
  wf_input inp -> reachable inp s ->
  NoDup (interior_stops s) /\
  (forall x, In x (interior_stops s) -> (x < nstops inp)%nat) /\
  (forall v, (v < nveh inp)%nat ->
     exists mid, route_stops (get_route s v) = first_stop inp v :: mid ++ [last_stop inp v] /\
                 Forall (fun x => (x < nstops inp)%nat) mid).
Proof. exact C03_exactly_once_proof. Qed.
Print Assumptions C03_exactly_once.

(* whole and together: one vehicle holds all stops of the unit (and no other
   vehicle holds any), or no vehicle holds any *)
Theorem C03_unit_whole_and_together : forall inp s u,
  wf_input inp -> reachable inp s -> (u < nunits inp)%nat ->
  (exists v, (v < nveh inp)%nat /\
     (forall x, In x (iu_stops (get_unit inp u)) -> In x (route_stops (get_route s v))) /\
     (forall v' x, (v' < nveh inp)%nat -> In x (iu_stops (get_unit inp u)) ->
                   In x (route_stops (get_route s v')) -> v' = v)) \/
  (forall v x, (v < nveh inp)%nat -> In x (iu_stops (get_unit inp u)) ->
               ~ In x (route_stops (get_route s v))).
Proof. exact C03_unit_whole_and_together_proof. Qed.
Print Assumptions C03_unit_whole_and_together.
