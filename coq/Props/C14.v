(* C14: shared memory and its protection.  The lockset checker of
   NR.Model.Discipline (accesses / unprotected_pair / racy_vars) and what a
   common mutex guarantees.  Proofs are in NR.Proofs.Discipline_proofs; this
   file only states the theorems.  The mutex semantics (ev, config, step,
   reachable, holds, enabled_access_under, static_locks) is defined in the
   proofs file: threads are lists of events Acq m | Rel m | Acc v w, a
   configuration is the remaining events of every thread plus the held
   mutexes with their owner, [Acq m] fires only when m is free. *)

From Coq Require Import List String Bool Arith.
From NR Require Import Model.Skeleton Model.Discipline Proofs.Discipline_proofs Proofs.FieldLocks_proofs.
Import ListNotations.
Open Scope string_scope.
Open Scope list_scope.

(* the checker misses no pair: if it reports nothing, every two conflicting
   accesses that may run concurrently share a mutex *)
Theorem C14_checker_complete : forall body,
  racy_vars body = [] ->
  forall a b, In a (accesses body) -> In b (accesses body) ->
  a_var a = a_var b ->
  (a_gor a <> a_gor b \/ a_multi a = true) ->
  (a_write a = true \/ a_write b = true) ->
  a_init a = false -> a_init b = false ->
  exists m, In m (a_locks a) /\ In m (a_locks b).
Proof. exact C14_checker_complete_proof. Qed.
Print Assumptions C14_checker_complete.

(* per variable *)
Theorem C14_checker_complete_var : forall body v,
  ~ In v (racy_vars body) ->
  forall a b, In a (accesses body) -> In b (accesses body) ->
  a_var a = v -> a_var b = v ->
  (a_gor a <> a_gor b \/ a_multi a = true) ->
  (a_write a = true \/ a_write b = true) ->
  a_init a = false -> a_init b = false ->
  exists m, In m (a_locks a) /\ In m (a_locks b).
Proof. exact C14_checker_complete_var_proof. Qed.
Print Assumptions C14_checker_complete_var.

(* in every reachable configuration a mutex has at most one owner *)
Theorem C14_mutex_exclusion : forall ts0 c,
  reachable ts0 c ->
  forall m i j, holds c i m -> holds c j m -> i = j.
Proof. exact C14_mutex_exclusion_proof. Qed.
Print Assumptions C14_mutex_exclusion.

(* two accesses made while holding a common mutex are never enabled together
   in two different threads *)
Theorem C14_guarded_accesses_exclusive : forall ts0 c,
  reachable ts0 c ->
  forall m i j, enabled_access_under c i m -> enabled_access_under c j m -> i = j.
Proof. exact C14_guarded_accesses_exclusive_proof. Qed.
Print Assumptions C14_guarded_accesses_exclusive.

(* lockset soundness: the statically computed lockset of a program point (the
   way walk_sk computes t_locks: push on lock, remove on unlock) is held when
   the thread is at that point; so two points of different threads whose
   static locksets share a mutex are never current together *)
Theorem C14_lockset_sound : forall ts0 c,
  reachable ts0 c ->
  forall i j pi pj m,
    ts0 i = pi ++ c_ts c i -> ts0 j = pj ++ c_ts c j ->
    In m (static_locks pi) -> In m (static_locks pj) ->
    i = j.
Proof. exact C14_lockset_sound_proof. Qed.
Print Assumptions C14_lockset_sound.

(* Objects that are registered on the model and called by every run (the
   observers): the translator lists every access of a field of such an object
   with the object's own mutexes held at that point
   (Gen/Skeleton_fieldlocks.v); field_conflicts is the pairwise lockset
   condition on that list.  If it reports nothing, any two accesses of one
   field, one of them a write, outside the exempted methods (reporting after
   the solve) hold a common mutex - by C14_mutex_exclusion they are never
   concurrent.  Oblig/O_C14_fields.v evaluates it on the regenerated list. *)
Theorem C14_field_lockset_complete : forall (exempt : string -> bool) (l : list faccess),
  field_conflicts exempt l = [] ->
  forall a b, In a l -> In b l ->
    same_field a b = true -> fa_write a = true ->
    exempt (fa_method a) = false -> exempt (fa_method b) = false ->
    exists m, In m (fa_locks a) /\ In m (fa_locks b).
Proof. exact field_lockset_complete_proof. Qed.
Print Assumptions C14_field_lockset_complete.

(* the same from the reader's side: a read and a write of one field *)
Theorem C14_field_lockset_read_write : forall (exempt : string -> bool) (l : list faccess),
  field_conflicts exempt l = [] ->
  forall a b, In a l -> In b l ->
    same_field a b = true -> fa_write b = true ->
    exempt (fa_method a) = false -> exempt (fa_method b) = false ->
    exists m, In m (fa_locks a) /\ In m (fa_locks b).
Proof. exact field_lockset_read_write_proof. Qed.
Print Assumptions C14_field_lockset_read_write.

(* non-vacuity: a consistent table passes (the lock-free reporting method is
   what the exemption is for), one handler under the wrong mutex is reported
   from both sides *)
Theorem C14_field_lockset_example :
  field_conflicts (String.eqb "Report") fl_good = [] /\
  field_conflicts (fun _ => false) fl_good = [("obs", "data", "OnA", "Report")] /\
  field_conflicts (String.eqb "Report") fl_bad = [("obs", "data", "OnA", "OnB"); ("obs", "data", "OnB", "OnA")].
Proof. exact field_lockset_example_proof. Qed.
Print Assumptions C14_field_lockset_example.
