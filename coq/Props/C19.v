(* C19: a user-supplied constraint's exact check is authoritative.

   Model: NR.Model.Engine.  User constraints are part of the input
   ([in_user inp : list uatom]): atom [a] bounds one cached field of a cell,
   [ufield_value inp c (ua_field a) <= ua_max a]; it is checked at every
   non-first cell ([ua_vehicle_level a = false]) or only at the cell of a
   vehicle's last stop ([ua_vehicle_level a = true]).  Their estimate always
   answers "not violated" (they do not occur in Model/Estimates.v), so only
   the exact check of [stop_violation] (built-in constraints first, then the
   user's, AddConstraint order) stands between a move and the solution.
   Proofs: NR.Proofs.C19_proofs.  This file only states the theorems.
   [reachable inp s]: see Props/C04.v.  [same_obs]: see Props/C07.v. *)

From Coq Require Import List ZArith.
From NR Require Import Model.Engine Proofs.Engine_inv Proofs.Engine_spec Proofs.C19_proofs.
Import ListNotations.
Open Scope Z_scope.

(* what "no user violation" means, and that a clean exact check implies it *)
Theorem C19_user_violation_none : forall inp,
  (forall temporal c i us,
     user_violation inp temporal c i us = None ->
     forall a, In a us ->
       (temporal = true \/ ua_temporal a = false) ->
       (ua_vehicle_level a = false \/ is_last_stop inp (c_stop c) = true) ->
       ufield_value inp c (ua_field a) <= ua_max a) /\
  (forall v c, stop_violation inp v true c = None ->
               user_violation inp true c 0 (in_user inp) = None).
Proof. exact C19_user_violation_none_proof. Qed.
Print Assumptions C19_user_violation_none.

(* conversely a violation reported as [KUser i] names an atom of the input
   whose check applies to the cell and fails *)
Theorem C19_user_violation_some : forall inp v temporal c i,
  stop_violation inp v temporal c = Some (KUser i) ->
  exists a, nth_error (in_user inp) i = Some a /\
    (temporal = true \/ ua_temporal a = false) /\
    (ua_vehicle_level a = false \/ is_last_stop inp (c_stop c) = true) /\
    ua_max a < ufield_value inp c (ua_field a).
Proof. exact C19_user_violation_some_proof. Qed.
Print Assumptions C19_user_violation_some.

(* no reachable solution violates a user constraint *)
Theorem C19_never_violated : forall inp s v a,
  wf_input inp -> reachable inp s -> (v < nveh inp)%nat -> In a (in_user inp) ->
  (ua_vehicle_level a = false ->
     forall c, In c (tl (get_route s v)) -> ufield_value inp c (ua_field a) <= ua_max a) /\
  (forall c, In c (tl (get_route s v)) -> is_last_stop inp (c_stop c) = true ->
     ufield_value inp c (ua_field a) <= ua_max a) /\
  ufield_value inp (last_cell (get_route s v)) (ua_field a) <= ua_max a.
Proof. exact C19_never_violated_proof. Qed.
Print Assumptions C19_never_violated.

(* a move or un-plan rejected by a user constraint (or by anything else)
   leaves the solution observably unchanged; holds for every input, whatever
   its user constraints *)
Theorem C19_rejection_restores : forall inp s,
  wf_input inp -> reachable inp s ->
  (forall mv s' i, move_ok inp s mv -> exec_move inp s mv = (s', Rejected (KUser i)) ->
     same_obs s' s) /\
  (forall u s' i, (u < nunits inp)%nat -> unplan_unit inp s u = (s', Rejected (KUser i)) ->
     same_obs s' s) /\
  (forall mv s' r, move_ok inp s mv -> exec_move inp s mv = (s', r) -> r <> Done ->
     same_obs s' s) /\
  (forall u s' r, (u < nunits inp)%nat -> unplan_unit inp s u = (s', r) -> r <> Done ->
     same_obs s' s).
Proof. exact C19_rejection_restores_proof. Qed.
Print Assumptions C19_rejection_restores.

(* estimates play no role in exec_move: whatever they said, the move completes
   only if every user atom holds on the new solution (which is reachable) *)
Theorem C19_optimistic_estimate_is_safe : forall inp s mv s1,
  wf_input inp -> reachable inp s -> move_ok inp s mv ->
  exec_move inp s mv = (s1, Done) ->
  reachable inp s1 /\
  forall v a, (v < nveh inp)%nat -> In a (in_user inp) ->
    (ua_vehicle_level a = false ->
       forall c, In c (tl (get_route s1 v)) -> ufield_value inp c (ua_field a) <= ua_max a) /\
    ufield_value inp (last_cell (get_route s1 v)) (ua_field a) <= ua_max a.
Proof. exact C19_optimistic_estimate_is_safe_proof. Qed.
Print Assumptions C19_optimistic_estimate_is_safe.

(* and a rejection "by user constraint i" is genuine: atom i fails on a cell of
   the candidate route recomputed from scratch *)
Theorem C19_rejection_is_genuine : forall inp s mv s' i,
  wf_input inp -> reachable inp s -> move_ok inp s mv ->
  exec_move inp s mv = (s', Rejected (KUser i)) ->
  exists a c,
    nth_error (in_user inp) i = Some a /\
    In c (tl (from_scratch inp (mv_vehicle mv)
                 (insert_places 0 (route_stops (get_route s (mv_vehicle mv))) (mv_places mv)))) /\
    (ua_vehicle_level a = false \/ is_last_stop inp (c_stop c) = true) /\
    ua_max a < ufield_value inp c (ua_field a).
Proof. exact C19_rejection_is_genuine_proof. Qed.
Print Assumptions C19_rejection_is_genuine.

(* non-vacuity (Proofs/C19_proofs.v): input ex19_inp carries the user
   constraint "position <= 2 at every stop"; the first stop is planned, the
   second is refused by user constraint 0 and the state is exactly restored *)
Theorem C19_example_rejected :
  in_user ex19_inp = [mkUAtom UPos 2 false false] /\
  exec_move ex19_inp ex19_s0 ex19_mv1 = (ex19_s1, Done) /\
  move_ok ex19_inp ex19_s1 ex19_mv2 /\
  exec_move ex19_inp ex19_s1 ex19_mv2 = (ex19_s1, Rejected (KUser 0)).
Proof. exact C19_example_rejected_proof. Qed.
Print Assumptions C19_example_rejected.
