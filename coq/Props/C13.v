(* C13: the deterministic parallel mode (run_deterministically): what the cycle
   barrier orders and what it does not; model: NR.Model.ParallelDet.
   Proofs are in NR.Proofs.ParallelDet_proofs; this file only states the
   theorems.  Definitions used from the proofs file:
     one_worker_sched w sched : sched = pre ++ DStart w :: post where pre and
       post contain no DStart (forwards and comparisons in any order and
       number; actions that are not enabled are skipped by drun);
     no_start sched : sched contains no DStart;
     dmin st : the minimum of d_best and all pending and queued results;
     agg b out l : the aggregator's (best, channel) after results l.

   C13_two_workers_tie: no theorem.  The model carries scores only; with two
   workers of one cycle that forward solutions of EQUAL score the Go code keeps
   the one forwarded first, the model reaches the same state for both orders
   (Example C13_two_workers_tie_indistinguishable in the proofs file), so the
   dependence of the kept ROUTES on the forwarding order is outside this
   model. *)

From Coq Require Import List ZArith Bool Sorted.
From NR Require Import Model.ParallelDet Proofs.ParallelDet_proofs.
Import ListNotations.
Open Scope Z_scope.

(* for every schedule, the scores sent on the result channel strictly improve
   (oldest first) and bestSolution is the newest of them *)
Theorem C13_out_decreasing : forall s0 sched,
  let st := drun (dinit s0) sched in
  StronglySorted Z.gt (rev (d_out st)) /\ d_best st = hd s0 (d_out st).
Proof. exact C13_out_decreasing_proof. Qed.
Print Assumptions C13_out_decreasing.

(* one worker, one cycle (the golden-file configuration): every schedule that
   ends quiescent ends with the same best ... *)
Theorem C13_single_run_single_cycle : forall s0 w sched,
  one_worker_sched w sched ->
  quiescent (drun (dinit s0) sched) = true ->
  d_best (drun (dinit s0) sched) = fold_left Z.min (w s0) s0.
Proof. exact C13_single_run_single_cycle_proof. Qed.
Print Assumptions C13_single_run_single_cycle.

(* ... and with the same sequence of improving solutions on the channel *)
Theorem C13_single_cycle_out : forall s0 w sched,
  one_worker_sched w sched ->
  quiescent (drun (dinit s0) sched) = true ->
  d_out (drun (dinit s0) sched) = snd (agg s0 [s0] (w s0)).
Proof. exact C13_single_cycle_out_proof. Qed.
Print Assumptions C13_single_cycle_out.

(* if cycle 1 ends QUIESCENT, nothing of what follows depends on how cycle 1
   was scheduled: same best, the whole two-cycle run is the same state for
   every cycle-2 schedule, and a one-worker cycle 2 that ends quiescent ends
   with the minimum over what its worker produced from that best *)
Theorem C13_quiescent_cycle_deterministic : forall s0 w1 c1 c1',
  one_worker_sched w1 c1 -> one_worker_sched w1 c1' ->
  quiescent (drun (dinit s0) c1) = true ->
  quiescent (drun (dinit s0) c1') = true ->
  let b1 := fold_left Z.min (w1 s0) s0 in
  d_best (drun (dinit s0) c1) = b1 /\
  d_best (drun (dinit s0) c1') = b1 /\
  (forall c2, two_cycles s0 c1 c2 = two_cycles s0 c1' c2) /\
  (forall w2 c2, one_worker_sched w2 c2 ->
     quiescent (two_cycles s0 c1 c2) = true ->
     d_best (two_cycles s0 c1 c2) = fold_left Z.min (w2 b1) b1).
Proof. exact C13_quiescent_cycle_deterministic_proof. Qed.
Print Assumptions C13_quiescent_cycle_deterministic.

(* any number of workers: once the last worker has started, a run that ends
   quiescent ends with the minimum of everything in flight, whatever the
   order of forwards and comparisons *)
Theorem C13_drain_min : forall st sched,
  no_start sched = true ->
  quiescent (drun st sched) = true ->
  d_best (drun st sched) = dmin st.
Proof. exact C13_drain_min_proof. Qed.
Print Assumptions C13_drain_min.

(* REFUTED: "the barrier makes the next cycle's start well defined".  The
   barrier (cycle_done) does not imply quiescent, and two barrier-respecting
   schedules (same s0, same worker, one worker per cycle) end with different
   bests: in one the aggregator compares the last result of cycle 1 before
   the cycle-2 worker reads bestSolution, in the other after *)
Theorem C13_barrier_is_not_quiescence_refuted :
  exists (s0 : Z) (w : worker) (c1 c2 c2' : list dact),
    one_worker_sched w c1 /\ one_worker_sched w c2 /\ one_worker_sched w c2' /\
    cycle_done (drun (dinit s0) c1) = true /\
    quiescent (drun (dinit s0) c1) = false /\
    d_best (two_cycles s0 c1 c2) <> d_best (two_cycles s0 c1 c2').
Proof. exact C13_barrier_is_not_quiescence_refuted_proof. Qed.
Print Assumptions C13_barrier_is_not_quiescence_refuted.
