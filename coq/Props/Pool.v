(* Borrow discipline of sync.Pool buffers: theorem statements.
   Model: NR.Model.Pool; proofs: NR.Proofs.Pool_proofs. *)

From Coq Require Import List Bool.
Import ListNotations.
Require Import NR.Model.Pool.
Require Import NR.Proofs.Pool_proofs.

(* ---- 1. the abstract interpreter is sound on all paths ---------------- *)

(* If the checker accepts [body] from the set [st] of start states, then every
   path of [body] from every start state in [st] is accepted by the automaton
   (no Use before Get or after Put, no double Put) and ends in a state the
   checker predicted for that kind of exit.  Running out of fuel gives
   [o_ok = false], so it is excluded by the hypothesis. *)
Theorem pcheck_sound : forall fuel body st o,
  pcheck fuel body st = o -> o_ok o = true ->
  forall s tr ex, pin s st = true -> ppath body tr ex ->
  exists s', brun s tr = Some s' /\
    pin s' (match ex with ENorm => o_norm o | EBrk => o_brk o | ECont => o_cont o | ERet => o_ret o end) = true.
Proof. exact Pool_proofs.pcheck_sound. Qed.
Print Assumptions pcheck_sound.

(* the four rounds of [grow] in the loop case reach a fixpoint: the loop head
   set is a post-fixpoint of the body's transfer (no monotonicity needed) *)
Theorem phead_postfix : forall f b st,
  let inn := phead f b st in
  ple st inn /\
  ple (pjoin (o_norm (pcheck f b inn)) (o_cont (pcheck f b inn))) inn.
Proof. exact Pool_proofs.phead_sound. Qed.
Print Assumptions phead_postfix.

(* the checker is monotone in the set of start states: a larger set is harder
   to accept and gives larger outputs (not needed for soundness) *)
Theorem pcheck_mono : forall fuel body st1 st2, ple st1 st2 ->
  (o_ok (pcheck fuel body st2) = true -> o_ok (pcheck fuel body st1) = true) /\
  ple (o_norm (pcheck fuel body st1)) (o_norm (pcheck fuel body st2)) /\
  ple (o_brk (pcheck fuel body st1)) (o_brk (pcheck fuel body st2)) /\
  ple (o_cont (pcheck fuel body st1)) (o_cont (pcheck fuel body st2)) /\
  ple (o_ret (pcheck fuel body st1)) (o_ret (pcheck fuel body st2)).
Proof. exact Pool_proofs.pcheck_mono_conj. Qed.
Print Assumptions pcheck_mono.

(* ---- 2. corollaries ---------------------------------------------------- *)

Theorem borrower_ok_sound : forall body, borrower_ok body = true ->
  forall tr ex, ppath body tr ex ->
  exists s', brun BFresh tr = Some s' /\ (ex = ENorm \/ ex = ERet).
Proof. exact Pool_proofs.borrower_ok_sound. Qed.
Print Assumptions borrower_ok_sound.

Theorem no_leak_sound : forall body, borrower_ok body = true -> no_leak body = true ->
  forall tr ex, ppath body tr ex ->
  exists s', brun BFresh tr = Some s' /\ s' <> BHeld.
Proof. exact Pool_proofs.no_leak_sound. Qed.
Print Assumptions no_leak_sound.

Theorem acquirer_ok_sound : forall body, acquirer_ok body = true ->
  forall tr ex, ppath body tr ex ->
  exists s', brun BFresh tr = Some s' /\ (ex = ENorm \/ ex = ERet) /\ s' = BHeld.
Proof. exact Pool_proofs.acquirer_ok_sound. Qed.
Print Assumptions acquirer_ok_sound.

Theorem brun_prefix : forall t1 t2 s s',
  brun s (t1 ++ t2) = Some s' -> exists m, brun s t1 = Some m /\ brun m t2 = Some s'.
Proof. exact Pool_proofs.brun_prefix. Qed.
Print Assumptions brun_prefix.

(* in an accepted trace every Use happens while the buffer is held *)
Theorem brun_use_held : forall s tr s',
  brun s tr = Some s' -> forall t1 t2, tr = t1 ++ PUse :: t2 -> brun s t1 = Some BHeld.
Proof. exact Pool_proofs.brun_use_held. Qed.
Print Assumptions brun_use_held.

(* ---- 3. exclusive ownership under concurrency ------------------------- *)

(* one direction only: a buffer leaked by a second Get stays in the pool's
   holder table for ever *)
Theorem Pool_views_agree : forall sched p v,
  grun pool_init vnone sched = Some (p, v) ->
  forall t b, v t = Some b -> holder_of p b = Some t.
Proof. exact Pool_proofs.pool_views_agree. Qed.
Print Assumptions Pool_views_agree.

Theorem Pool_no_double_holder : forall sched p v,
  grun pool_init vnone sched = Some (p, v) ->
  forall b t1 t2, v t1 = Some b -> v t2 = Some b -> t1 = t2.
Proof. exact Pool_proofs.pool_no_double_holder. Qed.
Print Assumptions Pool_no_double_holder.

(* a free buffer is held by nobody (neither in the table nor in a view), a
   buffer in the holder table is not free, all ids are below [next_id], the
   free list has no duplicates *)
Theorem Pool_free_wf : forall sched p v,
  grun pool_init vnone sched = Some (p, v) ->
  (forall b, In b (free p) -> holder_of p b = None /\ (forall t, v t <> Some b) /\ b < next_id p) /\
  (forall b t, In (b, t) (holder p) -> ~ In b (free p) /\ b < next_id p) /\
  NoDup (free p).
Proof. exact Pool_proofs.pool_free_wf. Qed.
Print Assumptions Pool_free_wf.

Theorem Pool_exclusive_use : forall s1 t b s2 p v,
  grun pool_init vnone (s1 ++ (t, TUse b) :: s2) = Some (p, v) ->
  exists p1 v1, grun pool_init vnone s1 = Some (p1, v1) /\
    holder_of p1 b = Some t /\ v1 t = Some b /\
    forall t', t' <> t -> holder_of p1 b <> Some t' /\ v1 t' <> Some b.
Proof. exact Pool_proofs.pool_exclusive_use. Qed.
Print Assumptions Pool_exclusive_use.

(* the discipline is needed: with [race_prefix] = thread 0: Get 0, Put 0;
   thread 1: Get 0 (all allowed by the discipline) thread 1 is the holder of
   buffer 0; the pool lets thread 0 use buffer 0 all the same
   ([grun_unchecked] accepts [race_sched] = [race_prefix ++ [(0, TUse 0)]]),
   only [thread_ok] forbids it *)
Theorem Pool_use_after_put_races :
  exists p1 v1 p2,
    grun pool_init vnone race_prefix = Some (p1, v1) /\
    holder_of p1 0 = Some 1 /\ v1 1 = Some 0 /\ v1 0 = None /\
    thread_ok (v1 0) (TUse 0) = None /\
    grun pool_init vnone race_sched = None /\
    grun_unchecked pool_init race_prefix = Some p1 /\
    grun_unchecked pool_init race_sched = Some p2.
Proof. exact Pool_proofs.pool_use_after_put_races. Qed.
Print Assumptions Pool_use_after_put_races.

(* ---- 4. non-vacuity ----------------------------------------------------- *)

Theorem Pool_good_accepted : borrower_ok good = true /\ no_leak good = true.
Proof. exact Pool_proofs.good_accepted. Qed.
Print Assumptions Pool_good_accepted.

Theorem Pool_bad_rejected :
  borrower_ok bad = false /\
  ppath bad [PGet; PUse; PPut; PUse] ERet /\
  brun BFresh [PGet; PUse; PPut; PUse] = None.
Proof. exact Pool_proofs.bad_rejected. Qed.
Print Assumptions Pool_bad_rejected.

Theorem Pool_leaky_allowed :
  borrower_ok leaky = true /\ no_leak leaky = false /\
  ppath leaky [PGet; PUse] ERet /\ brun BFresh [PGet; PUse] = Some BHeld.
Proof. exact Pool_proofs.leaky_allowed. Qed.
Print Assumptions Pool_leaky_allowed.
