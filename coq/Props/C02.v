(* C02: the temporal constraints hold on every route of every reachable
   state: service starts inside a start time window (or exactly at its
   close), the shift ends before end_time and within max_duration, waiting
   per stop and per vehicle stays within max_wait.

   [input_windows_ok inp]: the start time windows of every stop are sorted,
   disjoint, minute aligned, non-empty and after the epoch.  Needed because
   the window lookup of the code (common/rangecheck.go) works on minute
   slots; see Proofs/Engine_spec.v section A2 (to_earliest_start_spec).
   A cell c is a non-first cell of vehicle v: In c (tl (get_route s v)).

   Model: NR.Model.Engine; proofs: NR.Proofs.Engine_inv, NR.Proofs.Engine_spec.
   This file only states the theorems.
   [reachable inp s]: see Props/C04.v (C04_reachable_unfold). *)

From Coq Require Import List ZArith.
From NR Require Import Model.Engine Proofs.Engine_inv Proofs.Engine_spec.
Import ListNotations.
Open Scope Z_scope.

Theorem C02_arrival_le_start : forall inp s v c,
  wf_input inp -> reachable inp s -> (v < nveh inp)%nat -> In c (tl (get_route s v)) ->
  c_arrival c <= c_start c.
Proof. exact C02_arrival_le_start_proof. Qed.
Print Assumptions C02_arrival_le_start.

(* a stop with windows (windows not disabled): the latest-start constraint is
   installed and service starts inside a window or exactly at the last close
   (the code's check is start <= last close) *)
Theorem C02_start_in_window : forall inp s v c,
  wf_input inp -> reachable inp s -> input_windows_ok inp ->
  (v < nveh inp)%nat -> In c (tl (get_route s v)) ->
  let ws := stop_windows inp (c_stop c) in
  ws <> [] ->
  has_latest_start inp = true /\
  (in_some_window ws (c_start c) \/ c_start c = last_max ws).
Proof. exact C02_start_in_window_proof. Qed.
Print Assumptions C02_start_in_window.

(* the shift end: the last cell is at the vehicle's last stop and ends before
   end_time and before start_time + max_duration, when present and not
   disabled *)
Theorem C02_shift_end : forall inp s v,
  wf_input inp -> reachable inp s -> (v < nveh inp)%nat ->
  let c := last_cell (get_route s v) in
  let veh := get_vehicle inp v in
  c_stop c = last_stop inp v /\
  (o_dis_end_time (in_opts inp) = false -> forall e, iv_end_time veh = Some e -> c_end c <= e) /\
  (o_dis_max_duration (in_opts inp) = false -> forall d, iv_max_duration veh = Some d ->
     c_end c <= (if o_dis_start_time (in_opts inp) then 0 else iv_start_time veh) + d).
Proof. exact C02_shift_end_proof. Qed.
Print Assumptions C02_shift_end.

Theorem C02_max_wait_stop : forall inp s v c w,
  wf_input inp -> reachable inp s -> (v < nveh inp)%nat -> In c (tl (get_route s v)) ->
  o_dis_max_wait_stop (in_opts inp) = false ->
  (c_stop c < nstops inp)%nat -> is_max_wait (get_stop inp (c_stop c)) = Some w ->
  c_start c - c_arrival c <= w.
Proof. exact C02_max_wait_stop_proof. Qed.
Print Assumptions C02_max_wait_stop.

(* the vehicle's accumulated wait (the vehicle's last stop excluded) is the
   sum of the waits at the interior stops and is within max_wait -- at the end
   and at every stop on the way *)
Theorem C02_max_wait_vehicle : forall inp s v w,
  wf_input inp -> reachable inp s -> (v < nveh inp)%nat ->
  o_dis_max_wait_vehicle (in_opts inp) = false -> iv_max_wait (get_vehicle inp v) = Some w ->
  (forall c, In c (tl (get_route s v)) -> c_wait_acc c <= w) /\
  c_wait_acc (last_cell (get_route s v))
  = sumZ (map (fun c => c_start c - c_arrival c) (removelast (tl (get_route s v)))) /\
  sumZ (map (fun c => c_start c - c_arrival c) (removelast (tl (get_route s v)))) <= w.
Proof. exact C02_max_wait_vehicle_proof. Qed.
Print Assumptions C02_max_wait_vehicle.
