(* C11: solutionImpl.Copy gives the copy storage of its own; model:
   NR.Model.CopyHeap (a solution is a list of field locations, Copy treats
   each field as the regenerated table says).  Proofs are in
   NR.Proofs.CopyHeap_proofs; this file only states the theorems.
   Assumption of the model (not a theorem): an operation on a solution writes
   through that solution's own field locations only.
   Definitions used from the proofs file:
     apply_tagged s c h tws : apply a list of writes, each tagged with the
       side it goes to (true = through the copy c, false = through s);
     own_writes side tws : the writes of tws tagged with [side]. *)

From Coq Require Import String.
From Coq Require Import List Bool Arith ZArith.
From NR Require Import Model.Discipline Model.CopyHeap Proofs.CopyHeap_proofs.
Import ListNotations.

(* whatever the treatments: right after Copy the copy looks like the
   original, and the original is unchanged *)
Theorem C11_copy_same_obs : forall fresh h s,
  wf_sol h s -> length fresh = length s ->
  let '(h', c) := copy_fields fresh h s in
  obs h' c = obs h s /\ obs h' s = obs h s.
Proof. exact C11_copy_same_obs_proof. Qed.
Print Assumptions C11_copy_same_obs.

(* if every heap field is treated fresh: the copy is well formed, shares no
   location with the original, and writes through one side never change what
   the other side observes *)
Theorem C11_independent : forall fresh h s,
  wf_sol h s -> length fresh = length s ->
  forallb (fun b : bool => b) fresh = true ->
  let '(h', c) := copy_fields fresh h s in
  wf_sol h' c /\
  (forall l, In l c -> ~ In l s) /\
  (forall ws, obs (apply_ws c h' ws) s = obs h s) /\
  (forall ws, obs (apply_ws s h' ws) c = obs h s) /\
  (forall ws1 ws2,
     obs (apply_ws c (apply_ws s h' ws1) ws2) s = obs (apply_ws s h' ws1) s).
Proof. exact C11_independent_proof. Qed.
Print Assumptions C11_independent.

(* any interleaving of writes to the two sides: each side observes exactly
   the effect of its own writes *)
Theorem C11_interleaved : forall fresh h s,
  wf_sol h s -> length fresh = length s ->
  forallb (fun b : bool => b) fresh = true ->
  let '(h', c) := copy_fields fresh h s in
  forall tws,
    obs (apply_tagged s c h' tws) s = obs (apply_ws s h' (own_writes false tws)) s /\
    obs (apply_tagged s c h' tws) c = obs (apply_ws c h' (own_writes true tws)) c.
Proof. exact C11_interleaved_proof. Qed.
Print Assumptions C11_interleaved.

(* the discipline checked on the regenerated table (Oblig/O_C11:
   copy_violations copy_table = []) is the all-fresh hypothesis above *)
Theorem C11_table_independent : forall table,
  copy_violations table = [] ->
  forallb (fun b : bool => b) (treatments table) = true.
Proof. exact C11_table_independent_proof. Qed.
Print Assumptions C11_table_independent.

(* REFUTED without the all-fresh hypothesis: with one field not treated fresh
   a write through the copy changes what the original observes *)
Theorem C11_alias_refuted :
  exists (fresh : list bool) (h : heap) (s : list loc) (ws : list wop),
    wf_sol h s /\ length fresh = length s /\
    forallb (fun b : bool => b) fresh = false /\
    let '(h', c) := copy_fields fresh h s in
    obs (apply_ws c h' ws) s <> obs h s.
Proof. exact C11_alias_refuted_proof. Qed.
Print Assumptions C11_alias_refuted.
