(* C12: one random stream shared by the order-generator goroutine (producer)
   and the search loop (consumer); model: NR.Model.RandShare.
   Proofs are in NR.Proofs.RandShare_proofs; this file only states the
   theorems.  A phase is (d, c): the producer draws d numbers and the consumer
   c numbers between two hand-overs; a schedule is an interleaving. *)

From Coq Require Import List Bool Arith ZArith Permutation.
From NR Require Import Model.RandShare Proofs.RandShare_proofs.
Import ListNotations.

(* whatever the schedule, a phase consumes exactly the positions
   pos .. pos+d+c-1 and hands each of them to exactly one of the two parties *)
Theorem C12_phase_positions : forall st pos d c sched,
  let '(p, q, e) := run_phase st pos d c sched in
  e = pos + d + c /\ length p = d /\ length q = c /\
  Permutation (p ++ q) (map st (seq pos (d + c))).
Proof. exact C12_phase_positions_proof. Qed.
Print Assumptions C12_phase_positions.

(* a phase in which only one party draws does not depend on the schedule *)
Theorem C12_exclusive_phase_deterministic : forall st pos d c sched1 sched2,
  d = 0 \/ c = 0 ->
  run_phase st pos d c sched1 = run_phase st pos d c sched2.
Proof. exact C12_exclusive_phase_deterministic_proof. Qed.
Print Assumptions C12_exclusive_phase_deterministic.

(* if every phase is exclusive (single-stop units, units with exactly one
   allowed order: the producer draws nothing after a hand-over) the whole run
   is schedule independent *)
Theorem C12_deterministic : forall st pos phases scheds1 scheds2,
  forallb phase_exclusive phases = true ->
  run_phases st pos phases scheds1 = run_phases st pos phases scheds2.
Proof. exact C12_deterministic_proof. Qed.
Print Assumptions C12_deterministic.

(* REFUTED in general: with a phase in which both parties draw, what the
   consumer observes depends on the schedule (concrete witness) *)
Theorem C12_shared_stream_refuted :
  exists (st : stream) (phases : list (nat * nat)) (scheds1 scheds2 : list (list bool)),
    (exists d c, In (d, c) phases /\ d >= 1 /\ c >= 1) /\
    snd (fst (run_phases st 0 phases scheds1)) <> snd (fst (run_phases st 0 phases scheds2)).
Proof. exact C12_shared_stream_refuted_proof. Qed.
Print Assumptions C12_shared_stream_refuted.

(* ... and this is so for every injective stream and every phase in which
   both parties draw at least once *)
Theorem C12_shared_stream_any_phase : forall (st : stream),
  (forall i j, st i = st j -> i = j) ->
  forall pos d c, 1 <= d -> 1 <= c ->
  exists sched1 sched2,
    snd (fst (run_phase st pos d c sched1)) <> snd (fst (run_phase st pos d c sched2)).
Proof. exact C12_shared_stream_any_phase_proof. Qed.
Print Assumptions C12_shared_stream_any_phase.
