(* C04: the cached schedule of every route (arrival, start, end, cumulative
   travel, ...) is the forward recomputation from the vehicle's start over the
   route's stop sequence, whatever the history of moves that produced it.

   Model: NR.Model.Engine; proofs: NR.Proofs.Engine_inv, NR.Proofs.Engine_spec.
   This file only states the theorems.

   [reachable inp s]: s is met while executing a fresh history (every
   operation well formed for the state it is executed on) from the start
   solution -- see C04_reachable_unfold.
   Scope: JSON-schema inputs with stops units (Model/Engine.v header).
   Duration groups and per-vehicle stop duration multipliers are in the model:
   the time vehicle v spends at a stop is [stop_duration_on inp v from to] =
   the scaled own duration of the stop plus the scaled duration of its group
   when the predecessor [from] on the route is not in that group; scaled d =
   floor (d * num / den) for the vehicle's multiplier num/den, each part
   truncated separately, and d itself when the multipliers are disabled
   ([scale_duration]; C04_forward_walk, C04_duration_groups_example,
   C04_multiplier_example).  [stop_duration_at inp from to] is the unscaled
   time (multiplier 1).
   [wf_input inp] also says that every member of a duration group is an
   input stop (never a vehicle's first / last stop) and that every vehicle's
   multiplier has a positive denominator and a non-negative numerator. *)

From Coq Require Import List ZArith.
From NR Require Import Model.Engine Proofs.Engine_inv Proofs.Engine_spec.
Import ListNotations.
Open Scope Z_scope.

Theorem C04_reachable_unfold : forall inp s,
  reachable inp s <->
  exists s0 h, new_solution inp = Some s0 /\ fresh inp s0 h /\ In s (run inp s0 h).
Proof. exact reachable_unfold_proof. Qed.
Print Assumptions C04_reachable_unfold.

(* every cached route equals its recomputation from scratch *)
Theorem C04_caches_are_from_scratch : forall inp s v,
  wf_input inp -> reachable inp s -> (v < nveh inp)%nat ->
  get_route s v = from_scratch inp v (route_stops (get_route s v)).
Proof. exact C04_caches_are_from_scratch_proof. Qed.
Print Assumptions C04_caches_are_from_scratch.

(* two states (of possibly different histories) with the same stop sequences
   have the same cells *)
Theorem C04_history_independent : forall inp s1 s2,
  wf_input inp -> reachable inp s1 -> reachable inp s2 ->
  map route_stops (st_routes s1) = map route_stops (st_routes s2) ->
  st_routes s1 = st_routes s2.
Proof. exact C04_history_independent_proof. Qed.
Print Assumptions C04_history_independent.

(* the forward walk: the first cell is the vehicle's start; each further cell
   follows from the one before it *)
Theorem C04_forward_walk : forall inp s v,
  wf_input inp -> reachable inp s -> (v < nveh inp)%nat ->
  hd_error (get_route s v) = Some (first_cell inp v) /\
  forall pre p c post, get_route s v = pre ++ p :: c :: post ->
    c_travel c = travel_duration inp (c_stop p) (c_stop c) /\
    c_arrival c = c_end p + c_travel c /\
    c_start c = Z.max (c_arrival c)
                      (to_earliest_start (stop_windows inp (c_stop c)) (c_arrival c)) /\
    c_end c = c_start c + stop_duration_on inp v (c_stop p) (c_stop c) /\
    c_cumtravel c = c_cumtravel p + c_travel c /\
    c_cumdist c = c_cumdist p + distance_value inp v (c_stop p) (c_stop c) /\
    c_pos c = S (c_pos p) /\
    (forall r, (r < in_nres inp)%nat ->
       nthZ (c_levels c) r = nthZ (c_levels p) r + resource_value inp v r (c_stop c)) /\
    c_wait_acc c = c_wait_acc p +
                   (if is_last_stop inp (c_stop c) then 0 else c_start c - c_arrival c).
Proof. exact C04_forward_walk_proof. Qed.
Print Assumptions C04_forward_walk.

(* waiting is window waiting.  [input_windows_ok inp]: the start time windows
   of every stop are sorted, disjoint, minute aligned, non-empty and after the
   epoch (the window lookup of common/rangecheck.go works on minute slots).
   A vehicle waits only when it arrives outside every window and before the
   last close, and then service starts at the opening of the next window. *)
Theorem C04_waiting_is_window_wait : forall inp s v c,
  wf_input inp -> reachable inp s -> input_windows_ok inp ->
  (v < nveh inp)%nat -> In c (tl (get_route s v)) ->
  let ws := stop_windows inp (c_stop c) in
  c_arrival c <= c_start c /\
  (c_arrival c < c_start c ->
     ~ in_some_window ws (c_arrival c) /\ c_arrival c < last_max ws /\
     next_opening ws (c_arrival c) (c_start c)) /\
  (ws = [] \/ in_some_window ws (c_arrival c) \/ last_max ws <= c_arrival c ->
     c_start c = c_arrival c).
Proof. exact C04_waiting_is_window_wait_proof. Qed.
Print Assumptions C04_waiting_is_window_wait.

(* duration groups, non-vacuity (dgx_inp, dgx_s1 in Proofs/Engine_spec.v):
   stops 0 1 2 3 with own durations 10 20 5 30, the group {0, 1, 3} of 300 s,
   60 s of travel between different stops, planned by one move in the order
   0 1 2 3.  Stops 0 and 1 are consecutive stops of the group: the group
   duration is paid once (at stop 0, reached from the vehicle's first stop);
   stop 3 is reached from stop 2, outside the group, and pays it again.  With
   the groups disabled (dgx_off_inp) only the own durations remain. *)
Theorem C04_duration_groups_example :
  wf_input dgx_inp /\ reachable dgx_inp dgx_s1 /\
  in_dgroups dgx_inp = [([0; 1; 3]%nat, 300)] /\
  route_stops (get_route dgx_s1 0) = [4; 0; 1; 2; 3; 5]%nat /\
  map (fun c => c_end c - c_start c) (get_route dgx_s1 0) = [0; 10 + 300; 20; 5; 30 + 300; 0] /\
  stop_duration_on dgx_inp 0 4 0 = stop_duration dgx_inp 0 + 300 /\
  stop_duration_on dgx_inp 0 0 1 = stop_duration dgx_inp 1 /\
  stop_duration_on dgx_inp 0 1 2 = stop_duration dgx_inp 2 /\
  stop_duration_on dgx_inp 0 2 3 = stop_duration dgx_inp 3 + 300 /\
  map c_arrival (get_route dgx_s1 0) = [0; 60; 430; 510; 575; 965] /\
  map c_end (get_route dgx_s1 0) = [0; 370; 450; 515; 905; 965] /\
  map (fun c => c_end c - c_start c) (from_scratch dgx_off_inp 0 [4; 0; 1; 2; 3; 5]%nat)
  = [0; 10; 20; 5; 30; 0].
Proof. exact C04_duration_groups_example_proof. Qed.
Print Assumptions C04_duration_groups_example.

(* stop duration multipliers, non-vacuity (mx_inp, mx_s1 in
   Proofs/Engine_spec.v): one vehicle with multiplier 3/2; stop 0 has own
   duration 7 and is the member of a duration group of 5 s; it is planned behind
   the vehicle's first stop (outside the group).  The own duration and the
   group duration are scaled and truncated separately:
   floor (7 * 3 / 2) + floor (5 * 3 / 2) = 10 + 7 = 17, not
   floor (12 * 3 / 2) = 18.  With the multipliers disabled (mx_off_inp): 12. *)
Theorem C04_multiplier_example :
  wf_input mx_inp /\ reachable mx_inp mx_s1 /\
  (iv_mult_num (get_vehicle mx_inp 0), iv_mult_den (get_vehicle mx_inp 0)) = (3, 2) /\
  stop_duration mx_inp 0 = 7 /\ in_dgroups mx_inp = [([0%nat], 5)] /\
  route_stops (get_route mx_s1 0) = [2; 0; 3]%nat /\
  map (fun c => c_end c - c_start c) (get_route mx_s1 0) = [0; 17; 0] /\
  stop_duration_on mx_inp 0 2 0 = 10 + 7 /\
  scale_duration mx_inp 0 7 = 10 /\ scale_duration mx_inp 0 5 = 7 /\
  scale_duration mx_inp 0 (7 + 5) = 18 /\
  stop_duration_at mx_inp 2 0 = 12 /\
  map c_arrival (get_route mx_s1 0) = [0; 60; 137] /\
  map c_end (get_route mx_s1 0) = [0; 77; 137] /\
  wf_input mx_off_inp /\ reachable mx_off_inp mx_off_s1 /\
  o_dis_multipliers (in_opts mx_off_inp) = true /\
  route_stops (get_route mx_off_s1 0) = [2; 0; 3]%nat /\
  map (fun c => c_end c - c_start c) (get_route mx_off_s1 0) = [0; 12; 0] /\
  stop_duration_on mx_off_inp 0 2 0 = 12.
Proof. exact C04_multiplier_example_proof. Qed.
Print Assumptions C04_multiplier_example.
