(* C05: the objective value of every reachable state is the recomputation of
   every installed term from the routes, and the total is their sum; the
   unplanned penalty is exactly that of the units that are not on routes; the
   value does not depend on the history.

   Model: NR.Model.Engine; proofs: NR.Proofs.Engine_inv, NR.Proofs.Engine_spec.
   This file only states the theorems.
   [reachable inp s]: see Props/C04.v (C04_reachable_unfold).
   Scope: stops units (for alternates the code keeps the parent unit in the
   unplanned collection: known finding, not in this model). *)

From Coq Require Import List ZArith Permutation.
From NR Require Import Model.Engine Proofs.Engine_inv Proofs.Engine_spec.
Import ListNotations.
Open Scope Z_scope.

Theorem C05_total_is_sum : forall inp s,
  wf_input inp -> reachable inp s -> st_total s = sumZ (st_scores s).
Proof. exact C05_total_is_sum_proof. Qed.
Print Assumptions C05_total_is_sum.

Theorem C05_terms_are_recomputation : forall inp s,
  wf_input inp -> reachable inp s -> st_scores s = score_terms inp s.
Proof. exact C05_terms_are_recomputation_proof. Qed.
Print Assumptions C05_terms_are_recomputation.

(* the unplanned collection is, up to order, the list of units that are not
   completely on routes, and the penalty charged is theirs *)
Theorem C05_unplanned_is_routes_based : forall inp s,
  wf_input inp -> reachable inp s ->
  Permutation (st_unplanned s)
              (filter (fun u => negb (unit_planned inp s u)) (seqn (nunits inp))) /\
  obj_unplanned inp s
  = sumZ (map (unit_penalty inp)
              (filter (fun u => negb (unit_planned inp s u)) (seqn (nunits inp)))).
Proof. exact C05_unplanned_is_routes_based_proof. Qed.
Print Assumptions C05_unplanned_is_routes_based.

Theorem C05_history_independent : forall inp s1 s2,
  wf_input inp -> reachable inp s1 -> reachable inp s2 ->
  map route_stops (st_routes s1) = map route_stops (st_routes s2) ->
  st_scores s1 = st_scores s2 /\ st_total s1 = st_total s2.
Proof. exact C05_history_independent_proof. Qed.
Print Assumptions C05_history_independent.
