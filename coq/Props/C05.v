(* C05: the objective value of every reachable state is the recomputation of
   every installed term from the routes, and the total is their sum; the
   unplanned penalty is exactly that of the units that are not on routes; the
   value does not depend on the history.

   Model: NR.Model.Engine; proofs: NR.Proofs.Engine_inv, NR.Proofs.Engine_spec.
   This file only states the theorems.
   [reachable inp s]: see Props/C04.v (C04_reachable_unfold).
   Scope: stops units (for alternates the code keeps the parent unit in the
   unplanned collection: known finding, not in this model). *)

From Coq Require Import List ZArith Permutation.
From NR Require Import Model.Engine Proofs.Engine_inv Proofs.Engine_spec.
Import ListNotations.
Open Scope Z_scope.

Theorem C05_total_is_sum : forall inp s,
  wf_input inp -> reachable inp s -> st_total s = sumZ (st_scores s).
Proof. exact C05_total_is_sum_proof. Qed.
Print Assumptions C05_total_is_sum.

Theorem C05_terms_are_recomputation : forall inp s,
  wf_input inp -> reachable inp s -> st_scores s = score_terms inp s.
Proof. exact C05_terms_are_recomputation_proof. Qed.
Print Assumptions C05_terms_are_recomputation.

(* the unplanned collection is, up to order, the list of units that are not
   completely on routes, and the penalty charged is theirs *)
Theorem C05_unplanned_is_routes_based : forall inp s,
  wf_input inp -> reachable inp s ->
  Permutation (st_unplanned s)
              (filter (fun u => negb (unit_planned inp s u)) (seqn (nunits inp))) /\
  obj_unplanned inp s
  = sumZ (map (unit_penalty inp)
              (filter (fun u => negb (unit_planned inp s u)) (seqn (nunits inp)))).
Proof. exact C05_unplanned_is_routes_based_proof. Qed.
Print Assumptions C05_unplanned_is_routes_based.

Theorem C05_history_independent : forall inp s1 s2,
  wf_input inp -> reachable inp s1 -> reachable inp s2 ->
  map route_stops (st_routes s1) = map route_stops (st_routes s2) ->
  st_scores s1 = st_scores s2 /\ st_total s1 = st_total s2.
Proof. exact C05_history_independent_proof. Qed.
Print Assumptions C05_history_independent.

(* early arrival, late arrival, min stops, stop balance: non-vacuity (mt_inp,
   mt_s2 in Proofs/Engine_spec.v).  Stops 0 and 1 with own duration 10; stop 0
   has target arrival 500, stop 1 target arrival 100, both early penalty 2 and
   late penalty 3.  Two vehicles with activation penalty 1000, min_stops 3 and
   min_stops penalty 10; 60 s of travel between different stops.  Factors:
   activation 1, travel 1, vehicles duration 1, unplanned 1, early 2, late 3,
   min stops 5, stop balance 7.  Two moves put stops 0 and 1 on vehicle 0,
   vehicle 1 stays empty.  Stop 0 is reached 440 s early, stop 1 30 s late;
   vehicle 0 misses one stop of its minimum, the empty vehicle 1 costs
   nothing; the largest vehicle has two stops.  The eight terms in factory
   order: activation, travel duration, vehicles duration, unplanned, early
   arrival, late arrival, min stops, stop balance. *)
Theorem C05_more_terms_example :
  wf_input mt_inp /\ reachable mt_inp mt_s2 /\
  map route_stops (st_routes mt_s2) = [[2; 0; 1; 3]; [4; 5]]%nat /\
  map c_arrival (get_route mt_s2 0) = [0; 60; 130; 200] /\
  stop_target mt_inp 0 = Some 500 /\ stop_target mt_inp 1 = Some 100 /\
  obj_early mt_inp mt_s2 = 2 * (500 - 60) /\
  obj_late mt_inp mt_s2 = 3 * (130 - 100) /\
  obj_min_stops mt_inp mt_s2 = 10 * (3 - 2) * (3 - 2) /\
  obj_stop_balance mt_inp mt_s2 = 2 /\
  score_terms mt_inp mt_s2 = [1000; 240; 260; 0; 1760; 270; 50; 14] /\
  st_scores mt_s2 = [1000; 240; 260; 0; 1760; 270; 50; 14] /\
  st_total mt_s2 = 3594.
Proof. exact C05_more_terms_example_proof. Qed.
Print Assumptions C05_more_terms_example.

(* Capacity excess as an objective (objectives.capacities with the capacity
   constraint switched off) is a term like the others: C05_total_is_sum,
   C05_terms_are_recomputation and C05_history_independent above hold for every
   input, this one included.  Non-vacuity: stop 0 picks up 3, stop 1 drops 1, one
   vehicle of capacity 1; on the route start, 0, 1, end the levels are 0, 3, 2, 2
   and the excess counts at every position - the vehicle's last stop included -
   plus the offset once; factor 10. *)
Theorem C05_capacity_objective_example :
  wf_input co_inp /\ reachable co_inp co_s2 /\
  map route_stops (st_routes co_s2) = [[2; 0; 1; 3]]%nat /\
  map (fun c => nthZ (c_levels c) 0) (get_route co_s2 0) = [0; 3; 2; 2] /\
  has_capacity co_inp = false /\ cap_has_neg co_inp 0 = true /\
  obj_capacity_excess co_inp co_s2 0 5 = (0 + 2 + 1 + 1) + 5 /\
  score_terms co_inp co_s2 = [180; 0; 90] /\
  st_scores co_s2 = [180; 0; 90] /\ st_total co_s2 = 270 /\
  obj_capacity_excess co_inp co_s1 0 5 = (0 + 2 + 2) + 5.
Proof. exact C05_capacity_objective_example_proof. Qed.
Print Assumptions C05_capacity_objective_example.
