(* The SkipVehicle hint of the constraint estimates is never wrong
   (Model/Hints.v, Model/Estimates.v).  Statements only; the proofs are in
   Proofs/Hints_proofs.v.

   C10 (best-move search considers every allowed insertion): the searches
   give a vehicle up on a SkipVehicle hint.  Props/C10.v proves the
   single-stop search complete and minimal under the HYPOTHESIS that the hint
   is sound; here that hypothesis is proved for the modelled estimates, for
   every state, unit, vehicle and placement, and whatever the order in which
   the constraints are installed. *)

From Coq Require Import List ZArith Bool Arith Permutation Sorted.
Import ListNotations.
From NR.Model Require Import Engine Estimates Search Hints.
From NR.Proofs Require Import Hints_proofs.
Open Scope Z_scope.

(* ---- 1. per estimate -------------------------------------------------- *)

(* a hint is only given together with "violated" *)
Theorem HINT_capacity_only_when_violated : forall inp s mv r,
  hint_capacity inp s mv r = true -> est_capacity inp s mv r = true.
Proof. exact hint_capacity_only_when_violated. Qed.
Print Assumptions HINT_capacity_only_when_violated.

(* and then every placement of that unit on that vehicle is violated *)
Theorem HINT_capacity_sound : forall inp s mv mv' r,
  mv_unit mv' = mv_unit mv -> mv_vehicle mv' = mv_vehicle mv ->
  hint_capacity inp s mv r = true -> est_capacity inp s mv' r = true.
Proof. exact hint_capacity_sound. Qed.
Print Assumptions HINT_capacity_sound.

Theorem HINT_attributes_sound : forall inp s mv mv',
  mv_unit mv' = mv_unit mv -> mv_vehicle mv' = mv_vehicle mv ->
  est_attributes inp s mv = true -> est_attributes inp s mv' = true.
Proof. exact hint_attributes_sound. Qed.
Print Assumptions HINT_attributes_sound.

Theorem HINT_max_stops_sound : forall inp s mv mv',
  mv_vehicle mv' = mv_vehicle mv -> length (mv_places mv') = length (mv_places mv) ->
  est_max_stops inp s mv = true -> est_max_stops inp s mv' = true.
Proof. exact hint_max_stops_sound. Qed.
Print Assumptions HINT_max_stops_sound.

(* the distance limit must NOT hint: a placement over the limit and another
   one of the same stop on the same vehicle within it *)
Theorem HINT_distance_would_be_wrong : exists inp s mv mv',
  same_target mv mv' /\
  has_distance_limit inp = true /\
  est_distance inp s mv = true /\ est_distance inp s mv' = false /\
  estimate_violated inp s mv' = false.
Proof. exact hint_distance_would_be_wrong. Qed.
Print Assumptions HINT_distance_would_be_wrong.

(* ---- 2. what the searches see ----------------------------------------- *)

(* checkConstraints in any installed order: feasible iff no estimate objects *)
Theorem HINT_first_violated_none : forall inp s mv l,
  Permutation l (estimates_with_hints inp s mv) ->
  (first_violated_hint l = None <-> estimate_violated inp s mv = false).
Proof. exact first_violated_none. Qed.
Print Assumptions HINT_first_violated_none.

(* the hint handed back says SkipVehicle: no placement of the unit on the
   vehicle passes the estimates *)
Theorem HINT_skip_vehicle_sound : forall inp s mv mv' l,
  Permutation l (estimates_with_hints inp s mv) ->
  first_violated_hint l = Some true ->
  same_target mv mv' ->
  estimate_violated inp s mv' = true.
Proof. exact skip_vehicle_sound. Qed.
Print Assumptions HINT_skip_vehicle_sound.

(* ---- 3. the single-stop search without the hypothesis ------------------ *)

(* [order mv] : the constraints in the order they are installed - any
   permutation, possibly a different one for every move *)
Theorem HINT_single_stop_executable_iff :
  forall inp s u v x m (order : move -> list (cname * bool * bool))
         (cost : nat -> Z) (coins : list bool) (sorted_by_cost : list nat -> list nat),
  (forall l, Permutation (sorted_by_cost l) l /\
             Sorted (fun a b => (cost a <= cost b)%Z) (sorted_by_cost l)) ->
  (forall g, Permutation (order (single_move u v x g)) (estimates_with_hints inp s (single_move u v x g))) ->
  let allowed := fun g => negb (estimate_violated inp s (single_move u v x g)) in
  let skip := fun g => match first_violated_hint (order (single_move u v x g)) with
                       | Some true => true | _ => false end in
  best_single_stop m allowed skip cost coins sorted_by_cost <> None <->
  exists g, (1 <= g <= m)%nat /\ allowed g = true.
Proof. exact hint_single_stop_executable_iff. Qed.
Print Assumptions HINT_single_stop_executable_iff.

Theorem HINT_single_stop_minimal :
  forall inp s u v x m (order : move -> list (cname * bool * bool))
         (cost : nat -> Z) (coins : list bool) (sorted_by_cost : list nat -> list nat),
  (forall l, Permutation (sorted_by_cost l) l /\
             Sorted (fun a b => (cost a <= cost b)%Z) (sorted_by_cost l)) ->
  (forall g, Permutation (order (single_move u v x g)) (estimates_with_hints inp s (single_move u v x g))) ->
  let allowed := fun g => negb (estimate_violated inp s (single_move u v x g)) in
  let skip := fun g => match first_violated_hint (order (single_move u v x g)) with
                       | Some true => true | _ => false end in
  forall g, best_single_stop m allowed skip cost coins sorted_by_cost = Some g ->
  allowed g = true /\ (1 <= g <= m)%nat /\
  forall g', (1 <= g' <= m)%nat -> allowed g' = true -> (cost g <= cost g')%Z.
Proof. exact hint_single_stop_minimal. Qed.
Print Assumptions HINT_single_stop_minimal.

(* a wrong hint loses moves: with an estimate that hinted SkipVehicle where
   the distance limit is violated, the search of the example of section 1 gives
   the vehicle up although a placement is allowed *)
Theorem HINT_wrong_hint_loses_moves :
  exists (m : nat) (allowed skip : nat -> bool) (cost : nat -> Z),
    (exists g, (1 <= g <= m)%nat /\ allowed g = true) /\
    best_single_stop m allowed skip cost [] (fun l => l) = None.
Proof. exact hint_wrong_hint_loses_moves. Qed.
Print Assumptions HINT_wrong_hint_loses_moves.
