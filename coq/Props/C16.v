(* C16: the modelled core never indexes out of range.

   Model: NR.Model.Engine.  Its lookups are total functions with explicit
   defaults ([mat], [get_vehicle], [get_stop], [get_unit], [get_route], [nthZ]
   on the cached levels); the theorems say that on reachable states those
   defaults are never used: every index is inside its list / matrix.
   Proofs: NR.Proofs.C16_proofs.  This file only states the theorems.
   [reachable inp s]: see Props/C04.v.
   [dims_ok inp] (NR.Proofs.C16_proofs, unfolded by C16_dims_ok_unfold): both
   matrices are square of size [nstops inp + 2 * nveh inp]; every unit's stops
   are input stops.

   Scope: the decoding / validation glue of the factory (JSON to model, index
   arithmetic over stop ids, matrix shape validation) is outside the model;
   the crash stream of the check (evidence of C16) covers it. *)

From Coq Require Import List ZArith.
From NR Require Import Model.Engine Proofs.Engine_inv Proofs.Engine_spec Proofs.C16_proofs.
Import ListNotations.
Local Open Scope nat_scope.

Theorem C16_dims_ok_unfold : forall inp,
  dims_ok inp <->
  (length (in_duration inp) = nstops inp + 2 * nveh inp /\
   Forall (fun row => length row = nstops inp + 2 * nveh inp) (in_duration inp)) /\
  (length (in_distance inp) = nstops inp + 2 * nveh inp /\
   Forall (fun row => length row = nstops inp + 2 * nveh inp) (in_distance inp)) /\
  (forall u x, In u (in_units inp) -> In x (iu_stops u) -> x < nstops inp).
Proof. exact C16_dims_ok_unfold_proof. Qed.
Print Assumptions C16_dims_ok_unfold.

(* every stop on a route is a model stop; a non-input stop on vehicle v's
   route is v's own start / end stop, so the vehicle looked up for its
   location is v *)
Theorem C16_route_stops_in_range : forall inp s v x,
  wf_input inp -> reachable inp s -> v < nveh inp -> In x (route_stops (get_route s v)) ->
  x < nstops inp + 2 * nveh inp /\
  (nstops inp <= x -> vehicle_of_end inp x = v).
Proof. exact C16_route_stops_in_range_proof. Qed.
Print Assumptions C16_route_stops_in_range.

(* the duration and distance matrices are read inside their bounds for any two
   stops of a route: [mat] returns a real entry, not its default *)
Theorem C16_matrix_lookups_in_range : forall inp s v a b,
  wf_input inp -> dims_ok inp -> reachable inp s -> v < nveh inp ->
  In a (route_stops (get_route s v)) -> In b (route_stops (get_route s v)) ->
  (a < length (in_duration inp) /\ b < length (nth a (in_duration inp) []) /\
   exists row, nth_error (in_duration inp) a = Some row /\
               nth_error row b = Some (mat (in_duration inp) a b)) /\
  (a < length (in_distance inp) /\ b < length (nth a (in_distance inp) []) /\
   exists row, nth_error (in_distance inp) a = Some row /\
               nth_error row b = Some (mat (in_distance inp) a b)).
Proof. exact C16_matrix_lookups_in_range_proof. Qed.
Print Assumptions C16_matrix_lookups_in_range.

(* in particular for consecutive stops, the pairs the forward pass looks up *)
Theorem C16_consecutive_lookups : forall inp s v pre a b post,
  wf_input inp -> dims_ok inp -> reachable inp s -> v < nveh inp ->
  route_stops (get_route s v) = pre ++ a :: b :: post ->
  a < length (in_duration inp) /\ b < length (nth a (in_duration inp) []) /\
  a < length (in_distance inp) /\ b < length (nth a (in_distance inp) []).
Proof. exact C16_consecutive_lookups_proof. Qed.
Print Assumptions C16_consecutive_lookups.

(* vehicles, routes, cached levels, stops and units are real elements *)
Theorem C16_list_lookups_in_range : forall inp s,
  wf_input inp -> reachable inp s ->
  (forall v, v < nveh inp ->
     nth_error (in_vehicles inp) v = Some (get_vehicle inp v) /\
     nth_error (st_routes s) v = Some (get_route s v) /\
     get_route s v <> [] /\
     (forall c r, In c (get_route s v) -> r < in_nres inp -> r < length (c_levels c))) /\
  (forall x, In x (interior_stops s) -> nth_error (in_stops inp) x = Some (get_stop inp x)) /\
  (forall u, In u (st_planned s) \/ In u (st_unplanned s) ->
     nth_error (in_units inp) u = Some (get_unit inp u)).
Proof. exact C16_list_lookups_in_range_proof. Qed.
Print Assumptions C16_list_lookups_in_range.

(* creating the start solution is total: it answers a solution, or None, and
   None only because some empty vehicle already violates a constraint *)
Theorem C16_new_solution_total : forall inp,
  new_solution inp = None ->
  exists v k, v < nveh inp /\ empty_route inp v = None /\
    stop_violation inp v true (next_cell inp v (first_cell inp v) (last_stop inp v)) = Some k.
Proof. exact C16_new_solution_total_proof. Qed.
Print Assumptions C16_new_solution_total.

(* non-vacuity (Proofs/C16_proofs.v): the None case does occur *)
Theorem C16_example_no_start_solution :
  new_solution ex16_inp = None /\ empty_route ex16_inp 0 = None /\
  stop_violation ex16_inp 0 true (next_cell ex16_inp 0 (first_cell ex16_inp 0) (last_stop ex16_inp 0))
  = Some (KCapacity 0).
Proof. exact ex16_no_start_solution. Qed.
Print Assumptions C16_example_no_start_solution.
