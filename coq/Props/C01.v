(* C01 (part with an exact check in the engine): on every route of every
   reachable state the capacity of every resource holds after EVERY stop
   (every prefix of the route), and the distance limit holds for the route.

   The statements are in terms of the INPUT: start levels, stop quantities,
   capacities, the distance matrix -- not of cached values.
   [quantity_sum inp r l]: sum of the JSON quantities of resource r over the
   input stops of l (negative = pick up, so the level is start - sum).
   [path_sum f a l]: sum of f over the consecutive pairs of a :: l.

   NOT claimed here: max_stops and compatibility attributes have no exact
   check in the code path modelled here; they are guarded by the move
   estimates only (modelled in Model/Estimates.v; see Props/C09.v,
   C09_no_exact_check_for_max_stops_and_attributes).

   Model: NR.Model.Engine; proofs: NR.Proofs.Engine_inv, NR.Proofs.Engine_spec.
   This file only states the theorems.
   [reachable inp s]: see Props/C04.v (C04_reachable_unfold). *)

From Coq Require Import List ZArith.
From NR Require Import Model.Engine Proofs.Engine_inv Proofs.Engine_spec.
Import ListNotations.
Open Scope Z_scope.

(* after each of the first k stops following the vehicle's start, for each
   resource: 0 <= level <= capacity *)
Theorem C01_capacity_every_prefix : forall inp s v k r,
  wf_input inp -> reachable inp s -> (v < nveh inp)%nat ->
  (1 <= k < length (get_route s v))%nat ->
  has_capacity inp = true -> (r < in_nres inp)%nat ->
  0 <= start_level inp v r
       - quantity_sum inp r (firstn k (tl (route_stops (get_route s v))))
    <= capacity inp v r.
Proof. exact C01_capacity_every_prefix_proof. Qed.
Print Assumptions C01_capacity_every_prefix.

(* the distance limit, for every prefix.  The code's cumulative value starts
   with the matrix entry (first stop, first stop) -- 0 for every sane matrix,
   kept explicit here *)
Theorem C01_distance_every_prefix : forall inp s v k d,
  wf_input inp -> reachable inp s -> (v < nveh inp)%nat ->
  (1 <= k < length (get_route s v))%nat ->
  has_distance_limit inp = true -> iv_max_distance (get_vehicle inp v) = Some d ->
  0 <= travel_distance inp (first_stop inp v) (first_stop inp v)
       + path_sum (travel_distance inp) (first_stop inp v)
                  (firstn k (tl (route_stops (get_route s v))))
    <= d.
Proof. exact C01_distance_every_prefix_proof. Qed.
Print Assumptions C01_distance_every_prefix.

(* ... and for the whole route *)
Theorem C01_distance_limit : forall inp s v d,
  wf_input inp -> reachable inp s -> (v < nveh inp)%nat ->
  has_distance_limit inp = true -> iv_max_distance (get_vehicle inp v) = Some d ->
  0 <= travel_distance inp (first_stop inp v) (first_stop inp v)
       + path_sum (travel_distance inp) (first_stop inp v) (tl (route_stops (get_route s v)))
    <= d.
Proof. exact C01_distance_limit_proof. Qed.
Print Assumptions C01_distance_limit.

(* the start solution itself (empty history): NewSolution only succeeds when
   the start levels fit and the empty trips respect the distance limits *)
Theorem C01_start_solution : forall inp s0 v,
  wf_input inp -> new_solution inp = Some s0 -> (v < nveh inp)%nat ->
  route_stops (get_route s0 v) = [first_stop inp v; last_stop inp v] /\
  (has_capacity inp = true -> forall r, (r < in_nres inp)%nat ->
     0 <= start_level inp v r <= capacity inp v r) /\
  (has_distance_limit inp = true -> forall d, iv_max_distance (get_vehicle inp v) = Some d ->
     0 <= travel_distance inp (first_stop inp v) (first_stop inp v)
          + travel_distance inp (first_stop inp v) (last_stop inp v) <= d).
Proof. exact C01_start_solution_proof. Qed.
Print Assumptions C01_start_solution.
