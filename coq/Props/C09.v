(* C09: "whenever the engine offers a move as executable, executing it on the
   unchanged solution succeeds: the fast feasibility estimate that let the move
   through is never contradicted by the exact check applied afterwards".

   Models: NR.Model.Engine (exact checks, exec_move) and NR.Model.Estimates
   (the estimates, move_executable, exec_checked).  Proofs are in
   NR.Proofs.Estimates_proofs; this file only states the theorems.

   VERDICT.  The property is FALSE of the model as stated
   (C09_executable_executes_refuted): the vehicle max-wait estimate stops its
   simulation as soon as every stop of the unit is placed and the arrival at a
   planned stop is unchanged, but the exact check accumulates the waiting time
   of the inserted stops into every later stop.  Every other built-in estimate
   is sound, and the vehicle max-wait estimate is sound when travel durations
   satisfy the triangle inequality and stop durations are non-negative
   (C09_executable_executes_partial).

   Definitions used in the statements that are not part of the models (they
   are in NR.Proofs.Engine_inv / Engine_spec / Estimates_proofs):

   wf_input, reachable, move_ok     as in C01..C08 (move_ok: all stops of the
                                    unit, each once, gaps sorted and in range)
   distances_nonneg inp   := every entry of in_distance inp is >= 0
   matrices_nonneg inp    := every entry of in_duration inp is >= 0 /\ distances_nonneg inp
   stop_durations_nonneg inp := every is_duration of in_stops inp is >= 0
   durations_metric inp   := forall a b c < nstops + 2 * nveh,
                               travel_duration inp a c
                               <= travel_duration inp a b + travel_duration inp b c
   wait_vehicle_side inp  := has_max_wait_vehicle inp = false \/
                             (durations_metric inp /\ stop_durations_nonneg inp)
     (all decidable: distances_nonneg_b, stop_durations_nonneg_b,
      durations_metric_b with their _ok lemmas)
   new_cells inp s mv     := cells_from from the cached cell in front of the
                             first position over the new stop sequence behind it
                             (what propagate recomputes in exec_move)
   cl_capacity, cl_distance, cl_latest_end, cl_latest_start, cl_max_wait_stop,
   cl_max_wait_vehicle inp v c := the clause of stop_violation for that
                             constraint holds at cell c (0 <= level <= capacity
                             for every resource, 0 <= cumulative distance <=
                             limit, end <= latest end at the vehicle's last
                             stop, start <= last window end, wait <= stop max
                             wait, accumulated wait <= vehicle max wait), each
                             guarded by "the constraint is installed". *)

From Coq Require Import List ZArith Bool.
From NR Require Import Model.Engine Model.Estimates
     Proofs.Engine_inv Proofs.Engine_spec Proofs.Estimates_proofs.
Import ListNotations.
Open Scope Z_scope.

(* ---- 1. the property, under the side condition that makes it true.
   WANTED (false, see 2):
     forall inp s mv s' r, wf_input inp -> matrices_nonneg inp -> reachable inp s ->
       move_ok inp s mv -> (forall u, In u (in_user inp) -> False) ->
       move_executable inp s mv = true -> exec_checked inp s mv = (s', r) -> r = Done.
   Extra hypothesis: wait_vehicle_side inp.  Of matrices_nonneg only the
   distance part is needed (and it is needed: distances_nonneg_needed).
   User constraints are excluded: their estimate is optimistic by design. *)
Theorem C09_executable_executes_partial : forall inp s mv s' r,
  wf_input inp -> distances_nonneg inp -> reachable inp s -> move_ok inp s mv ->
  (forall u, In u (in_user inp) -> False) ->
  wait_vehicle_side inp ->
  move_executable inp s mv = true ->
  exec_checked inp s mv = (s', r) -> r = Done.
Proof. exact C09_executable_executes_partial_proof. Qed.
Print Assumptions C09_executable_executes_partial.

(* ---- 2. the refutations.  Witness (w_inp, w_s1, w_mvX in Estimates_proofs):
   stops X = 0 (window opens 3000) and Y = 1 (window opens 6600), no service
   durations, one vehicle (first stop 2, last stop 3, start time 0, max wait
   2400); travel durations first->Y 6000, first->X 600, X->Y 3000.  State: start
   solution, then Y planned (route first Y last; Y waits 600).  Move: X in front
   of Y.  X waits 2400, Y is still reached at 6000 (estimate breaks: "not
   violated"), Y's accumulated wait is 3000 > 2400 (exact check rejects). *)
Theorem C09_max_wait_vehicle_refuted :
  exists inp s mv,
    wf_input inp /\ input_windows_ok inp /\ matrices_nonneg inp /\ stop_durations_nonneg inp /\
    (forall u, In u (in_user inp) -> False) /\
    reachable inp s /\ move_ok inp s mv /\
    has_max_wait_vehicle inp = true /\ est_max_wait_vehicle inp s mv = false /\
    move_executable inp s mv = true /\
    snd (exec_checked inp s mv) = Rejected KMaxWaitVehicle /\
    same_obs (fst (exec_checked inp s mv)) s.
Proof. exact C09_max_wait_vehicle_refuted_proof. Qed.
Print Assumptions C09_max_wait_vehicle_refuted.

Theorem C09_executable_executes_refuted :
  exists inp s mv s' r,
    wf_input inp /\ matrices_nonneg inp /\ reachable inp s /\ move_ok inp s mv /\
    (forall u, In u (in_user inp) -> False) /\
    move_executable inp s mv = true /\
    exec_checked inp s mv = (s', r) /\ r = Rejected KMaxWaitVehicle.
Proof. exact C09_executable_executes_refuted_proof. Qed.
Print Assumptions C09_executable_executes_refuted.

(* ---- 3. one statement per constraint: estimate "not violated" => every new
   cell satisfies the constraint's clause of the exact check *)
Theorem C09_est_capacity_sound : forall inp s mv,
  wf_input inp -> reachable inp s -> move_ok inp s mv ->
  unit_planned inp s (mv_unit mv) = false ->
  (forall r, (r < in_nres inp)%nat -> est_capacity inp s mv r = false) ->
  Forall (cl_capacity inp (mv_vehicle mv)) (new_cells inp s mv).
Proof. exact C09_est_capacity_sound_proof. Qed.
Print Assumptions C09_est_capacity_sound.

Theorem C09_est_distance_sound : forall inp s mv,
  wf_input inp -> reachable inp s -> move_ok inp s mv ->
  distances_nonneg inp -> est_distance inp s mv = false ->
  Forall (cl_distance inp (mv_vehicle mv)) (new_cells inp s mv).
Proof. exact C09_est_distance_sound_proof. Qed.
Print Assumptions C09_est_distance_sound.

Theorem C09_est_latest_start_sound : forall inp s mv,
  est_latest_start inp s mv = false ->
  Forall (cl_latest_start inp (mv_vehicle mv)) (new_cells inp s mv).
Proof. exact C09_est_latest_start_sound_proof. Qed.
Print Assumptions C09_est_latest_start_sound.

Theorem C09_est_latest_end_sound : forall inp s mv,
  est_latest_end inp s mv = false ->
  Forall (cl_latest_end inp (mv_vehicle mv)) (new_cells inp s mv).
Proof. exact C09_est_latest_end_sound_proof. Qed.
Print Assumptions C09_est_latest_end_sound.

Theorem C09_est_max_wait_stop_sound : forall inp s mv,
  wf_input inp -> reachable inp s -> move_ok inp s mv ->
  unit_planned inp s (mv_unit mv) = false ->
  est_max_wait_stop inp s mv = false ->
  Forall (cl_max_wait_stop inp (mv_vehicle mv)) (new_cells inp s mv).
Proof. exact C09_est_max_wait_stop_sound_proof. Qed.
Print Assumptions C09_est_max_wait_stop_sound.

(* WANTED without the two side conditions: false (C09_max_wait_vehicle_refuted) *)
Theorem C09_est_max_wait_vehicle_sound_partial : forall inp s mv,
  wf_input inp -> reachable inp s -> move_ok inp s mv ->
  unit_planned inp s (mv_unit mv) = false ->
  durations_metric inp -> stop_durations_nonneg inp ->
  est_max_wait_vehicle inp s mv = false ->
  Forall (cl_max_wait_vehicle inp (mv_vehicle mv)) (new_cells inp s mv).
Proof. exact C09_est_max_wait_vehicle_sound_partial_proof. Qed.
Print Assumptions C09_est_max_wait_vehicle_sound_partial.

(* est_max_stops and est_attributes have no exact counterpart: without user
   constraints the exact check of a cell IS the six clauses above *)
Theorem C09_no_exact_check_for_max_stops_and_attributes : forall inp v c,
  in_user inp = [] ->
  (stop_violation inp v true c = None <->
   cl_capacity inp v c /\ cl_distance inp v c /\ cl_latest_end inp v c /\
   cl_latest_start inp v c /\ cl_max_wait_stop inp v c /\ cl_max_wait_vehicle inp v c).
Proof. exact C09_no_exact_check_for_max_stops_and_attributes_proof. Qed.
Print Assumptions C09_no_exact_check_for_max_stops_and_attributes.

(* all estimates together *)
Theorem C09_new_cells_pass : forall inp s mv,
  wf_input inp -> reachable inp s -> move_ok inp s mv ->
  unit_planned inp s (mv_unit mv) = false ->
  (forall u, In u (in_user inp) -> False) -> distances_nonneg inp -> wait_vehicle_side inp ->
  estimate_violated inp s mv = false ->
  Forall (fun c => stop_violation inp (mv_vehicle mv) true c = None) (new_cells inp s mv).
Proof. exact C09_new_cells_pass_proof. Qed.
Print Assumptions C09_new_cells_pass.

(* ---- 4. the gate itself *)
Theorem C09_not_executable_not_executed : forall inp s mv,
  move_executable inp s mv = false -> exec_checked inp s mv = (s, NotExecutable).
Proof. exact C09_not_executable_not_executed_proof. Qed.
Print Assumptions C09_not_executable_not_executed.

Theorem C09_done_was_executable : forall inp s mv s',
  exec_checked inp s mv = (s', Done) ->
  move_executable inp s mv = true /\ exec_move inp s mv = (s', Done).
Proof. exact C09_done_was_executable_proof. Qed.
Print Assumptions C09_done_was_executable.

(* ---- 5. the side conditions are checkable *)
Theorem C09_side_conditions_decidable : forall inp,
  (distances_nonneg_b inp = true -> distances_nonneg inp) /\
  (stop_durations_nonneg_b inp = true -> stop_durations_nonneg inp) /\
  (durations_metric_b inp = true -> durations_metric inp).
Proof.
  exact (fun inp => conj (distances_nonneg_b_ok inp)
                         (conj (stop_durations_nonneg_b_ok inp) (durations_metric_b_ok inp))).
Qed.
Print Assumptions C09_side_conditions_decidable.
