(* C09: "whenever the engine offers a move as executable, executing it on the
   unchanged solution succeeds: the fast feasibility estimate that let the move
   through is never contradicted by the exact check applied afterwards".

   Models: NR.Model.Engine (exact checks, exec_move) and NR.Model.Estimates
   (the estimates, move_executable, exec_checked).  Proofs are in
   NR.Proofs.Estimates_proofs; this file only states the theorems.

   VERDICT.  For the code as it is now the property HOLDS
   (C09_executable_executes), for inputs without user constraints and without
   negative distances; duration groups need no side condition.
   It was FALSE before the repair of the duration-group defect
   (C09_duration_groups_refuted, C09_duration_groups_refuted_vehicle): both
   max-wait estimates stopped their simulation at the first planned stop behind
   the insertion whose ARRIVAL is unchanged, but with duration groups the time
   spent AT that stop depends on the stop in front of it (the group duration
   is paid again when the predecessor is not in the group), so everything
   behind it may move although the arrival did not.  The witness replayed on
   the real code (move reported executable, Execute rejected it); the repair
   makes the break additionally require that the END of that planned stop is
   unchanged, Model/Estimates.v models the repaired estimates (sim_wait with
   check_end = true) and keeps the old ones as est_max_wait_*_arrival_only
   (check_end = false).  On the witnesses the repaired estimates answer
   "violated" (C09_duration_groups_repaired_rejects); without active groups
   the repair changes nothing (C09_check_end_equivalent_without_groups).
   It was also FALSE before the fix of the vehicle max-wait
   estimate (C09_prefix_executable_executes_refuted): that estimate stopped its
   simulation as soon as every stop of the unit was placed and the arrival at a
   planned stop was unchanged, but the exact check accumulates the waiting time
   of the inserted stops into every later stop.  The witness below replayed on
   the real code (move reported executable, Execute rejected it); the fix adds
   the guard "the wait accumulated in front of the stop is not larger than the
   cached one" to the break, and Model/Estimates.v models the fixed estimate.

   Stop duration multipliers (per vehicle, Model/Engine.v scale_duration /
   stop_duration_on): the temporal estimates simulate with the multiplier of
   the move's vehicle (sim_all / sim_wait take the vehicle and call the same
   temporal_values as the exact check), so no statement of this file changes.
   The side conditions stop_durations_nonneg / dgroups_nonneg of the partial
   statements speak about the UNSCALED input durations and stay sufficient:
   wf_input says that every multiplier num/den has den > 0 and num >= 0, hence
   scaled values of non-negative durations are non-negative
   (Engine_inv.scale_duration_nonneg); the triangle inequality of the group
   part survives the separate truncation because the same group duration is
   scaled on both sides (Estimates_proofs.dgroup_extra_cases,
   scaled_extra_triangle).  At the early break "equal arrival and equal end"
   gives equal SCALED group parts (nc_extra_of_end), which is all that is used.

   Definitions used in the statements that are not part of the models (they
   are in NR.Proofs.Engine_inv / Engine_spec / Estimates_proofs):

   wf_input, reachable, move_ok     as in C01..C08 (move_ok: all stops of the
                                    unit, each once, gaps sorted and in range)
   distances_nonneg inp   := every entry of in_distance inp is >= 0
   matrices_nonneg inp    := every entry of in_duration inp is >= 0 /\ distances_nonneg inp
   stop_durations_nonneg inp := every is_duration of in_stops inp is >= 0
   durations_metric inp   := forall a b c < nstops + 2 * nveh,
                               travel_duration inp a c
                               <= travel_duration inp a b + travel_duration inp b c
   dgroups_nonneg inp     := o_dis_dgroups (in_opts inp) = true \/
                             every group duration of in_dgroups inp is >= 0
   wait_vehicle_side inp  := has_max_wait_vehicle inp = false \/
                             (durations_metric inp /\ stop_durations_nonneg inp /\
                              dgroups_nonneg inp)
   dgroups_inert inp      := o_dis_dgroups (in_opts inp) = true \/
                             every group duration of in_dgroups inp is 0
                             (then dgroup_extra inp a b = 0 for all a b)
     (all decidable: distances_nonneg_b, stop_durations_nonneg_b,
      durations_metric_b, dgroups_inert_b, dgroups_nonneg_b with their _ok lemmas)
   est_max_wait_vehicle_prefix, estimate_violated_prefix, move_executable_prefix,
   exec_checked_prefix    := the vehicle max-wait estimate BEFORE the fix of its
                             guard (sim_wait true with the guard
                             [fun _ _ => true]: the code as it is now minus the
                             guard) and the gate built on it; everything else
                             as in the model
   est_max_wait_stop_arrival_only, est_max_wait_vehicle_arrival_only,
   estimate_violated_arrival_only, move_executable_arrival_only,
   exec_checked_arrival_only  (these ARE in Model/Estimates.v) := the max-wait
                             estimates BEFORE the repair of the duration-group
                             defect (sim_wait false: the break compares the
                             arrival only) and the gate built on them
   new_cells inp s mv     := cells_from from the cached cell in front of the
                             first position over the new stop sequence behind it
                             (what propagate recomputes in exec_move)
   cl_capacity, cl_distance, cl_latest_end, cl_latest_start, cl_max_wait_stop,
   cl_max_wait_vehicle inp v c := the clause of stop_violation for that
                             constraint holds at cell c (0 <= level <= capacity
                             for every resource, 0 <= cumulative distance <=
                             limit, end <= latest end at the vehicle's last
                             stop, start <= last window end, wait <= stop max
                             wait, accumulated wait <= vehicle max wait), each
                             guarded by "the constraint is installed". *)

From Coq Require Import List ZArith Bool.
From NR Require Import Model.Engine Model.Estimates
     Proofs.Engine_inv Proofs.Engine_spec Proofs.Estimates_proofs.
Import ListNotations.
Open Scope Z_scope.

(* ---- 1. the property, full strength, for the code as it is now.
   Of "matrices non-negative" only the distance part is needed (and it is
   needed in the model: Estimates_proofs.distances_nonneg_needed; the code
   takes another branch for expressions with negative values, which the model
   does not cover).  User constraints are excluded: their estimate is
   optimistic by design. *)
Theorem C09_executable_executes : forall inp s mv s' r,
  wf_input inp -> distances_nonneg inp -> reachable inp s -> move_ok inp s mv ->
  (forall u, In u (in_user inp) -> False) ->
  move_executable inp s mv = true ->
  exec_checked inp s mv = (s', r) -> r = Done.
Proof. exact C09_executable_executes_proof. Qed.
Print Assumptions C09_executable_executes.

(* ---- 2. one statement per constraint: estimate "not violated" => every new
   cell satisfies the constraint's clause of the exact check *)
Theorem C09_est_capacity_sound : forall inp s mv,
  wf_input inp -> reachable inp s -> move_ok inp s mv ->
  unit_planned inp s (mv_unit mv) = false ->
  (forall r, (r < in_nres inp)%nat -> est_capacity inp s mv r = false) ->
  Forall (cl_capacity inp (mv_vehicle mv)) (new_cells inp s mv).
Proof. exact C09_est_capacity_sound_proof. Qed.
Print Assumptions C09_est_capacity_sound.

Theorem C09_est_distance_sound : forall inp s mv,
  wf_input inp -> reachable inp s -> move_ok inp s mv ->
  distances_nonneg inp -> est_distance inp s mv = false ->
  Forall (cl_distance inp (mv_vehicle mv)) (new_cells inp s mv).
Proof. exact C09_est_distance_sound_proof. Qed.
Print Assumptions C09_est_distance_sound.

Theorem C09_est_latest_start_sound : forall inp s mv,
  est_latest_start inp s mv = false ->
  Forall (cl_latest_start inp (mv_vehicle mv)) (new_cells inp s mv).
Proof. exact C09_est_latest_start_sound_proof. Qed.
Print Assumptions C09_est_latest_start_sound.

Theorem C09_est_latest_end_sound : forall inp s mv,
  est_latest_end inp s mv = false ->
  Forall (cl_latest_end inp (mv_vehicle mv)) (new_cells inp s mv).
Proof. exact C09_est_latest_end_sound_proof. Qed.
Print Assumptions C09_est_latest_end_sound.

Theorem C09_est_max_wait_stop_sound : forall inp s mv,
  wf_input inp -> reachable inp s -> move_ok inp s mv ->
  unit_planned inp s (mv_unit mv) = false ->
  est_max_wait_stop inp s mv = false ->
  Forall (cl_max_wait_stop inp (mv_vehicle mv)) (new_cells inp s mv).
Proof. exact C09_est_max_wait_stop_sound_proof. Qed.
Print Assumptions C09_est_max_wait_stop_sound.

(* the fixed estimate: no side condition on the travel / stop / group durations *)
Theorem C09_est_max_wait_vehicle_sound : forall inp s mv,
  wf_input inp -> reachable inp s -> move_ok inp s mv ->
  unit_planned inp s (mv_unit mv) = false ->
  est_max_wait_vehicle inp s mv = false ->
  Forall (cl_max_wait_vehicle inp (mv_vehicle mv)) (new_cells inp s mv).
Proof. exact C09_est_max_wait_vehicle_sound_proof. Qed.
Print Assumptions C09_est_max_wait_vehicle_sound.

(* est_max_stops and est_attributes have no exact counterpart: without user
   constraints the exact check of a cell IS the six clauses above *)
Theorem C09_no_exact_check_for_max_stops_and_attributes : forall inp v c,
  in_user inp = [] ->
  (stop_violation inp v true c = None <->
   cl_capacity inp v c /\ cl_distance inp v c /\ cl_latest_end inp v c /\
   cl_latest_start inp v c /\ cl_max_wait_stop inp v c /\ cl_max_wait_vehicle inp v c).
Proof. exact C09_no_exact_check_for_max_stops_and_attributes_proof. Qed.
Print Assumptions C09_no_exact_check_for_max_stops_and_attributes.

(* all estimates together *)
Theorem C09_new_cells_pass : forall inp s mv,
  wf_input inp -> reachable inp s -> move_ok inp s mv ->
  unit_planned inp s (mv_unit mv) = false ->
  (forall u, In u (in_user inp) -> False) -> distances_nonneg inp ->
  estimate_violated inp s mv = false ->
  Forall (fun c => stop_violation inp (mv_vehicle mv) true c = None) (new_cells inp s mv).
Proof. exact C09_new_cells_pass_proof. Qed.
Print Assumptions C09_new_cells_pass.

(* ---- 3. the gate itself *)
Theorem C09_not_executable_not_executed : forall inp s mv,
  move_executable inp s mv = false -> exec_checked inp s mv = (s, NotExecutable).
Proof. exact C09_not_executable_not_executed_proof. Qed.
Print Assumptions C09_not_executable_not_executed.

Theorem C09_done_was_executable : forall inp s mv s',
  exec_checked inp s mv = (s', Done) ->
  move_executable inp s mv = true /\ exec_move inp s mv = (s', Done).
Proof. exact C09_done_was_executable_proof. Qed.
Print Assumptions C09_done_was_executable.

(* ---- 4. BEFORE THE FIX.  Witness (w_inp, w_s1, w_mvX in Estimates_proofs):
   stops X = 0 (window opens 3000) and Y = 1 (window opens 6600), no service
   durations, one vehicle (first stop 2, last stop 3, start time 0, max wait
   2400); travel durations first->Y 6000, first->X 600, X->Y 3000.  State: start
   solution, then Y planned (route first Y last; Y waits 600).  Move: X in front
   of Y.  X waits 2400, Y is still reached at 6000 (the unguarded estimate
   breaks: "not violated"), Y's accumulated wait is 3000 > 2400 (the exact check
   rejects). *)
Theorem C09_max_wait_vehicle_refuted :
  exists inp s mv,
    wf_input inp /\ input_windows_ok inp /\ matrices_nonneg inp /\ stop_durations_nonneg inp /\
    (forall u, In u (in_user inp) -> False) /\
    reachable inp s /\ move_ok inp s mv /\
    has_max_wait_vehicle inp = true /\ est_max_wait_vehicle_prefix inp s mv = false /\
    move_executable_prefix inp s mv = true /\
    snd (exec_checked_prefix inp s mv) = Rejected KMaxWaitVehicle /\
    same_obs (fst (exec_checked_prefix inp s mv)) s.
Proof. exact C09_max_wait_vehicle_refuted_proof. Qed.
Print Assumptions C09_max_wait_vehicle_refuted.

Theorem C09_prefix_executable_executes_refuted :
  exists inp s mv s' r,
    wf_input inp /\ matrices_nonneg inp /\ reachable inp s /\ move_ok inp s mv /\
    (forall u, In u (in_user inp) -> False) /\
    move_executable_prefix inp s mv = true /\
    exec_checked_prefix inp s mv = (s', r) /\ r = Rejected KMaxWaitVehicle.
Proof. exact C09_prefix_executable_executes_refuted_proof. Qed.
Print Assumptions C09_prefix_executable_executes_refuted.

(* on the same witness the fixed estimate answers "violated": the move is not
   offered any more *)
Theorem C09_fixed_estimate_rejects_witness :
  est_max_wait_vehicle_prefix w_inp w_s1 w_mvX = false /\
  est_max_wait_vehicle w_inp w_s1 w_mvX = true /\
  move_executable w_inp w_s1 w_mvX = false /\
  exec_checked w_inp w_s1 w_mvX = (w_s1, NotExecutable).
Proof. exact C09_fixed_estimate_rejects_witness_proof. Qed.
Print Assumptions C09_fixed_estimate_rejects_witness.

(* the fix only makes the estimate stricter *)
Theorem C09_fix_only_stricter : forall inp s mv,
  est_max_wait_vehicle_prefix inp s mv = true -> est_max_wait_vehicle inp s mv = true.
Proof. exact C09_fix_only_stricter_proof. Qed.
Print Assumptions C09_fix_only_stricter.

(* what could be said before the fix: sound only for metric travel durations
   and non-negative stop and group durations (a group duration is a duration
   spent at a stop: a negative one is as harmful as a negative stop duration,
   C09_prefix_negative_group_duration_refuted) *)
Theorem C09_prefix_est_max_wait_vehicle_sound_partial : forall inp s mv,
  wf_input inp -> reachable inp s -> move_ok inp s mv ->
  unit_planned inp s (mv_unit mv) = false ->
  durations_metric inp -> stop_durations_nonneg inp -> dgroups_nonneg inp ->
  est_max_wait_vehicle_prefix inp s mv = false ->
  Forall (cl_max_wait_vehicle inp (mv_vehicle mv)) (new_cells inp s mv).
Proof. exact C09_prefix_est_max_wait_vehicle_sound_partial_proof. Qed.
Print Assumptions C09_prefix_est_max_wait_vehicle_sound_partial.

Theorem C09_prefix_executable_executes_partial : forall inp s mv s' r,
  wf_input inp -> distances_nonneg inp -> reachable inp s -> move_ok inp s mv ->
  (forall u, In u (in_user inp) -> False) ->
  wait_vehicle_side inp ->
  move_executable_prefix inp s mv = true ->
  exec_checked_prefix inp s mv = (s', r) -> r = Done.
Proof. exact C09_prefix_executable_executes_partial_proof. Qed.
Print Assumptions C09_prefix_executable_executes_partial.

(* [dgroups_nonneg] in the two partial statements is used: metric travel
   durations, stop durations >= 0, one group with duration -300 (witness ng_inp,
   ng_s1, w_mvX in Estimates_proofs).  The unguarded estimate lets the move
   through and Execute rejects it; the guarded estimate of the code as it is
   now refuses the move. *)
Theorem C09_prefix_negative_group_duration_refuted :
  exists inp s mv,
    wf_input inp /\ input_windows_ok inp /\ matrices_nonneg inp /\ stop_durations_nonneg inp /\
    durations_metric inp /\ (forall u, In u (in_user inp) -> False) /\
    reachable inp s /\ move_ok inp s mv /\
    has_max_wait_vehicle inp = true /\ est_max_wait_vehicle_prefix inp s mv = false /\
    move_executable_prefix inp s mv = true /\
    snd (exec_checked_prefix inp s mv) = Rejected KMaxWaitVehicle /\
    ~ dgroups_nonneg inp /\
    est_max_wait_vehicle inp s mv = true /\ move_executable inp s mv = false.
Proof. exact prefix_negative_group_duration_refuted. Qed.
Print Assumptions C09_prefix_negative_group_duration_refuted.

(* ---- 5. the side conditions are checkable *)
Theorem C09_side_conditions_decidable : forall inp,
  (distances_nonneg_b inp = true -> distances_nonneg inp) /\
  (stop_durations_nonneg_b inp = true -> stop_durations_nonneg inp) /\
  (durations_metric_b inp = true -> durations_metric inp).
Proof.
  exact (fun inp => conj (distances_nonneg_b_ok inp)
                         (conj (stop_durations_nonneg_b_ok inp) (durations_metric_b_ok inp))).
Qed.
Print Assumptions C09_side_conditions_decidable.

Theorem C09_dgroups_conditions_decidable : forall inp,
  (dgroups_inert_b inp = true -> dgroups_inert inp) /\
  (dgroups_nonneg_b inp = true -> dgroups_nonneg inp).
Proof. exact (fun inp => conj (dgroups_inert_b_ok inp) (dgroups_nonneg_b_ok inp)). Qed.
Print Assumptions C09_dgroups_conditions_decidable.

(* ---- 6. DURATION GROUPS, BEFORE THE REPAIR (the early break of the max-wait
   estimates compared the arrival only: est_max_wait_*_arrival_only and the gate
   move_executable_arrival_only / exec_checked_arrival_only built on them).
   Witness (dg_inp, dg_s1, dg_mvU in Estimates_proofs): stops A = 0, X = 1,
   Z = 2, U = 3, every travel duration 0, no own durations; A and X form a
   duration group of 600 s; Z has the windows [60, 900) and [3600, 7200) and max
   wait 60 s.  Route: first A X Z last (A pays the 600 s, X after A does not, Z
   is reached at 600: inside its first window).  Move: U between A and X.  The
   arrival at X is still 600 and every stop of the unit is placed: the old
   estimate breaks and answers "not violated".  X, now visited after a stop
   outside its group, pays the 600 s again; Z is reached at 1200, between its
   windows, waits 2400 s and the exact check rejects the move.  Every
   hypothesis of C09_executable_executes holds, the travel durations are
   metric, nothing is negative, the windows are well formed. *)
Theorem C09_duration_groups_refuted :
  exists inp s mv s' r,
    wf_input inp /\ input_windows_ok inp /\ matrices_nonneg inp /\ stop_durations_nonneg inp /\
    Forall (fun g => 0 <= snd g) (in_dgroups inp) /\ durations_metric inp /\
    (forall u, In u (in_user inp) -> False) /\
    reachable inp s /\ move_ok inp s mv /\
    has_max_wait_stop inp = true /\ est_max_wait_stop_arrival_only inp s mv = false /\
    move_executable_arrival_only inp s mv = true /\
    exec_checked_arrival_only inp s mv = (s', r) /\ r = Rejected KMaxWaitStop /\ same_obs s' s /\
    exec_move inp s mv = (s', r) /\
    ~ dgroups_inert inp.
Proof. exact dg_break_refuted. Qed.
Print Assumptions C09_duration_groups_refuted.

(* the vehicle max-wait estimate (with its guard) broke at the same place: the
   same input with a vehicle max wait of 60 s instead of Z's (dgv_inp, dgv_s1) *)
Theorem C09_duration_groups_refuted_vehicle :
  exists inp s mv s' r,
    wf_input inp /\ input_windows_ok inp /\ matrices_nonneg inp /\ stop_durations_nonneg inp /\
    Forall (fun g => 0 <= snd g) (in_dgroups inp) /\ durations_metric inp /\
    (forall u, In u (in_user inp) -> False) /\
    reachable inp s /\ move_ok inp s mv /\
    has_max_wait_vehicle inp = true /\ est_max_wait_vehicle_arrival_only inp s mv = false /\
    move_executable_arrival_only inp s mv = true /\
    exec_checked_arrival_only inp s mv = (s', r) /\ r = Rejected KMaxWaitVehicle /\ same_obs s' s /\
    exec_move inp s mv = (s', r) /\
    ~ dgroups_inert inp.
Proof. exact dg_break_refuted_vehicle. Qed.
Print Assumptions C09_duration_groups_refuted_vehicle.

(* AFTER THE REPAIR, on the same witnesses: the end of X is 1200 on the new
   route and 600 on the old one, the break is not taken, the simulation goes on
   to Z and the repaired estimates answer "violated": the moves are not offered
   any more *)
Theorem C09_duration_groups_repaired_rejects :
  est_max_wait_stop_arrival_only dg_inp dg_s1 dg_mvU = false /\
  est_max_wait_stop dg_inp dg_s1 dg_mvU = true /\
  move_executable dg_inp dg_s1 dg_mvU = false /\
  exec_checked dg_inp dg_s1 dg_mvU = (dg_s1, NotExecutable) /\
  est_max_wait_vehicle_arrival_only dgv_inp dgv_s1 dg_mvU = false /\
  est_max_wait_vehicle dgv_inp dgv_s1 dg_mvU = true /\
  move_executable dgv_inp dgv_s1 dg_mvU = false /\
  exec_checked dgv_inp dgv_s1 dg_mvU = (dgv_s1, NotExecutable).
Proof. exact dg_repaired_rejects. Qed.
Print Assumptions C09_duration_groups_repaired_rejects.

(* without active groups the repair changes nothing: on every reachable state
   the old and the repaired estimates, and the gates built on them, are equal
   (for a unit that is already planned both gates answer "not executable") *)
Theorem C09_check_end_equivalent_without_groups : forall inp s mv,
  wf_input inp -> reachable inp s -> move_ok inp s mv -> dgroups_inert inp ->
  (unit_planned inp s (mv_unit mv) = false ->
   est_max_wait_stop_arrival_only inp s mv = est_max_wait_stop inp s mv /\
   est_max_wait_vehicle_arrival_only inp s mv = est_max_wait_vehicle inp s mv /\
   estimate_violated_arrival_only inp s mv = estimate_violated inp s mv) /\
  move_executable_arrival_only inp s mv = move_executable inp s mv /\
  exec_checked_arrival_only inp s mv = exec_checked inp s mv.
Proof. exact C09_check_end_equivalent_without_groups_proof. Qed.
Print Assumptions C09_check_end_equivalent_without_groups.

(* hence the old estimates were sound when the groups are inert *)
Theorem C09_arrival_only_est_max_wait_stop_sound_partial : forall inp s mv,
  wf_input inp -> reachable inp s -> move_ok inp s mv ->
  unit_planned inp s (mv_unit mv) = false ->
  dgroups_inert inp ->
  est_max_wait_stop_arrival_only inp s mv = false ->
  Forall (cl_max_wait_stop inp (mv_vehicle mv)) (new_cells inp s mv).
Proof. exact C09_arrival_only_est_max_wait_stop_sound_proof. Qed.
Print Assumptions C09_arrival_only_est_max_wait_stop_sound_partial.

Theorem C09_arrival_only_est_max_wait_vehicle_sound_partial : forall inp s mv,
  wf_input inp -> reachable inp s -> move_ok inp s mv ->
  unit_planned inp s (mv_unit mv) = false ->
  dgroups_inert inp ->
  est_max_wait_vehicle_arrival_only inp s mv = false ->
  Forall (cl_max_wait_vehicle inp (mv_vehicle mv)) (new_cells inp s mv).
Proof. exact C09_arrival_only_est_max_wait_vehicle_sound_proof. Qed.
Print Assumptions C09_arrival_only_est_max_wait_vehicle_sound_partial.

(* non-vacuity: the witness input with the groups switched off ([dgroups_inert]
   holds): the move is offered by both versions of the gate and executed *)
Theorem C09_duration_groups_off_executes :
  dgroups_inert dg_off_inp /\
  new_solution dg_off_inp = Some dg_off_s0 /\
  exec_move dg_off_inp dg_off_s0 dg_mvAXZ = (dg_off_s1, Done) /\
  move_executable_arrival_only dg_off_inp dg_off_s1 dg_mvU = true /\
  move_executable dg_off_inp dg_off_s1 dg_mvU = true /\
  snd (exec_checked dg_off_inp dg_off_s1 dg_mvU) = Done.
Proof. exact dg_off_executes. Qed.
Print Assumptions C09_duration_groups_off_executes.

(* ... and with an ACTIVE group the repaired break is still taken when it may
   be: the witness input with U in the group of A and X (dgk_inp); arrival and
   end of X are unchanged, the move is offered and executed *)
Theorem C09_duration_groups_on_executes :
  ~ dgroups_inert dgk_inp /\
  new_solution dgk_inp = Some dgk_s0 /\
  exec_move dgk_inp dgk_s0 dg_mvAXZ = (dgk_s1, Done) /\
  has_max_wait_stop dgk_inp = true /\
  move_executable dgk_inp dgk_s1 dg_mvU = true /\
  snd (exec_checked dgk_inp dgk_s1 dg_mvU) = Done.
Proof. exact dg_groups_on_executes. Qed.
Print Assumptions C09_duration_groups_on_executes.
