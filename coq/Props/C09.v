(* C09: "whenever the engine offers a move as executable, executing it on the
   unchanged solution succeeds: the fast feasibility estimate that let the move
   through is never contradicted by the exact check applied afterwards".

   Models: NR.Model.Engine (exact checks, exec_move) and NR.Model.Estimates
   (the estimates, move_executable, exec_checked).  Proofs are in
   NR.Proofs.Estimates_proofs; this file only states the theorems.

   VERDICT.  For the code as it is now the property HOLDS
   (C09_executable_executes), for inputs without user constraints and without
   negative distances.  It was FALSE before the fix of the vehicle max-wait
   estimate (C09_prefix_executable_executes_refuted): that estimate stopped its
   simulation as soon as every stop of the unit was placed and the arrival at a
   planned stop was unchanged, but the exact check accumulates the waiting time
   of the inserted stops into every later stop.  The witness below replayed on
   the real code (move reported executable, Execute rejected it); the fix adds
   the guard "the wait accumulated in front of the stop is not larger than the
   cached one" to the break, and Model/Estimates.v models the fixed estimate.

   Definitions used in the statements that are not part of the models (they
   are in NR.Proofs.Engine_inv / Engine_spec / Estimates_proofs):

   wf_input, reachable, move_ok     as in C01..C08 (move_ok: all stops of the
                                    unit, each once, gaps sorted and in range)
   distances_nonneg inp   := every entry of in_distance inp is >= 0
   matrices_nonneg inp    := every entry of in_duration inp is >= 0 /\ distances_nonneg inp
   stop_durations_nonneg inp := every is_duration of in_stops inp is >= 0
   durations_metric inp   := forall a b c < nstops + 2 * nveh,
                               travel_duration inp a c
                               <= travel_duration inp a b + travel_duration inp b c
   wait_vehicle_side inp  := has_max_wait_vehicle inp = false \/
                             (durations_metric inp /\ stop_durations_nonneg inp)
     (all decidable: distances_nonneg_b, stop_durations_nonneg_b,
      durations_metric_b with their _ok lemmas)
   est_max_wait_vehicle_prefix, estimate_violated_prefix, move_executable_prefix,
   exec_checked_prefix    := the vehicle max-wait estimate BEFORE the fix
                             (sim_wait with the guard [fun _ _ => true]) and the
                             gate built on it; everything else as in the model
   new_cells inp s mv     := cells_from from the cached cell in front of the
                             first position over the new stop sequence behind it
                             (what propagate recomputes in exec_move)
   cl_capacity, cl_distance, cl_latest_end, cl_latest_start, cl_max_wait_stop,
   cl_max_wait_vehicle inp v c := the clause of stop_violation for that
                             constraint holds at cell c (0 <= level <= capacity
                             for every resource, 0 <= cumulative distance <=
                             limit, end <= latest end at the vehicle's last
                             stop, start <= last window end, wait <= stop max
                             wait, accumulated wait <= vehicle max wait), each
                             guarded by "the constraint is installed". *)

From Coq Require Import List ZArith Bool.
From NR Require Import Model.Engine Model.Estimates
     Proofs.Engine_inv Proofs.Engine_spec Proofs.Estimates_proofs.
Import ListNotations.
Open Scope Z_scope.

(* ---- 1. the property, full strength, for the code as it is now.
   Of "matrices non-negative" only the distance part is needed (and it is
   needed in the model: Estimates_proofs.distances_nonneg_needed; the code
   takes another branch for expressions with negative values, which the model
   does not cover).  User constraints are excluded: their estimate is
   optimistic by design. *)
Theorem C09_executable_executes : forall inp s mv s' r,
  wf_input inp -> distances_nonneg inp -> reachable inp s -> move_ok inp s mv ->
  (forall u, In u (in_user inp) -> False) ->
  move_executable inp s mv = true ->
  exec_checked inp s mv = (s', r) -> r = Done.
Proof. exact C09_executable_executes_proof. Qed.
Print Assumptions C09_executable_executes.

(* ---- 2. one statement per constraint: estimate "not violated" => every new
   cell satisfies the constraint's clause of the exact check *)
Theorem C09_est_capacity_sound : forall inp s mv,
  wf_input inp -> reachable inp s -> move_ok inp s mv ->
  unit_planned inp s (mv_unit mv) = false ->
  (forall r, (r < in_nres inp)%nat -> est_capacity inp s mv r = false) ->
  Forall (cl_capacity inp (mv_vehicle mv)) (new_cells inp s mv).
Proof. exact C09_est_capacity_sound_proof. Qed.
Print Assumptions C09_est_capacity_sound.

Theorem C09_est_distance_sound : forall inp s mv,
  wf_input inp -> reachable inp s -> move_ok inp s mv ->
  distances_nonneg inp -> est_distance inp s mv = false ->
  Forall (cl_distance inp (mv_vehicle mv)) (new_cells inp s mv).
Proof. exact C09_est_distance_sound_proof. Qed.
Print Assumptions C09_est_distance_sound.

Theorem C09_est_latest_start_sound : forall inp s mv,
  est_latest_start inp s mv = false ->
  Forall (cl_latest_start inp (mv_vehicle mv)) (new_cells inp s mv).
Proof. exact C09_est_latest_start_sound_proof. Qed.
Print Assumptions C09_est_latest_start_sound.

Theorem C09_est_latest_end_sound : forall inp s mv,
  est_latest_end inp s mv = false ->
  Forall (cl_latest_end inp (mv_vehicle mv)) (new_cells inp s mv).
Proof. exact C09_est_latest_end_sound_proof. Qed.
Print Assumptions C09_est_latest_end_sound.

Theorem C09_est_max_wait_stop_sound : forall inp s mv,
  wf_input inp -> reachable inp s -> move_ok inp s mv ->
  unit_planned inp s (mv_unit mv) = false ->
  est_max_wait_stop inp s mv = false ->
  Forall (cl_max_wait_stop inp (mv_vehicle mv)) (new_cells inp s mv).
Proof. exact C09_est_max_wait_stop_sound_proof. Qed.
Print Assumptions C09_est_max_wait_stop_sound.

(* the fixed estimate: no side condition on the durations *)
Theorem C09_est_max_wait_vehicle_sound : forall inp s mv,
  wf_input inp -> reachable inp s -> move_ok inp s mv ->
  unit_planned inp s (mv_unit mv) = false ->
  est_max_wait_vehicle inp s mv = false ->
  Forall (cl_max_wait_vehicle inp (mv_vehicle mv)) (new_cells inp s mv).
Proof. exact C09_est_max_wait_vehicle_sound_proof. Qed.
Print Assumptions C09_est_max_wait_vehicle_sound.

(* est_max_stops and est_attributes have no exact counterpart: without user
   constraints the exact check of a cell IS the six clauses above *)
Theorem C09_no_exact_check_for_max_stops_and_attributes : forall inp v c,
  in_user inp = [] ->
  (stop_violation inp v true c = None <->
   cl_capacity inp v c /\ cl_distance inp v c /\ cl_latest_end inp v c /\
   cl_latest_start inp v c /\ cl_max_wait_stop inp v c /\ cl_max_wait_vehicle inp v c).
Proof. exact C09_no_exact_check_for_max_stops_and_attributes_proof. Qed.
Print Assumptions C09_no_exact_check_for_max_stops_and_attributes.

(* all estimates together *)
Theorem C09_new_cells_pass : forall inp s mv,
  wf_input inp -> reachable inp s -> move_ok inp s mv ->
  unit_planned inp s (mv_unit mv) = false ->
  (forall u, In u (in_user inp) -> False) -> distances_nonneg inp ->
  estimate_violated inp s mv = false ->
  Forall (fun c => stop_violation inp (mv_vehicle mv) true c = None) (new_cells inp s mv).
Proof. exact C09_new_cells_pass_proof. Qed.
Print Assumptions C09_new_cells_pass.

(* ---- 3. the gate itself *)
Theorem C09_not_executable_not_executed : forall inp s mv,
  move_executable inp s mv = false -> exec_checked inp s mv = (s, NotExecutable).
Proof. exact C09_not_executable_not_executed_proof. Qed.
Print Assumptions C09_not_executable_not_executed.

Theorem C09_done_was_executable : forall inp s mv s',
  exec_checked inp s mv = (s', Done) ->
  move_executable inp s mv = true /\ exec_move inp s mv = (s', Done).
Proof. exact C09_done_was_executable_proof. Qed.
Print Assumptions C09_done_was_executable.

(* ---- 4. BEFORE THE FIX.  Witness (w_inp, w_s1, w_mvX in Estimates_proofs):
   stops X = 0 (window opens 3000) and Y = 1 (window opens 6600), no service
   durations, one vehicle (first stop 2, last stop 3, start time 0, max wait
   2400); travel durations first->Y 6000, first->X 600, X->Y 3000.  State: start
   solution, then Y planned (route first Y last; Y waits 600).  Move: X in front
   of Y.  X waits 2400, Y is still reached at 6000 (the unguarded estimate
   breaks: "not violated"), Y's accumulated wait is 3000 > 2400 (the exact check
   rejects). *)
Theorem C09_max_wait_vehicle_refuted :
  exists inp s mv,
    wf_input inp /\ input_windows_ok inp /\ matrices_nonneg inp /\ stop_durations_nonneg inp /\
    (forall u, In u (in_user inp) -> False) /\
    reachable inp s /\ move_ok inp s mv /\
    has_max_wait_vehicle inp = true /\ est_max_wait_vehicle_prefix inp s mv = false /\
    move_executable_prefix inp s mv = true /\
    snd (exec_checked_prefix inp s mv) = Rejected KMaxWaitVehicle /\
    same_obs (fst (exec_checked_prefix inp s mv)) s.
Proof. exact C09_max_wait_vehicle_refuted_proof. Qed.
Print Assumptions C09_max_wait_vehicle_refuted.

Theorem C09_prefix_executable_executes_refuted :
  exists inp s mv s' r,
    wf_input inp /\ matrices_nonneg inp /\ reachable inp s /\ move_ok inp s mv /\
    (forall u, In u (in_user inp) -> False) /\
    move_executable_prefix inp s mv = true /\
    exec_checked_prefix inp s mv = (s', r) /\ r = Rejected KMaxWaitVehicle.
Proof. exact C09_prefix_executable_executes_refuted_proof. Qed.
Print Assumptions C09_prefix_executable_executes_refuted.

(* on the same witness the fixed estimate answers "violated": the move is not
   offered any more *)
Theorem C09_fixed_estimate_rejects_witness :
  est_max_wait_vehicle_prefix w_inp w_s1 w_mvX = false /\
  est_max_wait_vehicle w_inp w_s1 w_mvX = true /\
  move_executable w_inp w_s1 w_mvX = false /\
  exec_checked w_inp w_s1 w_mvX = (w_s1, NotExecutable).
Proof. exact C09_fixed_estimate_rejects_witness_proof. Qed.
Print Assumptions C09_fixed_estimate_rejects_witness.

(* the fix only makes the estimate stricter *)
Theorem C09_fix_only_stricter : forall inp s mv,
  est_max_wait_vehicle_prefix inp s mv = true -> est_max_wait_vehicle inp s mv = true.
Proof. exact C09_fix_only_stricter_proof. Qed.
Print Assumptions C09_fix_only_stricter.

(* what could be said before the fix: sound only for metric travel durations
   and non-negative stop durations *)
Theorem C09_prefix_est_max_wait_vehicle_sound_partial : forall inp s mv,
  wf_input inp -> reachable inp s -> move_ok inp s mv ->
  unit_planned inp s (mv_unit mv) = false ->
  durations_metric inp -> stop_durations_nonneg inp ->
  est_max_wait_vehicle_prefix inp s mv = false ->
  Forall (cl_max_wait_vehicle inp (mv_vehicle mv)) (new_cells inp s mv).
Proof. exact C09_prefix_est_max_wait_vehicle_sound_partial_proof. Qed.
Print Assumptions C09_prefix_est_max_wait_vehicle_sound_partial.

Theorem C09_prefix_executable_executes_partial : forall inp s mv s' r,
  wf_input inp -> distances_nonneg inp -> reachable inp s -> move_ok inp s mv ->
  (forall u, In u (in_user inp) -> False) ->
  wait_vehicle_side inp ->
  move_executable_prefix inp s mv = true ->
  exec_checked_prefix inp s mv = (s', r) -> r = Done.
Proof. exact C09_prefix_executable_executes_partial_proof. Qed.
Print Assumptions C09_prefix_executable_executes_partial.

(* ---- 5. the side conditions are checkable *)
Theorem C09_side_conditions_decidable : forall inp,
  (distances_nonneg_b inp = true -> distances_nonneg inp) /\
  (stop_durations_nonneg_b inp = true -> stop_durations_nonneg inp) /\
  (durations_metric_b inp = true -> durations_metric inp).
Proof.
  exact (fun inp => conj (distances_nonneg_b_ok inp)
                         (conj (stop_durations_nonneg_b_ok inp) (durations_metric_b_ok inp))).
Qed.
Print Assumptions C09_side_conditions_decidable.
