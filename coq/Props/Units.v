(* Units: nested plan units (stop groups, initial stops) on top of the route
   engine.  Model: NR.Model.Units (g_score_terms, g_exec_move, g_exec_checked,
   g_unplan_unit, g_unplan_group, g_exec_units, g_new_solution; the model is
   deliberately faithful to the code, known defects included).  Proofs:
   NR.Proofs.Units_proofs.  This file only states the theorems.

   Part A  On FLAT inputs (no groups, no initial stops) the nested engine IS
           the core engine of NR.Model.Engine / NR.Model.Estimates: plain
           equalities, with no side condition on the state (an id beyond the
           units has no stops, hence penalty 0 on both sides; the extra
           collection swap of the nested un-plan is idempotent).  So every
           theorem about reachable core states (C01..C09) transfers.
   Part B  Reachable witnesses of the known defects N1 N2 N4 N7.
   Part C  What the units move does guarantee.

   Vocabulary (all spelled out by the *_unfold theorems below):
   [flat gi]         gi_groups gi = [] and every initial list is [].
   [g_trace gi s h], [c_trace inp s h]
                     the (state, answer) pairs met while running the operation
                     list h (GExec mv | GExecChecked mv | GUnplan u; NO
                     well-formedness asked) with the nested / the core functions.
   [g_reachable gi s] as [reachable] of Props/C04.v, with g_new_solution,
                     g_exec_move, g_unplan_unit.
   [routes_ok inp s] the ROUTE half of the engine invariant InvT (caches equal
                     their recomputation, every cell passes the exact checks, no
                     stop twice, a unit is entirely on ONE route or on none); it
                     says nothing about collections and scores, which Part B
                     shows to be inconsistent after nested operations.
   [subs_fresh gi s subs] every sub-move of a units move is well formed
                     (move_ok, Proofs/Engine_inv.v) for the state it is executed
                     on, along the Done path.
   Top-level ids: a stops unit u that is no member keeps u; group g is
   nunits + g.  [members_of gi id]: the member stops units of id.
   Scope: groups of stops units (PlanAll, one vehicle); initial / fixed stops
   only in Part A (where they are absent); g_unplan_vehicle not covered. *)

From Coq Require Import List ZArith.
From NR Require Import Model.Engine Model.Estimates Model.Units
                       Proofs.Engine_inv Proofs.Engine_spec Proofs.Units_proofs.
Import ListNotations.

(* ================================================================== *)
(* Part A: conservative extension                                      *)
(* ================================================================== *)

Theorem Units_flat_unfold : forall gi,
  flat gi <-> gi_groups gi = [] /\ Forall (fun l => l = []) (gi_initial gi).
Proof. exact flat_unfold_proof. Qed.
Print Assumptions Units_flat_unfold.

Theorem Units_flat_score_terms : forall gi s,
  flat gi -> g_score_terms gi s = score_terms (gi_inp gi) s.
Proof. exact flat_score_terms. Qed.
Print Assumptions Units_flat_score_terms.

Theorem Units_flat_exec_move : forall gi s mv,
  flat gi -> g_exec_move gi s mv = exec_move (gi_inp gi) s mv.
Proof. exact flat_exec_move. Qed.
Print Assumptions Units_flat_exec_move.

Theorem Units_flat_exec_checked : forall gi s mv,
  flat gi -> g_exec_checked gi s mv = exec_checked (gi_inp gi) s mv.
Proof. exact flat_exec_checked. Qed.
Print Assumptions Units_flat_exec_checked.

Theorem Units_flat_unplan_unit : forall gi s u,
  flat gi -> g_unplan_unit gi s u = unplan_unit (gi_inp gi) s u.
Proof. exact flat_unplan_unit. Qed.
Print Assumptions Units_flat_unplan_unit.

Theorem Units_flat_new_solution : forall gi,
  flat gi -> g_new_solution gi = new_solution (gi_inp gi).
Proof. exact flat_new_solution. Qed.
Print Assumptions Units_flat_new_solution.

(* the sharper forms: which half of [flat] each equality needs *)
Theorem Units_no_groups_score_terms : forall gi s,
  gi_groups gi = [] -> g_score_terms gi s = score_terms (gi_inp gi) s.
Proof. exact g_score_terms_no_groups. Qed.
Print Assumptions Units_no_groups_score_terms.

Theorem Units_no_groups_exec_move : forall gi s mv,
  gi_groups gi = [] -> unit_fixed gi (mv_unit mv) = false ->
  g_exec_move gi s mv = exec_move (gi_inp gi) s mv /\
  g_exec_checked gi s mv = exec_checked (gi_inp gi) s mv.
Proof.
  exact (fun gi s mv Hg Hf => conj (g_exec_move_no_groups gi s mv Hg Hf)
                                   (g_exec_checked_no_groups gi s mv Hg Hf)).
Qed.
Print Assumptions Units_no_groups_exec_move.

Theorem Units_no_groups_unplan_unit : forall gi s u,
  gi_groups gi = [] -> unit_fixed gi u = false ->
  g_unplan_unit gi s u = unplan_unit (gi_inp gi) s u.
Proof. exact g_unplan_unit_no_groups. Qed.
Print Assumptions Units_no_groups_unplan_unit.

(* histories: from the start solution (which exists on one side iff on the
   other), ANY list of operations gives the same states and the same answers *)
Theorem Units_flat_history : forall gi h,
  flat gi ->
  option_map (fun s0 => (s0, g_trace gi s0 h)) (g_new_solution gi)
  = option_map (fun s0 => (s0, c_trace (gi_inp gi) s0 h)) (new_solution (gi_inp gi)).
Proof. exact flat_history_proof. Qed.
Print Assumptions Units_flat_history.

Theorem Units_g_reachable_unfold : forall gi s,
  g_reachable gi s <->
  exists s0 h, g_new_solution gi = Some s0 /\ g_fresh gi s0 h /\ In s (g_run gi s0 h).
Proof. exact g_reachable_unfold_proof. Qed.
Print Assumptions Units_g_reachable_unfold.

(* ... so the reachable states are those of Props/C04.v and satisfy InvT *)
Theorem Units_flat_reachable : forall gi s,
  flat gi -> (g_reachable gi s <-> reachable (gi_inp gi) s).
Proof. exact flat_reachable. Qed.
Print Assumptions Units_flat_reachable.

Theorem Units_flat_reachable_invT : forall gi s,
  flat gi -> wf_input (gi_inp gi) -> g_reachable gi s -> InvT (gi_inp gi) s.
Proof. exact flat_reachable_invT. Qed.
Print Assumptions Units_flat_reachable_invT.

(* ================================================================== *)
(* Part B: witnesses of the known defects (all states reachable)       *)
(* ================================================================== *)

(* a member's un-plan answers Done and books the whole GROUP unplanned while
   the sibling member stays on the route *)
Theorem N1_member_unplan_splits_group :
  exists gi s0 id subs s1 m m' s2,
    wf_input (gi_inp gi) /\
    g_new_solution gi = Some s0 /\
    g_exec_units gi s0 id subs = (s1, Done) /\
    members_of gi id = [m'; m] /\
    g_unplan_unit gi s1 m = (s2, Done) /\
    In id (st_unplanned s2) /\ ~ In id (st_planned s2) /\
    unit_planned (gi_inp gi) s2 m' = true.
Proof. exact N1_member_unplan_splits_group_proof. Qed.
Print Assumptions N1_member_unplan_splits_group.

(* the group un-plan answers Done although a member's un-plan was rejected:
   the group is booked unplanned, is not planned, and the member is still on
   the route *)
Theorem N2_group_unplan_partial :
  exists gi s0 id subs s1 m k s2,
    wf_input (gi_inp gi) /\
    g_new_solution gi = Some s0 /\
    g_exec_units gi s0 id subs = (s1, Done) /\
    In m (members_of gi id) /\
    snd (g_unplan_unit gi (move_to_unplanned s1 id) m) = Rejected k /\
    g_unplan_group gi s1 id = (s2, Done) /\
    top_planned gi s2 id = false /\ In id (st_unplanned s2) /\
    unit_planned (gi_inp gi) s2 m = true.
Proof. exact N2_group_unplan_partial_proof. Qed.
Print Assumptions N2_group_unplan_partial.

(* a rejected member un-plan restores routes and collections but not the score *)
Theorem N4_member_unplan_rejected_stale_score :
  exists gi s0 id subs s1 m k s2,
    wf_input (gi_inp gi) /\
    g_new_solution gi = Some s0 /\
    g_exec_units gi s0 id subs = (s1, Done) /\
    In m (members_of gi id) /\
    st_total s1 = sumZ (g_score_terms gi s1) /\
    g_unplan_unit gi s1 m = (s2, Rejected k) /\
    st_routes s2 = st_routes s1 /\ st_planned s2 = st_planned s1 /\
    st_unplanned s2 = st_unplanned s1 /\
    st_total s2 <> sumZ (g_score_terms gi s2).
Proof. exact N4_member_unplan_rejected_stale_score_proof. Qed.
Print Assumptions N4_member_unplan_rejected_stale_score.

(* a units move whose first sub-move is rejected restores routes and
   collections but not the score *)
Theorem N7_rejected_group_move_stale_score :
  exists gi s0 id subs k s1,
    wf_input (gi_inp gi) /\
    g_new_solution gi = Some s0 /\
    st_total s0 = sumZ (g_score_terms gi s0) /\
    g_exec_units gi s0 id subs = (s1, Rejected k) /\
    st_routes s1 = st_routes s0 /\ st_planned s1 = st_planned s0 /\
    st_unplanned s1 = st_unplanned s0 /\
    st_total s1 <> sumZ (g_score_terms gi s1).
Proof. exact N7_rejected_group_move_stale_score_proof. Qed.
Print Assumptions N7_rejected_group_move_stale_score.

(* ================================================================== *)
(* Part C: the units move                                              *)
(* ================================================================== *)

Theorem Units_routes_ok_unfold : forall inp s,
  routes_ok inp s <->
  caches_ok inp s /\ feasible inp s /\ NoDup (interior_stops s) /\
  (forall u, (u < nunits inp)%nat ->
     unit_planned inp s u = true \/
     forall x, In x (iu_stops (get_unit inp u)) -> stop_on_route s x = false) /\
  together inp s.
Proof. exact routes_ok_unfold_proof. Qed.
Print Assumptions Units_routes_ok_unfold.

(* equivalently: the routes are those of a core state satisfying InvT *)
Theorem Units_routes_ok_iff_core : forall inp s,
  routes_ok inp s <-> exists c, InvT inp c /\ st_routes c = st_routes s.
Proof. exact routes_ok_iff_core_proof. Qed.
Print Assumptions Units_routes_ok_iff_core.

Theorem Units_subs_fresh_unfold : forall gi s sb rest,
  (subs_fresh gi s [] <-> True) /\
  (subs_fresh gi s (sb :: rest) <->
   move_ok (gi_inp gi) s (sub_to_move s sb) /\
   forall s1, g_exec_move gi s (sub_to_move s sb) = (s1, Done) -> subs_fresh gi s1 rest).
Proof. exact subs_fresh_unfold_proof. Qed.
Print Assumptions Units_subs_fresh_unfold.

(* routes_ok holds at the start (no initial stops; groups allowed) and is kept
   by every nested operation of this file *)
Theorem Units_routes_ok_start : forall gi s,
  wf_input (gi_inp gi) -> Forall (fun l => l = []) (gi_initial gi) ->
  g_new_solution gi = Some s -> routes_ok (gi_inp gi) s.
Proof. exact routes_ok_start_proof. Qed.
Print Assumptions Units_routes_ok_start.

Theorem Units_routes_ok_kept : forall gi s,
  wf_input (gi_inp gi) -> routes_ok (gi_inp gi) s ->
  (forall mv, move_ok (gi_inp gi) s mv -> routes_ok (gi_inp gi) (fst (g_exec_move gi s mv))) /\
  (forall mv, move_ok (gi_inp gi) s mv -> routes_ok (gi_inp gi) (fst (g_exec_checked gi s mv))) /\
  (forall u, (u < nunits (gi_inp gi))%nat -> routes_ok (gi_inp gi) (fst (g_unplan_unit gi s u))) /\
  (forall id, routes_ok (gi_inp gi) (fst (g_unplan_group gi s id))) /\
  (forall id subs, subs_fresh gi (move_to_planned s id) subs ->
                   routes_ok (gi_inp gi) (fst (g_exec_units gi s id subs))).
Proof. exact routes_ok_kept_proof. Qed.
Print Assumptions Units_routes_ok_kept.

(* All-or-nothing on the ROUTES (the scores are not restored: N7), and the
   undo of the members never fails: they are un-planned in reverse order, each
   un-plan leading back to a route that was feasible.  (As asked, "not Done and
   not UndoFailed implies routes unchanged" is the weaker reading; UndoFailed
   is impossible under these hypotheses.) *)
Theorem g_exec_units_routes_all_or_nothing : forall gi s id subs s' r,
  wf_input (gi_inp gi) -> routes_ok (gi_inp gi) s ->
  subs_fresh gi (move_to_planned s id) subs ->
  g_exec_units gi s id subs = (s', r) ->
  r <> UndoFailed /\ routes_ok (gi_inp gi) s' /\ (r <> Done -> st_routes s' = st_routes s).
Proof. exact g_exec_units_routes_all_or_nothing_proof. Qed.
Print Assumptions g_exec_units_routes_all_or_nothing.

(* [subs_fresh] cannot be dropped: a sub-move listing its gaps in decreasing
   order is executed "Done" on a broken route, and the later undo fails *)
Theorem Units_subs_fresh_needed :
  exists gi s id subs s',
    wf_input (gi_inp gi) /\ routes_ok (gi_inp gi) s /\
    g_exec_units gi s id subs = (s', UndoFailed) /\
    st_routes s' <> st_routes s /\ ~ subs_fresh gi (move_to_planned s id) subs.
Proof. exact subs_fresh_needed. Qed.
Print Assumptions Units_subs_fresh_needed.

(* Done books the group; this half needs no hypothesis *)
Theorem g_exec_units_done_colls : forall gi s id subs s',
  g_exec_units gi s id subs = (s', Done) ->
  In id (st_planned s') /\ ~ In id (st_unplanned s').
Proof. exact g_exec_units_done_colls_proof. Qed.
Print Assumptions g_exec_units_done_colls.

(* ... and every member is planned when the sub-moves cover the members *)
Theorem g_exec_units_done_books_group : forall gi s id subs s',
  wf_input (gi_inp gi) -> routes_ok (gi_inp gi) s ->
  subs_fresh gi (move_to_planned s id) subs ->
  members_of gi id <> [] -> incl (members_of gi id) (map sb_unit subs) ->
  g_exec_units gi s id subs = (s', Done) ->
  In id (st_planned s') /\ ~ In id (st_unplanned s') /\ top_planned gi s' id = true.
Proof. exact g_exec_units_done_books_group_proof. Qed.
Print Assumptions g_exec_units_done_books_group.
