(* C10: the enumeration behind best-move search; model: NR.Model.Search.
   Proofs are in NR.Proofs.Search_proofs; this file only states the theorems.

   Definitions used in the statements that are not part of the model (they are
   in NR.Proofs.Search_proofs):

   arcs_wf stops arcs :=
     (forall o d dir, In (o,d,dir) arcs -> In o stops /\ In d stops) /\
     (forall o d1 d2, In (o,d1,true) arcs -> In (o,d2,true) arcs -> d1 = d2)
       endpoints are stops of the unit; at most one direct successor per stop.
       Acyclicity and "at most one direct predecessor" are NOT needed by 4 and 5.
   arcs_wf_strict stops arcs := arcs_wf stops arcs /\
     (forall o1 o2 d, In (o1,d,true) arcs -> In (o2,d,true) arcs -> o1 = o2) /\
     (exists l, In l (all_orders stops (erase_direct arcs)))
       used for the witnesses of the refutations (the stronger the better there).
   tape_ok_gen reset stops arcs sample tape :=
     seqgen_ok reset (S (length stops)) stops arcs [] [] None
               (mkSg [] sample tape (initial_deg stops arcs)) = true
       an executable check that follows the run of seqgen: every tape element
       consumed by a Perm(n) call (n = number of stops for the candidate order,
       n = number of outbound arcs, when that is not 1, for the arc order) is a
       permutation of 0..n-1.  Which element feeds which call depends on the
       run, so the condition cannot be stated on the tape alone.
   tape_ok := tape_ok_gen true. *)

From Coq Require Import List Bool Arith ZArith Permutation Sorted.
From NR Require Import Model.Search Proofs.Search_proofs.
Import ListNotations.

(* ---- 1. combineAscending: exactly the non-decreasing tuples over 1..m, once each *)
Theorem C10_combine_ascending_spec : forall n m p,
  In p (all_combinations n m) <->
  length p = n /\ nondecreasing p = true /\ Forall (fun g => 1 <= g <= m) p.
Proof. exact C10_combine_ascending_spec_proof. Qed.
Print Assumptions C10_combine_ascending_spec.

Theorem C10_combine_ascending_nodup : forall n m, NoDup (all_combinations n m).
Proof. exact C10_combine_ascending_nodup_proof. Qed.
Print Assumptions C10_combine_ascending_nodup.

(* ---- 2. generate: exactly the acceptable placements, once each (no side condition:
   [pair] is never consulted for the first stop, and the "no previous stop" encoding
   prev = 0 cannot be confused with a gap, gaps being >= 1) *)
Theorem C10_generate_spec : forall split pair n m p,
  In p (generate_all split pair n m) <-> placement_ok split pair n m p = true.
Proof. exact C10_generate_spec_proof. Qed.
Print Assumptions C10_generate_spec.

Theorem C10_generate_nodup : forall split pair n m, NoDup (generate_all split pair n m).
Proof. exact C10_generate_nodup_proof. Qed.
Print Assumptions C10_generate_nodup.

(* ---- 3. allowed orders of a unit (NoDup stops is not needed for the equivalence) *)
Theorem C10_all_orders_spec : forall stops arcs l,
  In l (all_orders stops arcs) <-> Permutation l stops /\ order_ok arcs l = true.
Proof. exact C10_all_orders_spec_proof. Qed.
Print Assumptions C10_all_orders_spec.

Theorem C10_all_orders_nodup : forall stops arcs, NoDup stops -> NoDup (all_orders stops arcs).
Proof. exact all_orders_nodup. Qed.
Print Assumptions C10_all_orders_nodup.

(* ---- 4. the order sampler only yields allowed orders: every valid tape, the current
   code (reset = true) and the code before the fix (reset = false) *)
Theorem C10_sequence_generator_sound : forall reset stops arcs sample tape l,
  NoDup stops -> arcs_wf stops arcs -> tape_ok_gen reset stops arcs sample tape ->
  In l (sequence_generator_gen reset stops arcs sample tape) -> In l (all_orders stops arcs).
Proof. exact C10_sequence_generator_sound_proof. Qed.
Print Assumptions C10_sequence_generator_sound.

(* REFUTED without the tape hypothesis: a tape whose elements are not the
   permutations rand.Perm would return makes the model yield a forbidden order
   (a direct pair is separated) *)
Theorem C10_sequence_generator_garbage_tape_refuted :
  exists stops arcs sample tape l,
    NoDup stops /\ arcs_wf_strict stops arcs /\
    In l (sequence_generator stops arcs sample tape) /\ ~ In l (all_orders stops arcs).
Proof. exact C10_sequence_generator_garbage_tape_refuted_proof. Qed.
Print Assumptions C10_sequence_generator_garbage_tape_refuted.

(* the tape hypothesis is satisfiable for every instance *)
Theorem C10_tape_ok_nil : forall reset stops arcs sample, tape_ok_gen reset stops arcs sample [].
Proof. exact tape_ok_nil. Qed.
Print Assumptions C10_tape_ok_nil.

(* ---- 5. current code: with a sufficient budget every allowed order is yielded,
   exactly once (general statement, direct arcs included) *)
Theorem C10_sequence_generator_complete : forall stops arcs sample tape,
  NoDup stops -> arcs_wf stops arcs -> tape_ok stops arcs sample tape ->
  (Z.of_nat (length (all_orders stops arcs)) <= sample)%Z ->
  forall l, In l (all_orders stops arcs) -> In l (sequence_generator stops arcs sample tape).
Proof. exact C10_sequence_generator_complete_proof. Qed.
Print Assumptions C10_sequence_generator_complete.

(* no order is yielded twice (any budget, both versions of the code) *)
Theorem C10_sequence_generator_nodup : forall reset stops arcs sample tape,
  NoDup stops -> arcs_wf stops arcs -> tape_ok_gen reset stops arcs sample tape ->
  NoDup (sequence_generator_gen reset stops arcs sample tape).
Proof. exact C10_sequence_generator_nodup_proof. Qed.
Print Assumptions C10_sequence_generator_nodup.

Theorem C10_sequence_generator_exact : forall stops arcs sample tape,
  NoDup stops -> arcs_wf stops arcs -> tape_ok stops arcs sample tape ->
  (Z.of_nat (length (all_orders stops arcs)) <= sample)%Z ->
  Permutation (sequence_generator stops arcs sample tape) (all_orders stops arcs).
Proof. exact C10_sequence_generator_exact_proof. Qed.
Print Assumptions C10_sequence_generator_exact.

(* ---- 6. REFUTED for the code before the fix: a stale direct successor hides an allowed
   order although the budget suffices; the current code finds it on the same input *)
Theorem C10_stale_direct_successor_refuted :
  exists stops arcs sample tape l,
    NoDup stops /\ arcs_wf_strict stops arcs /\ tape_ok_gen false stops arcs sample tape /\
    In l (all_orders stops arcs) /\
    (Z.of_nat (length (all_orders stops arcs)) <= sample)%Z /\
    ~ In l (sequence_generator_stale stops arcs sample tape) /\
    tape_ok stops arcs sample tape /\
    In l (sequence_generator stops arcs sample tape).
Proof. exact C10_stale_direct_successor_refuted_proof. Qed.
Print Assumptions C10_stale_direct_successor_refuted.

(* ---- 7. single-stop fast path.  [sorted_by_cost] is any cost-sorted permutation; the
   SkipVehicle hint is only trusted on the first position, so hint soundness is only
   assumed for positions 1..m *)
Theorem C10_single_stop_executable_iff :
  forall (cost : nat -> Z) (m : nat) (allowed skip : nat -> bool) (coins : list bool)
         (sorted_by_cost : list nat -> list nat),
  (forall l, Permutation (sorted_by_cost l) l /\
             Sorted (fun a b => (cost a <= cost b)%Z) (sorted_by_cost l)) ->
  (forall g, 1 <= g <= m -> allowed g = false -> skip g = true ->
             forall g', 1 <= g' <= m -> allowed g' = false) ->
  best_single_stop m allowed skip cost coins sorted_by_cost <> None <->
  exists g, 1 <= g <= m /\ allowed g = true.
Proof. exact C10_single_stop_executable_iff_proof. Qed.
Print Assumptions C10_single_stop_executable_iff.

Theorem C10_single_stop_minimal :
  forall (cost : nat -> Z) (m : nat) (allowed skip : nat -> bool) (coins : list bool)
         (sorted_by_cost : list nat -> list nat),
  (forall l, Permutation (sorted_by_cost l) l /\
             Sorted (fun a b => (cost a <= cost b)%Z) (sorted_by_cost l)) ->
  (forall g, 1 <= g <= m -> allowed g = false -> skip g = true ->
             forall g', 1 <= g' <= m -> allowed g' = false) ->
  forall g, best_single_stop m allowed skip cost coins sorted_by_cost = Some g ->
  allowed g = true /\ 1 <= g <= m /\
  forall g', 1 <= g' <= m -> allowed g' = true -> (cost g <= cost g')%Z.
Proof. exact C10_single_stop_minimal_proof. Qed.
Print Assumptions C10_single_stop_minimal.
