(* C15: iteration budget, accounting, parallelism bound, barrier, closing.

   Model: NR.Model.SolverLoop (parallel solver as a labelled transition
   system; a schedule is any list of actions, disabled actions are skipped, so
   "for every schedule" covers all interleavings and all oracle values).
   Proofs: NR.Proofs.SolverLoop_proofs; this file only states the theorems.

   [all_enabled st k] : every action of [k] is enabled when it is taken from [st]
   [queued st]        : number of scores queued on worker channels
   [never_ran w]      : w = WNew \/ w = WParked \/ w = WDone 0 0 *)

From Coq Require Import List ZArith.
From NR Require Import Model.SolverLoop Proofs.SolverLoop_proofs.
Import ListNotations.
Open Scope Z_scope.

Theorem C15_budget : forall iters runs det s0 starts sched,
  0 <= iters ->
  let st := prun (pinit iters runs det s0 starts) sched in
  p_total st <= iters.
Proof. exact C15_budget_proof. Qed.
Print Assumptions C15_budget.

(* the counter read at close equals the iterations performed by the workers;
   no worker exceeds its grant; the grants never exceed the budget *)
Theorem C15_reported_equals_performed : forall iters runs det s0 starts sched,
  0 <= iters ->
  let st := prun (pinit iters runs det s0 starts) sched in
  p_total st = fold_right Z.add 0 (map w_done (p_workers st)) /\
  Forall (fun w => 0 <= w_done w <= w_granted w) (p_workers st) /\
  fold_right Z.add 0 (map w_granted (p_workers st)) <= iters.
Proof. exact C15_reported_equals_performed_proof. Qed.
Print Assumptions C15_reported_equals_performed.

(* a positive budget that is used up cancels the run *)
Theorem C15_exhausted_cancels : forall iters runs det s0 starts sched,
  0 < iters ->
  let st := prun (pinit iters runs det s0 starts) sched in
  p_total st = iters -> p_cancelled st = true.
Proof. exact C15_exhausted_cancels_proof. Qed.
Print Assumptions C15_exhausted_cancels.

(* never more than parallelRuns workers at once; no hypothesis on [runs] or
   [iters] is needed: with runs = 0 no worker is ever spawned *)
Theorem C15_parallelism_bound : forall iters runs det s0 starts sched,
  let st := prun (pinit iters runs det s0 starts) sched in
  (active_count (p_workers st) <= p_runs st)%nat /\ p_runs st = runs.
Proof. exact C15_parallelism_bound_proof. Qed.
Print Assumptions C15_parallelism_bound.

Theorem C15_zero_runs : forall iters det s0 starts sched,
  p_workers (prun (pinit iters 0%nat det s0 starts) sched) = [].
Proof. exact C15_zero_runs_proof. Qed.
Print Assumptions C15_zero_runs.

(* closed => dispatcher returned, nothing pending, all workers returned; and
   closed is absorbing for the observable part *)
Theorem C15_closed_is_final : forall iters runs det s0 starts sched,
  let st := prun (pinit iters runs det s0 starts) sched in
  p_closed st = true ->
  (p_disp_done st = true /\ p_pending st = None /\ active_count (p_workers st) = 0%nat) /\
  (forall k, let st' := prun st k in
             p_agg st' = p_agg st /\ p_total st' = p_total st /\ p_closed st' = true).
Proof. exact C15_closed_is_final_proof. Qed.
Print Assumptions C15_closed_is_final.

(* stronger: after close no action changes the state at all *)
Theorem C15_closed_is_absorbing : forall iters runs det s0 starts sched,
  let st := prun (pinit iters runs det s0 starts) sched in
  p_closed st = true -> forall k, prun st k = st.
Proof. exact C15_closed_is_absorbing_proof. Qed.
Print Assumptions C15_closed_is_absorbing.

(* no reachable state is a deadlock: a continuation of enabled actions
   (cancel, flush, drain the workers, dispatcher exit, close) closes the
   result channel within a number of steps bounded by the state *)
Theorem C15_can_always_close : forall iters runs det s0 starts sched,
  let st := prun (pinit iters runs det s0 starts) sched in
  exists k, all_enabled st k /\ p_closed (prun st k) = true /\
            (length k <= 4 + 2 * length (p_workers st) + 2 * queued st)%nat.
Proof. exact C15_can_always_close_proof. Qed.
Print Assumptions C15_can_always_close.

(* the same from ANY state of the model, reachable or not *)
Theorem C15_can_always_close_any_state : forall st,
  exists k, all_enabled st k /\ p_closed (prun st k) = true /\
            (length k <= 4 + 2 * length (p_workers st) + 2 * queued st)%nat.
Proof. exact C15_can_always_close_any_state_proof. Qed.
Print Assumptions C15_can_always_close_any_state.

(* zero budget: nothing is ever iterated and no worker ever runs (every
   worker that grabs parks) *)
Theorem C15_zero_budget : forall iters runs det s0 starts sched,
  iters = 0 ->
  let st := prun (pinit iters runs det s0 starts) sched in
  p_total st = 0 /\ p_left st <= 0 /\ Forall never_ran (p_workers st).
Proof. exact C15_zero_budget_proof. Qed.
Print Assumptions C15_zero_budget.

(* step form, any state: without budget left a grabbing worker parks *)
Theorem C15_grab_without_budget_parks : forall st r opt st',
  p_left st <= 0 -> pstep st (AGrab r opt) = Some st' ->
  nth_error (p_workers st') r = Some WParked /\ p_total st' = p_total st.
Proof. exact grab_without_budget_parks_proof. Qed.
Print Assumptions C15_grab_without_budget_parks.

(* barrier, guard form (any state): in deterministic mode a cycle can only
   end when no worker is active *)
Theorem C15_barrier : forall st st',
  p_deterministic st = true -> pstep st ACycleEnd = Some st' ->
  active_count (p_workers st) = 0%nat.
Proof. exact C15_barrier_guard_proof. Qed.
Print Assumptions C15_barrier.

(* barrier, reachable-state form: in deterministic mode every worker spawned
   before the current cycle (index below length - p_in_cycle) has returned, so
   workers of different cycles are never active together and no worker is ever
   spawned while a worker of an earlier cycle is active *)
Theorem C15_barrier_cycles_disjoint : forall iters runs s0 starts sched,
  let st := prun (pinit iters runs true s0 starts) sched in
  p_deterministic st = true /\
  forall r w, (r + p_in_cycle st < length (p_workers st))%nat ->
              nth_error (p_workers st) r = Some w -> is_active w = false.
Proof. exact C15_barrier_proof. Qed.
Print Assumptions C15_barrier_cycles_disjoint.
