(* C08: the planned / unplanned bookkeeping is a partition of the plan units
   and agrees with what is on the routes.

   Model: NR.Model.Engine; proofs: NR.Proofs.Engine_inv, NR.Proofs.Engine_spec.
   This file only states the theorems.
   [reachable inp s]: see Props/C04.v (C04_reachable_unfold).
   Scope: stops units.  Plan-units units (stop groups, alternates) have their
   own bookkeeping in the code and are not in this model. *)

From Coq Require Import List ZArith.
From NR Require Import Model.Engine Proofs.Engine_inv Proofs.Engine_spec.
Import ListNotations.

(* every unit is in exactly one of planned / unplanned; nothing is fixed; no
   duplicates; nothing else is listed *)
Theorem C08_partition : forall inp s,
  wf_input inp -> reachable inp s ->
  (forall u, (u < nunits inp)%nat ->
     (In u (st_planned s) /\ ~ In u (st_unplanned s)) \/
     (~ In u (st_planned s) /\ In u (st_unplanned s))) /\
  st_fixed s = [] /\ NoDup (st_planned s) /\ NoDup (st_unplanned s) /\
  (forall u, In u (st_planned s) \/ In u (st_unplanned s) -> (u < nunits inp)%nat).
Proof. exact C08_partition_proof. Qed.
Print Assumptions C08_partition.

(* planned = all stops on routes; unplanned = no stop on any route *)
Theorem C08_planned_iff_on_routes : forall inp s u,
  wf_input inp -> reachable inp s -> (u < nunits inp)%nat ->
  (In u (st_planned s) <->
     forall x, In x (iu_stops (get_unit inp u)) -> stop_on_route s x = true) /\
  (In u (st_unplanned s) <->
     forall x, In x (iu_stops (get_unit inp u)) -> stop_on_route s x = false).
Proof. exact C08_planned_iff_on_routes_proof. Qed.
Print Assumptions C08_planned_iff_on_routes.

Theorem C08_unplanned_disjoint_from_routes : forall inp s u x v,
  wf_input inp -> reachable inp s ->
  In u (st_unplanned s) -> In x (iu_stops (get_unit inp u)) -> (v < nveh inp)%nat ->
  ~ In x (route_stops (get_route s v)).
Proof. exact C08_unplanned_disjoint_from_routes_proof. Qed.
Print Assumptions C08_unplanned_disjoint_from_routes.
