(* Grants: the iteration grants of the parallel solver do not depend on the
   schedule.

   Model: NR.Model.SolverLoop section 3 (parallel solver as a labelled
   transition system; a schedule is any list of actions, disabled actions are
   skipped, so "for every schedule" covers all interleavings).
   Proofs: NR.Proofs.Grants_proofs; this file only states the theorems.

   The differential test drives the Go solver with scripted per-run
   allotments and compares the multiset of iterations granted to the started
   solvers and the final iteration count with the model run on ONE sequential
   schedule.  The theorems below justify that comparison.

   Condition on schedules (written out in every statement):
     every [AGrab r opt] has opt = a (Part 2) resp. opt = allot r (Part 3)
     and there is no [ACancel]: the context is then only cancelled by the
     Iterated handler inside [AIterate] when the budget is used up.

   Definitions from Grants_proofs:
   [pgrabs st sched]  ghost: (worker index, requested opt, obtained grant) of
                      every ENABLED AGrab of [sched], in the order they happen
   [grab_idx] [grab_opts] [grab_grants]   the three projections of that list
   [clamp left opts]  clamp left (o :: os) = max 0 (min left o) :: clamp (left - o) os
   [grabbed w]        w is not WNew (the worker has executed its grab)
   [canon left allot r fuel]  sequential grants of workers r, r+1, ...:
                      canon left allot r (S f) = if left <= 0 then []
                        else min left (allot r) :: canon (left - allot r) allot (S r) f *)

From Coq Require Import List ZArith Permutation.
From NR Require Import Model.SolverLoop Proofs.SolverLoop_proofs Proofs.Grants_proofs.
Import ListNotations.
Open Scope Z_scope.

(* ---------------- Part 1: exact accounting ---------------- *)

(* the grants add up to the budget minus what is left (clamped at 0);
   iterationsLeft is the budget minus everything requested so far; the grants
   are the clamped requests in grab order and the nonzero grants held by the
   workers are a permutation of them.  Any schedule, any allotments. *)
Theorem Grants_sum_le_budget : forall N runs det s0 starts sched,
  0 <= N ->
  let st := prun (pinit N runs det s0 starts) sched in
  let grabs := pgrabs (pinit N runs det s0 starts) sched in
  fold_right Z.add 0 (map w_granted (p_workers st)) = N - Z.max 0 (p_left st) /\
  fold_right Z.add 0 (map w_granted (p_workers st)) <= N /\
  p_left st = N - fold_right Z.add 0 (grab_opts grabs) /\
  grab_grants grabs = clamp N (grab_opts grabs) /\
  Permutation (filter (fun g => 0 <? g) (map w_granted (p_workers st)))
              (filter (fun g => 0 <? g) (grab_grants grabs)).
Proof. exact Grants_sum_le_budget_proof. Qed.
Print Assumptions Grants_sum_le_budget.

(* ---------------- Part 2: uniform allotment a ---------------- *)

(* any reachable state: the nonzero grants in the order the grabs happened
   are a prefix of the canonical list a, ..., a, N mod a, and the workers hold
   a permutation of them *)
Theorem Grants_prefix_of_allotments : forall N runs det s0 starts a sched,
  0 < a -> 0 < N ->
  Forall (fun x => match x with AGrab _ opt => opt = a | ACancel => False | _ => True end) sched ->
  let st := prun (pinit N runs det s0 starts) sched in
  let grabs := pgrabs (pinit N runs det s0 starts) sched in
  let canonical := repeat a (Z.to_nat (N / a)) ++ (if N mod a =? 0 then [] else [N mod a]) in
  Permutation (filter (fun g => 0 <? g) (map w_granted (p_workers st)))
              (filter (fun g => 0 <? g) (grab_grants grabs)) /\
  filter (fun g => 0 <? g) (grab_grants grabs) = firstn (length grabs) canonical /\
  p_left st = N - Z.of_nat (length grabs) * a.
Proof. exact Grants_prefix_of_allotments_proof. Qed.
Print Assumptions Grants_prefix_of_allotments.

(* main theorem: once the budget has cancelled the run, the multiset of
   nonzero grants is a, ..., a, N mod a and exactly N iterations were done *)
Theorem Grants_equal_allotments_multiset : forall N runs det s0 starts a sched,
  0 < a -> 0 < N ->
  Forall (fun x => match x with AGrab _ opt => opt = a | ACancel => False | _ => True end) sched ->
  let st := prun (pinit N runs det s0 starts) sched in
  p_cancelled st = true ->
  Permutation (filter (fun g => 0 <? g) (map w_granted (p_workers st)))
              (repeat a (Z.to_nat (N / a)) ++ (if N mod a =? 0 then [] else [N mod a])) /\
  p_total st = N.
Proof. exact Grants_equal_allotments_multiset_proof. Qed.
Print Assumptions Grants_equal_allotments_multiset.

(* the form used by the test: two such schedules are indistinguishable *)
Theorem Grants_schedule_independent : forall N runs det s0 starts a sched1 sched2,
  0 < a -> 0 < N ->
  Forall (fun x => match x with AGrab _ opt => opt = a | ACancel => False | _ => True end) sched1 ->
  Forall (fun x => match x with AGrab _ opt => opt = a | ACancel => False | _ => True end) sched2 ->
  let st1 := prun (pinit N runs det s0 starts) sched1 in
  let st2 := prun (pinit N runs det s0 starts) sched2 in
  p_cancelled st1 = true -> p_cancelled st2 = true ->
  Permutation (filter (fun g => 0 <? g) (map w_granted (p_workers st1)))
              (filter (fun g => 0 <? g) (map w_granted (p_workers st2))) /\
  p_total st1 = p_total st2.
Proof. exact Grants_schedule_independent_proof. Qed.
Print Assumptions Grants_schedule_independent.

(* cancelled by the budget, any scripted allotments, any number of runs:
   every worker performed exactly its grant and the grants add up to N *)
Theorem Grants_cancelled_all_performed : forall N runs det s0 starts allot sched,
  0 < N ->
  Forall (fun x => match x with AGrab r opt => opt = allot r | ACancel => False | _ => True end) sched ->
  let st := prun (pinit N runs det s0 starts) sched in
  p_cancelled st = true ->
  p_total st = N /\ p_left st <= 0 /\
  fold_right Z.add 0 (map w_granted (p_workers st)) = N /\
  Forall (fun w => w_done w = w_granted w) (p_workers st).
Proof. exact Grants_cancelled_all_performed_proof. Qed.
Print Assumptions Grants_cancelled_all_performed.

(* ---------------- Part 3: one run at a time ---------------- *)

(* runs = 1, any schedule: at most one worker is active, every worker but the
   last one has returned (worker r+1 exists only if worker r is WDone), the
   grabs happen in worker-index order, and the grants of the workers that
   have grabbed, in index order, are the grants in grab order *)
Theorem Grants_sequential_one_active : forall N det s0 starts sched,
  let st := prun (pinit N 1%nat det s0 starts) sched in
  let grabs := pgrabs (pinit N 1%nat det s0 starts) sched in
  (active_count (p_workers st) <= 1)%nat /\
  (forall r w, nth_error (p_workers st) r = Some w ->
               (S r < length (p_workers st))%nat -> is_active w = false) /\
  grab_idx grabs = seq 0 (length grabs) /\
  map w_granted (filter grabbed (p_workers st)) = grab_grants grabs.
Proof. exact Grants_sequential_one_active_proof. Qed.
Print Assumptions Grants_sequential_one_active.

(* any reachable state: the nonzero grants in worker-index order are the
   canonical sequential grants of the k workers that have grabbed *)
Theorem Grants_sequential_prefix : forall N det s0 starts allot sched,
  (forall r, 0 < allot r) -> 0 < N ->
  Forall (fun x => match x with AGrab r opt => opt = allot r | ACancel => False | _ => True end) sched ->
  let st := prun (pinit N 1%nat det s0 starts) sched in
  let k := length (filter grabbed (p_workers st)) in
  filter (fun g => 0 <? g) (map w_granted (p_workers st)) = canon N allot 0 k /\
  p_left st = N - fold_right Z.add 0 (map allot (seq 0 k)).
Proof. exact Grants_sequential_prefix_proof. Qed.
Print Assumptions Grants_sequential_prefix.

(* cancelled by the budget: the nonzero grants in worker-index order are
   exactly the clamped prefix of allot 0, allot 1, ... (for any fuel that is
   at least the budget or at least the number of workers) and N iterations
   were done *)
Theorem Grants_sequential_order : forall N det s0 starts allot sched,
  (forall r, 0 < allot r) -> 0 < N ->
  Forall (fun x => match x with AGrab r opt => opt = allot r | ACancel => False | _ => True end) sched ->
  let st := prun (pinit N 1%nat det s0 starts) sched in
  p_cancelled st = true ->
  (forall fuel, (Z.to_nat N <= fuel)%nat \/ (length (p_workers st) <= fuel)%nat ->
     filter (fun g => 0 <? g) (map w_granted (p_workers st)) = canon N allot 0 fuel) /\
  p_total st = N.
Proof. exact Grants_sequential_order_proof. Qed.
Print Assumptions Grants_sequential_order.

(* ---------------- Part 4: non-vacuity ---------------- *)

(* budget 70, four runs, allotment 20: two different interleavings (grab
   orders 1,0,2,3 and 3,2,1,0 then a parked fifth worker) both satisfy the
   hypotheses of the main theorem, end cancelled with 70 iterations, hold
   different grants per worker index and the same multiset 20,20,20,10 *)
Theorem Grants_canonical_schedule_example :
  let init := pinit 70 4%nat false 100 [] in
  let scripted := Forall (fun x => match x with
                                   | AGrab _ opt => opt = 20 | ACancel => False | _ => True end) in
  let sched1 :=
    [ASpawn; ASpawn; AGrab 1 20; AGrab 0 20; ASpawn; AGrab 2 20; ASpawn; AGrab 3 20]
    ++ flat_map (fun _ => [AIterate 0; AIterate 3; AIterate 1; AIterate 2]) (seq 0 20)
    ++ [AFinish 0; AFinish 1; AFinish 2; AFinish 3; ADispatcherExit; AClose] in
  let sched2 :=
    [ASpawn; ASpawn; ASpawn; ASpawn; AGrab 3 20; AGrab 2 20; AGrab 1 20; AGrab 0 20]
    ++ flat_map (fun _ => [AIterate 3]) (seq 0 20)
    ++ [AFinish 3; ACycleEnd; ASpawn; AGrab 4 20]
    ++ flat_map (fun _ => [AIterate 2; AIterate 0; AIterate 1]) (seq 0 20)
    ++ [AFinish 0; AFinish 1; AFinish 2; AFinish 4; ADispatcherExit; AClose] in
  let st1 := prun init sched1 in
  let st2 := prun init sched2 in
  (scripted sched1 /\ scripted sched2) /\
  (p_cancelled st1 = true /\ p_closed st1 = true /\ p_total st1 = 70 /\
   map w_granted (p_workers st1) = [20; 20; 20; 10] /\
   grab_idx (pgrabs init sched1) = [1; 0; 2; 3]%nat /\
   Permutation (filter (fun g => 0 <? g) (map w_granted (p_workers st1))) [20; 20; 20; 10]) /\
  (p_cancelled st2 = true /\ p_closed st2 = true /\ p_total st2 = 70 /\
   map w_granted (p_workers st2) = [10; 20; 20; 20; 0] /\
   grab_idx (pgrabs init sched2) = [3; 2; 1; 0; 4]%nat /\
   Permutation (filter (fun g => 0 <? g) (map w_granted (p_workers st2))) [20; 20; 20; 10]) /\
  repeat 20 (Z.to_nat (70 / 20)) ++ (if 70 mod 20 =? 0 then [] else [70 mod 20]) = [20; 20; 20; 10].
Proof. exact Grants_canonical_schedule_example_proof. Qed.
Print Assumptions Grants_canonical_schedule_example.

(* runs = 1, allotments 30, 25, 40: grants 30, 25, 15 in index order *)
Theorem Grants_sequential_example :
  let allot := fun r : nat => match r with 0%nat => 30 | 1%nat => 25 | _ => 40 end in
  let sched :=
    [ASpawn; AGrab 0 30] ++ flat_map (fun _ => [AIterate 0]) (seq 0 30)
    ++ [AFinish 0; ACycleEnd; ASpawn; AGrab 1 25] ++ flat_map (fun _ => [AIterate 1]) (seq 0 25)
    ++ [AFinish 1; ACycleEnd; ASpawn; AGrab 2 40] ++ flat_map (fun _ => [AIterate 2]) (seq 0 40)
    ++ [AFinish 2; ADispatcherExit; AClose] in
  let st := prun (pinit 70 1%nat true 100 []) sched in
  Forall (fun x => match x with
                   | AGrab r opt => opt = allot r | ACancel => False | _ => True end) sched /\
  p_cancelled st = true /\ p_closed st = true /\ p_total st = 70 /\
  map w_granted (p_workers st) = [30; 25; 15] /\
  canon 70 allot 0 70 = [30; 25; 15].
Proof. exact Grants_sequential_example_proof. Qed.
Print Assumptions Grants_sequential_example.
