(* C20: the solution output is a faithful projection of the solution.

   Model: NR.Model.Format (format_solution = factory/format.go
   ToSolutionOutput on the integer domain) over NR.Model.Engine states.
   Proofs: NR.Proofs.C20_proofs.  This file only states the theorems.
   [reachable inp s]: see Props/C04.v.
   [interior_stops s] (NR.Proofs.Engine_inv): the stops of all routes without
   each vehicle's first and last stop, i.e. the planned input stops. *)

From Coq Require Import List ZArith Permutation.
From NR Require Import Model.Engine Model.Format Proofs.Engine_inv Proofs.Engine_spec
     Proofs.C20_proofs.
Import ListNotations.
Open Scope Z_scope.

(* every input stop is reported exactly once: as unplanned or on a route *)
Theorem C20_each_input_stop_once : forall inp s,
  wf_input inp -> reachable inp s ->
  Permutation (out_unplanned (format_solution inp s) ++ interior_stops s)
              (seq 0 (nstops inp)).
Proof. exact C20_each_input_stop_once_proof. Qed.
Print Assumptions C20_each_input_stop_once.

(* the vehicles of the output are the routes of the solution, in order ... *)
Theorem C20_vehicles : forall inp s,
  length (out_vehicles (format_solution inp s)) = length (st_routes s) /\
  forall v d, (v < length (st_routes s))%nat ->
    nth v (out_vehicles (format_solution inp s)) d = vehicle_output inp v (get_route s v).
Proof. exact C20_vehicles_proof. Qed.
Print Assumptions C20_vehicles.

(* ... and a vehicle lists the stops of its route that have a valid location
   (a missing start / end location is not listed), in route order *)
Theorem C20_listed_stops : forall inp v r,
  map so_stop (vo_route (vehicle_output inp v r)) = filter (loc_valid inp) (route_stops r).
Proof. exact C20_listed_stops_proof. Qed.
Print Assumptions C20_listed_stops.

(* the values reported per listed stop, by definition of the formatter:
   [with_prev first r] pairs every cell with its predecessor *)
Theorem C20_values_by_definition : forall inp v r,
  map (fun o => (so_stop o, so_travel o, so_cumtravel o, so_duration o, so_waiting o))
      (vo_route (vehicle_output inp v r))
  = map (fun pc => (c_stop (snd pc), c_cumtravel (snd pc) - c_cumtravel (fst pc),
                    c_cumtravel (snd pc), c_end (snd pc) - c_start (snd pc),
                    c_start (snd pc) - c_arrival (snd pc)))
        (filter (fun pc => loc_valid inp (c_stop (snd pc)))
                (with_prev (hd (last_cell r) r) r)).
Proof. exact C20_values_by_definition_proof. Qed.
Print Assumptions C20_values_by_definition.

(* on reachable states they are the solution's own cached values: the reported
   travel duration is the cell's travel duration *)
Theorem C20_values_are_the_solutions : forall inp s v,
  wf_input inp -> reachable inp s -> (v < nveh inp)%nat ->
  map (fun o => (so_stop o, so_travel o, so_cumtravel o, so_duration o, so_waiting o))
      (vo_route (vehicle_output inp v (get_route s v)))
  = map (fun c => (c_stop c, c_travel c, c_cumtravel c, c_end c - c_start c,
                   c_start c - c_arrival c))
        (filter (fun c => loc_valid inp (c_stop c)) (get_route s v)).
Proof. exact C20_values_are_the_solutions_proof. Qed.
Print Assumptions C20_values_are_the_solutions.

(* the vehicle aggregates, by definition; waiting is computed as
   duration - travel - stops duration ... *)
Theorem C20_vehicle_aggregates : forall inp v r,
  vo_duration (vehicle_output inp v r) = c_end (last_cell r) - c_start (hd (last_cell r) r) /\
  vo_travel (vehicle_output inp v r) = c_cumtravel (last_cell r) /\
  vo_stops_duration (vehicle_output inp v r)
  = sumZ (map so_duration (vo_route (vehicle_output inp v r))) /\
  vo_waiting (vehicle_output inp v r)
  = vo_duration (vehicle_output inp v r) - vo_travel (vehicle_output inp v r)
    - vo_stops_duration (vehicle_output inp v r).
Proof. exact C20_vehicle_aggregates_proof. Qed.
Print Assumptions C20_vehicle_aggregates.

(* ... and that really is the total waiting: the sum of start - arrival over
   the non-first cells of the route, listed or not (stops without a valid
   location are vehicle start / end stops: they have no own duration and, by
   wf_input, are in no duration group, so they take no time whatever stop is
   in front of them and leaving them out of the stops duration loses nothing:
   C20_proofs.stop_duration_invalid, stop_duration_at_invalid,
   stop_duration_on_invalid: scaling 0 by the vehicle's stop duration
   multiplier gives 0).  The duration reported for a stop is end - start of its
   cell: the own duration and -- when the stop in front of it is not in the
   stop's group -- the group duration, each scaled by the vehicle's multiplier. *)
Theorem C20_waiting_is_sum_of_waits : forall inp s v,
  wf_input inp -> reachable inp s -> (v < nveh inp)%nat ->
  vo_waiting (vehicle_output inp v (get_route s v))
  = sumZ (map (fun c => c_start c - c_arrival c) (tl (get_route s v))).
Proof. exact C20_waiting_is_sum_of_waits_proof. Qed.
Print Assumptions C20_waiting_is_sum_of_waits.

(* the objective value is the sum of the reported terms, which are the
   recomputation of the objective terms on the solution *)
Theorem C20_total_is_sum : forall inp s,
  wf_input inp -> reachable inp s ->
  out_total (format_solution inp s) = sumZ (out_terms (format_solution inp s)) /\
  out_terms (format_solution inp s) = score_terms inp s.
Proof. exact C20_total_is_sum_proof. Qed.
Print Assumptions C20_total_is_sum.

(* non-vacuity (Proofs/C20_proofs.v): a vehicle without start / end location
   waiting 3600 s for a window; only the input stop is listed *)
Theorem C20_example_unlisted_ends :
  route_stops (get_route ex20_s1 0) = [1; 0; 2]%nat /\
  map so_stop (vo_route (vehicle_output ex20_inp 0 (get_route ex20_s1 0))) = [0%nat] /\
  vo_waiting (vehicle_output ex20_inp 0 (get_route ex20_s1 0)) = 3600.
Proof. exact ex20_unlisted_ends. Qed.
Print Assumptions C20_example_unlisted_ends.
