(* C07: executing a move and un-planning a unit are all-or-nothing: either
   the operation completes (Done) or the solution is observably unchanged,
   and the rollback itself never fails.

   Model: NR.Model.Engine (exec_move = solutionMoveStopsImpl.Execute,
   unplan_unit = solutionPlanStopsUnitImpl.UnPlan); proofs: NR.Proofs.Engine_inv,
   NR.Proofs.Engine_spec.  This file only states the theorems.
   [reachable inp s]: see Props/C04.v (C04_reachable_unfold).
   [same_obs a b]: same routes (all cells), same planned / unplanned / fixed
   sets, same scores and total.
   Scope: stops units; plan-units units (stop groups), whose UnPlan ignores a
   failing child, are not in this model. *)

From Coq Require Import List ZArith.
From NR Require Import Model.Engine Proofs.Engine_inv Proofs.Engine_spec.
Import ListNotations.

Theorem C07_exec_move_all_or_nothing : forall inp s mv s' r,
  wf_input inp -> reachable inp s -> move_ok inp s mv -> exec_move inp s mv = (s', r) ->
  (r <> Done -> same_obs s' s) /\
  (r = Done ->
     route_stops (get_route s' (mv_vehicle mv))
     = insert_places 0 (route_stops (get_route s (mv_vehicle mv))) (mv_places mv) /\
     forall v, v <> mv_vehicle mv -> get_route s' v = get_route s v).
Proof. exact C07_exec_move_all_or_nothing_proof. Qed.
Print Assumptions C07_exec_move_all_or_nothing.

Theorem C07_unplan_all_or_nothing : forall inp s u s' r,
  wf_input inp -> reachable inp s -> (u < nunits inp)%nat -> unplan_unit inp s u = (s', r) ->
  (r <> Done -> same_obs s' s) /\
  (r = Done ->
     exists v, (v < nveh inp)%nat /\ vehicle_of_unit inp s u = Some v /\
       (forall x, In x (iu_stops (get_unit inp u)) -> In x (route_stops (get_route s v))) /\
       route_stops (get_route s' v)
       = filter (fun x => negb (mem_nat x (iu_stops (get_unit inp u))))
                (route_stops (get_route s v)) /\
       (forall v', v' <> v -> get_route s' v' = get_route s v') /\
       (forall x, In x (iu_stops (get_unit inp u)) -> stop_on_route s' x = false)).
Proof. exact C07_unplan_all_or_nothing_proof. Qed.
Print Assumptions C07_unplan_all_or_nothing.

(* the rollback (re-checking the old stop sequence) always succeeds *)
Theorem C07_never_undo_failed : forall inp s,
  wf_input inp -> reachable inp s ->
  (forall mv s' r, move_ok inp s mv -> exec_move inp s mv = (s', r) -> r <> UndoFailed) /\
  (forall u s' r, (u < nunits inp)%nat -> unplan_unit inp s u = (s', r) -> r <> UndoFailed).
Proof. exact C07_never_undo_failed_proof. Qed.
Print Assumptions C07_never_undo_failed.

(* Done means complete: every stop of the unit is on the requested vehicle at
   the requested places / no stop of the unit is left on any route; the other
   routes are untouched; the bookkeeping agrees *)
Theorem C07_success_is_complete : forall inp s,
  wf_input inp -> reachable inp s ->
  (forall mv s', move_ok inp s mv -> exec_move inp s mv = (s', Done) ->
     route_stops (get_route s' (mv_vehicle mv))
     = insert_places 0 (route_stops (get_route s (mv_vehicle mv))) (mv_places mv) /\
     (forall x, In x (iu_stops (get_unit inp (mv_unit mv))) ->
                In x (route_stops (get_route s' (mv_vehicle mv)))) /\
     (forall v, v <> mv_vehicle mv -> get_route s' v = get_route s v) /\
     In (mv_unit mv) (st_planned s') /\ ~ In (mv_unit mv) (st_unplanned s')) /\
  (forall u s', (u < nunits inp)%nat -> unplan_unit inp s u = (s', Done) ->
     exists v, (v < nveh inp)%nat /\
       route_stops (get_route s' v)
       = filter (fun x => negb (mem_nat x (iu_stops (get_unit inp u))))
                (route_stops (get_route s v)) /\
       (forall v', v' <> v -> get_route s' v' = get_route s v') /\
       (forall x, In x (iu_stops (get_unit inp u)) -> stop_on_route s' x = false) /\
       In u (st_unplanned s') /\ ~ In u (st_planned s')).
Proof. exact C07_success_is_complete_proof. Qed.
Print Assumptions C07_success_is_complete.

(* Un-plan does NOT preserve the invariant [Inv] taken alone: on a state whose
   unit is split over two routes it cleans only the route of the unit's first
   stop and reports Done.  That witness state satisfies Inv but is not
   reachable: reachable states satisfy InvT = Inv /\ together (a route holding
   one stop of a unit holds all of them), the inductive invariant under which
   the theorems above are proved. *)
Theorem C07_unplan_inv_refuted_without_together :
  exists inp s u s' r,
    wf_input inp /\ Inv inp s /\ (u < nunits inp)%nat /\ unplan_unit inp s u = (s', r) /\
    r = Done /\ ~ Inv inp s'.
Proof. exact unplan_unit_inv_refuted. Qed.
Print Assumptions C07_unplan_inv_refuted_without_together.
