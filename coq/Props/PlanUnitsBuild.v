(* Properties of the grouping of precedence relations into plan units
   (Model/PlanUnitsBuild.v).  Statements only; the proofs are in
   Proofs/PlanUnitsBuild_proofs.v. *)

From Coq Require Import List Arith Bool Permutation.
Import ListNotations.
From NR.Model Require Import PlanUnitsBuild.
From NR.Proofs Require Import PlanUnitsBuild_proofs.

(* ---- 1. the invariant of the loop --------------------------------- *)

(* what [wf_state units m] says *)
Theorem PUB_wf_state_meaning : forall units m,
  wf_state units m <->
  ((forall s i, lookup m s = Some i ->
      i < length units /\ exists u, nth_error units i = Some u /\ In s (ui_stops u)) /\
   (forall i u s, nth_error units i = Some u -> In s (ui_stops u) -> lookup m s = Some i) /\
   (forall u, In u units ->
      NoDup (ui_stops u) /\ ui_stops u <> [] /\ ui_seqs u <> [] /\
      (forall x, In x (ui_stops u) <->
                 exists p s d, In (p, s, d) (ui_seqs u) /\ (x = p \/ x = s)))).
Proof. exact wf_state_unfold. Qed.
Print Assumptions PUB_wf_state_meaning.

Theorem PUB_wf_init : wf_state [] [].
Proof. exact wf_init. Qed.
Print Assumptions PUB_wf_init.

Theorem PUB_wf_step : forall units m q,
  wf_state units m ->
  exists units' m', step_seq true (units, m) q = Some (units', m') /\ wf_state units' m'.
Proof. exact wf_step. Qed.
Print Assumptions PUB_wf_step.

Theorem PUB_wf_step_never_panics : forall units m q,
  wf_state units m -> step_seq true (units, m) q <> None.
Proof. exact wf_step_not_None. Qed.
Print Assumptions PUB_wf_step_never_panics.

(* stop lists of a wf state are pairwise disjoint *)
Theorem PUB_wf_disjoint : forall units m i j u v x,
  wf_state units m ->
  nth_error units i = Some u -> nth_error units j = Some v ->
  In x (ui_stops u) -> In x (ui_stops v) -> i = j.
Proof. exact wf_disjoint. Qed.
Print Assumptions PUB_wf_disjoint.

(* the re-indexing loop after slice element b was removed: the remaining
   elements are the old ones (those after b shifted down by one), every stop of
   a remaining unit is mapped to its new index, and the bindings of the removed
   unit's stops are untouched *)
Theorem PUB_reindex_after_remove : forall units m b old,
  wf_state units m ->
  nth_error units b = Some old ->
  let units1 := remove_nth units b in
  let m1 := reindex units1 0 m in
  (forall i u, nth_error units1 i = Some u ->
     nth_error units (if i <? b then i else S i) = Some u) /\
  (forall i u x, nth_error units1 i = Some u -> In x (ui_stops u) -> lookup m1 x = Some i) /\
  (forall x, In x (ui_stops old) -> lookup m1 x = lookup m x).
Proof. exact reindex_after_remove_wf. Qed.
Print Assumptions PUB_reindex_after_remove.

(* ---- 2. no index out of range -------------------------------------- *)

Theorem PUB_total : forall qs, exists us, all_sequences qs = Some us.
Proof. exact total. Qed.
Print Assumptions PUB_total.

(* ---- 3. every relation ends up in exactly one unit ----------------- *)

Theorem PUB_keeps_every_relation : forall qs us,
  all_sequences qs = Some us -> Permutation (concat (map ui_seqs us)) qs.
Proof. exact keeps_every_relation. Qed.
Print Assumptions PUB_keeps_every_relation.

(* ---- 4. the units are the connected components --------------------- *)

Theorem PUB_units_are_components : forall qs us,
  all_sequences qs = Some us ->
  (* (a) stop lists NoDup and pairwise disjoint *)
  ((forall u, In u us -> NoDup (ui_stops u)) /\
   (forall i j u v x, nth_error us i = Some u -> nth_error us j = Some v ->
      In x (ui_stops u) -> In x (ui_stops v) -> i = j)) /\
  (* (b) the stops of the units are the endpoints of the relations *)
  (forall x, (exists u, In u us /\ In x (ui_stops u)) <->
             (exists p s d, In (p, s, d) qs /\ (x = p \/ x = s))) /\
  (* (c) same unit iff connected *)
  (forall i j u v x y,
     nth_error us i = Some u -> nth_error us j = Some v ->
     In x (ui_stops u) -> In y (ui_stops v) ->
     (i = j <-> connected qs x y)).
Proof. exact units_are_components. Qed.
Print Assumptions PUB_units_are_components.

(* ---- 5. direct flags ----------------------------------------------- *)

Theorem PUB_direct_flags_kept : forall qs us,
  all_sequences qs = Some us ->
  forall p s d, In (p, s, d) qs <-> exists u, In u us /\ In (p, s, d) (ui_seqs u).
Proof. exact direct_flags_kept. Qed.
Print Assumptions PUB_direct_flags_kept.

(* ---- 6. without the re-indexing loop ------------------------------- *)

Theorem PUB_without_reindex_panics : exists qs, all_sequences_gen false qs = None.
Proof. exact without_reindex_panics. Qed.
Print Assumptions PUB_without_reindex_panics.

Theorem PUB_without_reindex_misgroups :
  exists qs us, all_sequences_gen false qs = Some us /\
    ~ (forall i j u v x y,
         nth_error us i = Some u -> nth_error us j = Some v ->
         In x (ui_stops u) -> In y (ui_stops v) ->
         (i = j <-> connected qs x y)).
Proof. exact without_reindex_misgroups. Qed.
Print Assumptions PUB_without_reindex_misgroups.

(* two stops of one output unit that no chain of relations connects *)
Theorem PUB_without_reindex_misgroups_strong :
  exists qs us, all_sequences_gen false qs = Some us /\
    exists u x y, In u us /\ In x (ui_stops u) /\ In y (ui_stops u) /\ ~ connected qs x y.
Proof. exact without_reindex_misgroups_strong. Qed.
Print Assumptions PUB_without_reindex_misgroups_strong.

(* and one stop in two units *)
Theorem PUB_without_reindex_not_disjoint :
  exists qs us, all_sequences_gen false qs = Some us /\
    exists i j u v x, nth_error us i = Some u /\ nth_error us j = Some v /\
      In x (ui_stops u) /\ In x (ui_stops v) /\ i <> j.
Proof. exact without_reindex_not_disjoint. Qed.
Print Assumptions PUB_without_reindex_not_disjoint.

(* ---- 7. concrete runs ---------------------------------------------- *)

Example PUB_example_panic_input_without_reindex :
  all_sequences_gen false
    [(0,1,false);(2,3,false);(4,5,false);(6,2,false);(1,6,false);(5,7,false)] = None.
Proof. vm_compute. reflexivity. Qed.
Print Assumptions PUB_example_panic_input_without_reindex.

Example PUB_example_panic_input_with_reindex :
  option_map (map ui_stops)
    (all_sequences [(0,1,false);(2,3,false);(4,5,false);(6,2,false);(1,6,false);(5,7,false)])
  = Some [[0;1;2;3;6];[4;5;7]].
Proof. vm_compute. reflexivity. Qed.
Print Assumptions PUB_example_panic_input_with_reindex.

Example PUB_example_misgroup_input_without_reindex :
  option_map (map ui_stops)
    (all_sequences_gen false
       [(0,1,false);(2,3,false);(4,5,false);(6,7,false);(1,2,false);(5,8,false)])
  = Some [[0;1;2;3];[4;5];[6;7;5;8]].
Proof. vm_compute. reflexivity. Qed.
Print Assumptions PUB_example_misgroup_input_without_reindex.

Example PUB_example_misgroup_input_with_reindex :
  option_map (map ui_stops)
    (all_sequences [(0,1,false);(2,3,false);(4,5,false);(6,7,false);(1,2,false);(5,8,false)])
  = Some [[0;1;2;3];[4;5;8];[6;7]].
Proof. vm_compute. reflexivity. Qed.
Print Assumptions PUB_example_misgroup_input_with_reindex.
